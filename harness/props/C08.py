"""C08: cells are immutable values; slices / builders / copies derived from them are isolated snapshots;
results of library calls do not depend on the calls made before."""
from ..gen import cells as G
from ..gen import scripts as S
from .. import heapobs as O
from ..translate import heapsrc, bsops

SPEC = dict(
    manifest=dict(
        category='proof',
        text='PARTIAL. Lean proves, for EVERY finite history of API operations over an explicit abstract heap (bit containers and '
             'reference-list containers plus Cell / Slice / Builder objects naming them; one transition per API call saying what it '
             'allocates, aliases and mutates), (c08_separation) the separation invariant: a container a Slice or Builder can write to is '
             'reachable from no other object; (c08_immutable) hash, data bits, references and serialisation of every cell are the same '
             'after any further history, and the cached hash is always the hash of the current content; (c08_isolated, '
             'c08_refines_value_semantics, c08_history_independent) a call changes the value of no object but its own self and its '
             'result is a function of the VALUES of its arguments, not of the calls made before - two arbitrary histories reaching '
             'equal argument values give equal results; (c08_observe_pure, c08_inputs_untouched) hash / to_boc / order are read-only '
             'and idempotent and the plain array / list a cell was constructed from is never written. Mutation through public attributes by USER code (cell.bits.append(1)) is outside the model; '
             'the model covers the aliasing that library calls create. The tie between model and code is alias-graph correspondence '
             '(bijection between model container ids and Python object identities, contents, offsets, hashes) after every step of '
             'sampled random interleavings - sampled, not all inputs - plus a library-only frame / idempotence / alias-exploit / '
             'fresh-interpreter oracle and deterministic probes for the composite calls (HashMap, VmStack, TL-B, to_boc option sets). '
             'SOURCE TIE for the copy / isolation glue: Cell.begin_parse / to_slice / copy / to_builder, Slice.copy / to_cell / to_builder / '
             'from_cell, Builder.end_cell / to_cell / to_slice are REGENERATED from the Python source on every run as heap transformers '
             '(Generated/HeapSrc.lean: which container of the new object is a copy, which the receiver\'s own) and Lean proves each equal to the '
             'model transition `derive` on every well-formed heap (c08_src_step), so separation and immutability hold of the regenerated steps '
             '(c08_src_separation, c08_src_immutable). Of the loads / stores, the two that MOVE REFERENCES are regenerated too: '
             'Builder.store_ref (appends the very object it is given to the builder\'s own list container, in place; raises at 4 entries) = model '
             'storeRef (c08_src_store_step) and Slice.load_ref (hands out the very Cell object in the list, changes only ref_offset) = model loadRef '
             '(c08_src_load_step); c08_src_separation_mut / c08_src_immutable_mut extend separation and immutability to histories containing them. '
             'The BIT-MOVING loads / stores are regenerated as well (c08_src_bits_step): Builder.store_bits / store_uint = model storeBits (the '
             'builder\'s OWN array extended in place, overflow checked first, the argument only read), store_cell / store_slice / store_bits(array) = '
             'model storeFrom (own array and own list extended by the source\'s remaining bits and the ELEMENTS of its remaining references - the '
             'source\'s containers are never kept; the store_slice loop is proved by induction), Slice.preload_bits = peekBits, load_bits = '
             'dropBits-with-result (a NEW array is returned), skip_bits / load_uint = dropBits (only the slice\'s OWN array shrinks, underflow checked '
             'first; load_uint(0) raises). c08_src_history: ONE theorem over the whole regenerated alphabet - any interleaving of the eleven copy / '
             'derive methods, store_ref, load_ref, the bit-moving loads / stores (any receivers, any arguments) and the remaining hand-model '
             'transitions keeps Sep / WF / Coh and leaves every cell exactly as it was. (Builder.store_builder does not exist in the library.) '
             'Cell(bits, refs) as a whole: c08_src_ctor_step - Cell.__init__ is regenerated at the alias level (the pointer stores are read off the source, every other '
             'attribute is a cache computed by methods INSPECTED to only read .bits / .refs, except get_data_bytes which is translated and run as a scratch '
             'call: it pads a COPY) and proved equal to the model step cellCtor: the new cell points at the caller\'s own two containers, nothing else is '
             'allocated or written; the constructor is part of the alphabet of c08_src_history. '
             'Still hand model + sampled correspondence: the VALUE part of the constructor (construct = C01/C02\'s tie), the cells of '
             'Boc.deserialize, hash / to_boc, composite parsers. '
             'TYPED STORES / LOADS (c08_src_typed_ops_own_containers, Properties/C08Typed.lean): every store_* of Generated/BuilderOps.lean (18 methods) only '
             'appends to the builder\'s own bit array / list - partial writes of a raising call included - and every load_* / preload_* / skip_bits of '
             'Generated/SliceOps.lean (27 methods) only deletes a prefix of the slice\'s own bit array and moves its own ref_offset forward, never past the '
             'end; each family through ONE generic heap lemma (liftB_ownB / liftS_ownS): invariant kept, nothing allocated, no other container, record '
             'or cell changed. ref_offset <= len(refs) is now part of WF (WF.offLe), so c08_src_history has no side condition.',
        level_note='For the eleven copy / derive methods: the translator harness/translate/pyheap.py with the declared interface of heapsrc.py '
                   '(attribute -> record field, x.copy() / x[k:] = a new container, Slice(..) / Cell(..) keep the pointers given, Builder() = two new '
                   'empty containers; inside to_builder store_cell / store_slice are still read as the model\'s storeFrom), validated on every change '
                   'against Python object identities (319 calls over a 15-object pool; x.extend(v) / del x[:k] = TvmBitarray.extend / __delitem__ whose '
                   'source text is checked (bounds check first, then in place), x[:k] = a new array, l += m = in-place extension by the elements, '
                   'ba2int / int2ba = value functions, a length / size parameter is a non-negative int, store_bits reads only the items of its argument; '
                   'a raising call leaves the heap as it was: compared on the receiver after every raising call; l.append(x) = in-place extension of the list container by the object itself, l[k] = the '
                   'object stored there, list elements are Cell objects as annotated). For everything else: '
                   'Trusted: Lean kernel (propext, Classical.choice, Quot.sound); Model/Heap.lean as a faithful hand transcription of which '
                   'containers each call in cell.py / slice.py / builder.py / deserialize.py copies, shares or mutates (checked by sampled '
                   'correspondence only); composite parsers are represented by their observable effect (bits dropped, refs loaded, '
                   'fresh result objects); CPython id() as object identity; the Python harness.',
        technique='Lean 4 invariant proof over a heap model (hand model; the copy / derive glue regenerated from source by an alias-graph '
                  'translator and proved equal to the model step) + differential alias-graph correspondence with the library',
    ),
    translators=[('cell.py / slice.py / builder.py copy + derive glue->Generated/HeapSrc.lean', heapsrc.regenerate),
                 ('builder.py/tvm_bitarray.py store_* methods->Generated/BuilderOps.lean', bsops.regenerator('BuilderOps')),
                 ('slice.py/tvm_bitarray.py load_*/preload_* methods->Generated/SliceOps.lean', bsops.regenerator('SliceOps'))],
    lean_targets=['TonVerif.Proofs.SrcHeap', 'TonVerif.Proofs.SrcHeapOps'],
    design_ref='DESIGN.md §6 C08',
    rule='seeded random histories (<= 40 steps) over a pool that starts with a small cell DAG (fresh, plain-bitarray, TvmBitarray, '
         'shared-container and exotic cells, dictionaries, a VmStack, a StateInit): derive / load / store / observe / boc round trip / '
         'composite parse steps with receivers biased towards objects derived from one another; after every step the alias graph and '
         'contents are compared with the heap model and every non-receiver object with its previous value; distinct = distinct token '
         'sequence; non-trivial = a slice or builder derived from a pool cell was mutated',
    trusted_base=['Model/Heap.lean mirrors the allocation / aliasing / mutation behaviour of the API by hand',
                  'harness/heapobs.py (id()-based alias graph observer) and harness/props/C08.py (step expansion into model ops)',
                  'SHA-256 is an abstract parameter H in all theorems'],
    assumptions=['user code does not mutate objects through public attributes', 'id() of simultaneously live objects is unique',
                 'correspondence is sampled differential testing of model vs library',
                 'bitarray copy / slicing / extend / del behave as modelled'],
)

MAX_POOL = 70


def _lib():
    from pytoniq_core.boc.cell import Cell
    from pytoniq_core.boc.slice import Slice
    from pytoniq_core.boc.builder import Builder
    from pytoniq_core.boc.tvm_bitarray import TvmBitarray
    from bitarray import bitarray
    return Cell, Slice, Builder, TvmBitarray, bitarray


def ids_str(ids):
    return '.'.join(map(str, ids)) or '-'


def parse_ids(s):
    return [] if s in ('-', '') else [int(x) for x in s.split('.')]


def bstr(bits):
    return bits or '-'


def unb(s):
    return '' if s == '-' else s


class Stop(Exception):
    """the history cannot be continued (already reported)"""


class Hist:
    def __init__(self, ctx):
        self.ctx = ctx
        self.pool = O.Pool()
        self.mops = []          # model op tokens (flat)
        self.exp = []           # expected out per model op: exact string, 'x', or None (= anything but x)
        self.steps = []         # dict(tok, kind, end, obs, raised)
        self.init = []
        self.toks = []
        self.origin = {}        # derived object -> source object
        self.mutated = set()    # slices/builders that were mutated
        self.special = {}       # cell idx -> ('dict', n) | ('holder', n) | ('vmstack',) | ('stateinit',)
        self.obs = []
        self.snap = []
        self.userdict = {}      # the caller's dict passed to order(dict)
        self.nontrivial = False
        self.dead = False
        self.deep = {}
        self.reported = False
        self.cut = None         # first step that must not be compared with the model (a failure was reported there)
        self.mut_src = set()    # cells from which a mutated slice/builder was derived
        self.ctx_boc = ctx.__dict__.setdefault('_c08_boc', {})

    # -- bookkeeping
    def emit(self, op, exp):
        self.mops.append(op)
        self.exp.append(exp)

    def alloc(self, op, obj, tag=None):
        i = self.pool.add(obj, tag)
        self.emit(op, f'o{i}')
        return i

    def inp(self, extra=None):
        d = {'init': list(self.init), 'steps': list(self.toks)}
        if extra:
            d.update(extra)
        return d

    def derived_from_cell(self, i):
        seen = 0
        while i in self.origin and seen < 100:
            i = self.origin[i]
            seen += 1
            if self.pool.tags[i] == 'c':
                return i
        return None

    # -- registration of objects produced by the library
    def reg_cell(self, c):
        i = self.pool.find(c)
        if i is not None:
            return i
        ids = [self.reg_cell(r) for r in c.refs]
        return self.alloc(f'cf:{bstr(c.bits.to01())}:{ids_str(ids)}:{c.type_}', c, 'c')

    def reg_slice(self, s):
        ids = [self.reg_cell(r) for r in s.refs]
        i = self.alloc(f'sf:{bstr(s.bits.to01())}:{ids_str(ids)}:{s.type_}', s, 's')
        for _ in range(s.ref_offset):
            self.emit(f'lr:{i}', None)
        return i

    def reg_builder(self, b):
        ids = [self.reg_cell(r) for r in b.refs]
        i = self.alloc('bn', b, 'b')
        if len(b.bits):
            self.emit(f'sb:{i}:{b.bits.to01()}', 'u')
        for j in ids:
            self.emit(f'sr:{i}:{j}', 'u')
        return i

    def reg_result(self, res, depth=0):
        Cell, Slice, Builder, TvmBitarray, bitarray = _lib()
        if isinstance(res, (Cell, Slice, Builder, bitarray)):
            if self.pool.find(res) is None:
                if isinstance(res, Cell):
                    self.reg_cell(res)
                elif isinstance(res, Slice):
                    self.reg_slice(res)
                elif isinstance(res, Builder):
                    self.reg_builder(res)
                else:
                    self.alloc(f'nb:{bstr(res.to01())}', res, 'ub')
        elif isinstance(res, dict):
            for v in res.values():
                self.reg_result(v, depth)
        elif isinstance(res, (list, tuple)):
            for v in res:
                self.reg_result(v, depth)
        elif res is None or isinstance(res, (int, str, bytes, bool)):
            return
        elif hasattr(res, 'list') and isinstance(res.list, list):
            self.reg_result(res.list, depth)
        elif hasattr(res, '__dict__') and depth < 2:
            for v in vars(res).values():
                self.reg_result(v, depth + 1)


# ----------------------------------------------------------------------------- executing one harness step on the library

DV_HOW = {'begin_parse': 's', 'to_slice': 's', 'from_cell': 's', 'copy': None, 'to_builder': 'b', 'to_cell': 'c', 'end_cell': 'c'}


def multi_store(h, b, parts, raised):
    """parts: [('sb', bits) | ('sr', cell id)] in the order the library performs them; the first that does not fit raises"""
    B = h.pool.objs[b]
    nb, nr = len(h.obs[b][5]), len(h.obs[b][6])
    k = 0
    predicted_x = False
    for kind, arg in parts:
        if kind == 'sb':
            fit = nb + len(arg) <= 1023
            h.emit(f'sb:{b}:{bstr(arg)}', 'u' if fit else 'x')
            nb += len(arg)
        else:
            fit = nr + 1 <= 4
            h.emit(f'sr:{b}:{arg}', 'u' if fit else 'x')
            nr += 1
        k += 1
        if not fit:
            predicted_x = True
            break
    if raised != predicted_x:        # make the disagreement visible in the model comparison
        h.exp[-1] = 'x' if raised else 'u'
    return B


def step(h, tok):
    """execute one harness token on the real library, register results, append the model ops.
    returns (kind, raised, receivers)"""
    Cell, Slice, Builder, TvmBitarray, bitarray = _lib()
    p = tok.split(':')
    k = p[0]
    P = h.pool.objs
    tags = h.pool.tags
    recv = set()
    raised = False
    kind = k

    def need(i, *ts):
        if not (0 <= i < len(P)) or tags[i] not in ts:
            raise ValueError(f'token {tok}: object {i} is not one of {ts}')
        return P[i]

    if k == 'nb':
        bits = unb(p[1])
        ba = bitarray(bits) if p[2] == 'p' else TvmBitarray(1023, bitarray(bits))
        h.alloc(f'nb:{p[1]}', ba, 'ub')
    elif k == 'nr':
        lst = [need(i, 'c') for i in parse_ids(p[1])]
        h.alloc(f'nr:{p[1]}', lst, 'ur')
    elif k == 'ct':
        ub, ur = need(int(p[1]), 'ub'), need(int(p[2]), 'ur')
        op = f'ct:{p[1]}:{p[2]}:{p[3]}'
        try:
            c = Cell(ub, ur, int(p[3]))
        except Exception:
            raised = True
            h.emit(op, 'x')
        else:
            h.alloc(op, c, 'c')
    elif k == 'cf':
        op = f'cf:{p[1]}:{p[2]}:{p[3]}'
        kids = [need(i, 'c') for i in parse_ids(p[2])]
        try:
            c = Cell(TvmBitarray(1023, bitarray(unb(p[1]))), kids, int(p[3]))
        except Exception:
            raised = True
            h.emit(op, 'x')
        else:
            h.alloc(op, c, 'c')
    elif k == 'empty':
        h.alloc('cf:-:-:-1', Cell.empty(), 'c')
    elif k == 'bn':
        if p[1] == 'B':
            b = Builder()
        else:
            from pytoniq_core import begin_cell
            b = begin_cell()
        h.alloc('bn', b, 'b')
    elif k == 'dv':
        src = int(p[1])
        how = p[2]
        o = need(src, 'c', 's', 'b')
        dst = DV_HOW[how] or tags[src]
        kind = f'{tags[src]}.{how}'
        try:
            r = Slice.from_cell(o) if how == 'from_cell' else getattr(o, how)()
        except Exception:
            raised = True
            h.emit(f'dv:{src}:{dst}', 'x')
        else:
            if O.tag_of(r) != dst:
                raise ValueError(f'{tok}: unexpected result type {type(r).__name__}')
            i = h.alloc(f'dv:{src}:{dst}', r, dst)
            h.origin[i] = src
    elif k in ('lu', 'li', 'lbit', 'lby', 'sk'):
        s = int(p[1])
        o = need(s, 's')
        recv.add(s)
        n = {'lu': lambda: int(p[2]), 'li': lambda: int(p[2]), 'lbit': lambda: 1, 'lby': lambda: 8 * int(p[2]), 'sk': lambda: int(p[2])}[k]()
        try:
            if k == 'lu':
                exp = 'b' + bstr(S.enc_uint(o.load_uint(n), n))
            elif k == 'li':
                exp = 'b' + bstr(S.enc_int(o.load_int(n), n))
            elif k == 'lbit':
                exp = 'b' + str(int(o.load_bit()))
            elif k == 'lby':
                exp = 'b' + bstr(G.bytes_to_bits(o.load_bytes(n // 8)))
            else:
                o.skip_bits(n)
                exp = None
        except Exception:
            raised = True
            exp = 'x'
        h.emit(f'db:{s}:{n}:0', exp)
    elif k == 'lc':
        s = int(p[1])
        o = need(s, 's')
        recv.add(s)
        pre = h.obs[s][5]
        try:
            v = o.load_coins()
        except Exception:
            raised = True
            v = None
        if len(pre) < 4 or int(pre[:4], 2) == 0:
            h.emit(f'db:{s}:4:0', 'x' if raised else 'b0000')
        else:
            ln = int(pre[:4], 2)
            h.emit(f'db:{s}:4:0', 'b' + pre[:4])
            h.emit(f'db:{s}:{8 * ln}:0', 'x' if raised else 'b' + S.enc_uint(v, 8 * ln))
    elif k == 'lb':
        s, n = int(p[1]), int(p[2])
        o = need(s, 's')
        recv.add(s)
        try:
            r = o.load_bits(n)
        except Exception:
            raised = True
            h.emit(f'db:{s}:{n}:1', 'x')
        else:
            h.alloc(f'db:{s}:{n}:1', r, 'ub')
    elif k == 'pb':
        s, n = int(p[1]), int(p[2])
        o = need(s, 's')
        try:
            r = o.preload_bits(n)
        except Exception:
            raised = True
            h.emit(f'pb:{s}:{n}', 'x')
        else:
            h.alloc(f'pb:{s}:{n}', r, 'ub')
    elif k == 'lr':
        s = int(p[1])
        o = need(s, 's')
        recv.add(s)
        try:
            r = o.load_ref()
        except Exception:
            raised = True
            h.emit(f'lr:{s}', 'x')
        else:
            i = h.pool.find(r)
            h.emit(f'lr:{s}', f'o{i}' if i is not None else 'o?(an object that is not the cell in the list)')
    elif k == 'lmr':
        s = int(p[1])
        o = need(s, 's')
        recv.add(s)
        pre = h.obs[s][5]
        try:
            r = o.load_maybe_ref()
        except Exception:
            raised = True
            r = None
        if not pre:
            h.emit(f'db:{s}:1:0', 'x' if raised else 'b?')
        elif pre[0] == '0':
            h.emit(f'db:{s}:1:0', 'b0' if (not raised and r is None) else 'x?')
        else:
            h.emit(f'db:{s}:1:0', 'b1')
            if raised:
                h.emit(f'lr:{s}', 'x')
            else:
                i = h.pool.find(r)
                h.emit(f'lr:{s}', f'o{i}' if i is not None else 'o?')
    elif k in ('su', 'si', 'sbit', 'sbs', 'sby', 'sc', 'sstr'):
        b = int(p[1])
        o = need(b, 'b')
        recv.add(b)
        if k == 'su':
            parts = [('sb', S.enc_uint(int(p[2]), int(p[3])))]
            f = lambda: o.store_uint(int(p[2]), int(p[3]))
        elif k == 'si':
            parts = [('sb', S.enc_int(int(p[2]), int(p[3])))]
            f = lambda: o.store_int(int(p[2]), int(p[3]))
        elif k == 'sbit':
            parts = [('sb', p[2])]
            f = lambda: o.store_bit(int(p[2]))
        elif k == 'sbs':
            parts = [('sb', unb(p[2]))]
            f = lambda: o.store_bits(unb(p[2]))
        elif k == 'sby':
            by = bytes.fromhex(unb(p[2]))
            parts = [('sb', G.bytes_to_bits(by))]
            f = lambda: o.store_bytes(by)
        elif k == 'sstr':
            by = bytes.fromhex(unb(p[2]))
            parts = [('sb', G.bytes_to_bits(by))]
            f = lambda: o.store_string(by.decode())
        else:
            v = int(p[2])
            if v == 0:
                parts = [('sb', '0000')]
            else:
                ln = (v.bit_length() + 7) // 8
                parts = [('sb', S.enc_uint(ln, 4)), ('sb', S.enc_uint(v, 8 * ln))]
            f = lambda: o.store_coins(v)
        try:
            f()
        except Exception:
            raised = True
        multi_store(h, b, parts, raised)
    elif k == 'st':
        b, src = int(p[1]), int(p[2])
        o = need(b, 'b')
        x = need(src, 'c', 's', 'ub')
        recv.add(b)
        kind = 'st.' + tags[src]
        try:
            if tags[src] == 'c':
                o.store_cell(x)
            elif tags[src] == 's':
                o.store_slice(x)
            else:
                o.store_bits(x)
        except Exception:
            raised = True
        h.emit(f'st:{b}:{src}', 'x' if raised else 'u')
    elif k == 'sr':
        b, c = int(p[1]), int(p[2])
        o = need(b, 'b')
        recv.add(b)
        cc = need(c, 'c')
        try:
            o.store_ref(cc)
        except Exception:
            raised = True
        h.emit(f'sr:{b}:{c}', 'x' if raised else 'u')
    elif k in ('smr', 'sd'):
        b = int(p[1])
        o = need(b, 'b')
        recv.add(b)
        c = None if p[2] == '-' else need(int(p[2]), 'c')
        try:
            (o.store_maybe_ref if k == 'smr' else o.store_dict)(c)
        except Exception:
            raised = True
        multi_store(h, b, [('sb', '0')] if c is None else [('sb', '1'), ('sr', int(p[2]))], raised)
    elif k == 'ob':
        kind, raised = step_observe(h, tok, p)
    elif k == 'fb':
        c = need(int(p[1]), 'c')
        kind = 'fb.' + p[3]
        try:
            boc = c.to_boc(*O.boc_flags(int(p[2])))
            r = {'C': Cell, 'S': Slice, 'B': Builder}[p[3]].one_from_boc(boc)
        except Exception:
            raised = True
        else:
            h.reg_result(r)
    elif k in ('hmparse', 'ldict', 'vmdes', 'sides'):
        s = int(p[1])
        o = need(s, 's')
        recv.add(s)
        pre_len, pre_off = len(h.obs[s][5]), h.obs[s][3]
        try:
            if k == 'hmparse':
                from pytoniq_core.boc.hashmap import HashMap
                r = HashMap.parse(o, int(p[2]))
            elif k == 'ldict':
                r = o.load_dict(int(p[2]))
            elif k == 'vmdes':
                from pytoniq_core.tlb.vm_stack import VmStack
                r = VmStack.deserialize(o)
            else:
                from pytoniq_core.tlb.account import StateInit
                r = StateInit.deserialize(o)
        except (Exception, RecursionError):
            raised = True
            r = None
        d = pre_len - len(o.bits)
        if d > 0:
            h.emit(f'db:{s}:{d}:0', None)
        for _ in range(max(0, o.ref_offset - pre_off)):
            h.emit(f'lr:{s}', None)
        if not raised:
            h.reg_result(r)
    elif k == 'vmser':
        from pytoniq_core.tlb.vm_stack import VmStack
        if p[1].startswith('L'):
            items = need(int(p[1][1:]), 'ur')
        else:
            items = []
            for it in (p[1].split('.') if p[1] != '-' else []):
                if it == 'n':
                    items.append(None)
                elif it[0] == 'i':
                    items.append(int(it[1:]))
                else:
                    items.append(need(int(it[1:]), 'c', 's', 'b'))
        before = list(items)
        try:
            r = VmStack.serialize(items)
            r2 = VmStack.serialize(items)
        except Exception:
            raised = True
        else:
            if r.hash != r2.hash:
                h.ctx.fail('idempotence:vmser', 'VmStack.serialize twice on the same list gives different cells', h.inp(), r2.hash.hex(), r.hash.hex())
                h.reported = True
            h.reg_result(r)
        if len(items) != len(before) or any(a is not b for a, b in zip(items, before)):
            h.ctx.fail('input-mutated:vmser', "VmStack.serialize changed the caller's list", h.inp(), len(items), len(before))
            h.reported = True
    else:
        raise ValueError('unknown harness token ' + tok)
    return kind, raised, recv


def step_observe(h, tok, p):
    """read-only calls on a cell: model op `ob`, expected out = the cell's hash; idempotence checked here"""
    c = int(p[1])
    how = p[2]
    P = h.pool.objs
    o = P[c]
    if h.pool.tags[c] != 'c':
        raise ValueError(tok)
    ctx = h.ctx
    exp = None
    raised = False
    if how not in ('hash', 'rh', 'rep', 'boc', 'order', 'order0', 'orderd'):
        raise ValueError(tok)
    other = P[int(p[3])] if how.startswith('order') else None
    if other is not None and h.pool.tags[int(p[3])] != 'c':
        raise ValueError(tok)

    def bad(key, what, observed, expected):
        ctx.fail(key, what, h.inp(), observed, expected)
        h.reported = True

    try:
        if how == 'hash':
            r = [o.hash, o.hash, o.get_hash(0) if not o.level_mask.mask else o.hash]
            if r[0] != r[1] or r[0] != r[2]:
                bad('idempotence:hash', 'hash differs between calls', [x.hex() for x in r], r[0].hex())
            exp = 'h' + r[0].hex()
        elif how == 'rh':
            r = [o.calculate_representation_hash() for _ in range(3)]
            if r[0] != r[1] or r[0] != r[2]:
                bad('idempotence:rh', 'calculate_representation_hash differs between calls', [x.hex() for x in r], r[0].hex())
            exp = 'h' + r[0].hex()
        elif how == 'rep':
            r = [o.get_representation() for _ in range(2)]
            if r[0] != r[1]:
                bad('idempotence:rep', 'get_representation differs between calls', r[1].hex(), r[0].hex())
            import hashlib
            exp = 'h' + hashlib.sha256(r[0]).hexdigest()
        elif how == 'boc':
            f1 = int(p[3])
            f2 = int(p[4])
            r1 = o.to_boc(*O.boc_flags(f1))
            r2 = o.to_boc(*O.boc_flags(f2))
            r3 = o.to_boc(*O.boc_flags(f1))
            if r1 != r3:
                bad('idempotence:to_boc', f'to_boc({O.boc_flags(f1)}) differs before/after to_boc({O.boc_flags(f2)})', r3.hex(), r1.hex())
            for f, r in ((f1, r1), (f2, r2)):
                if O.boc_header_flags(r) != f:
                    bad('order-dependence:to_boc', f'to_boc{O.boc_flags(f)} returned a BoC whose header says options {O.boc_flags(O.boc_header_flags(r))} '
                        '(result depends on an earlier call)', r.hex(), f'flag bits {f:03b}')
                key = (o.hash, f)
                was = h.ctx_boc.setdefault(key, r)
                if was != r:
                    bad('order-dependence:to_boc', f'to_boc{O.boc_flags(f)} of an equal cell gave other bytes earlier in this run', r.hex(), was.hex())
            exp = 'h' + o.hash.hex()
        elif how in ('order', 'order0', 'orderd'):
            other.order()
            want = [x.hash for x in o.order({})]
            if how == 'order':
                got = [x.hash for x in o.order()]
                got2 = [x.hash for x in o.order()]
                if got != want:
                    bad('order-dependence:order', 'b.order() after a.order() is not b.order({})', [x.hex()[:8] for x in got], [x.hex()[:8] for x in want])
                elif got2 != got:
                    bad('idempotence:order', 'order() differs between calls', len(got2), len(got))
            elif how == 'order0':
                d = {}
                got = [x.hash for x in o.order(d)]
                if got != want or [x.hash for x in d] != want:
                    bad('idempotence:order', 'order({}) differs between calls', len(got), len(want))
            else:
                o.order(h.userdict)      # a caller's dict accumulates: by design
                got = [x.hash for x in o.order()]
                if got != want:
                    bad('order-dependence:order', 'order() after order(users_dict) is not order({})', len(got), len(want))
            dag_hashes = {x.hash for x in O.dag_of(o)[1]}
            if set(want) != dag_hashes or want[0] != o.hash:
                bad('order-dependence:order', 'order({}) is not exactly the DAG of the cell', len(want), len(dag_hashes))
            exp = 'h' + o.hash.hex()
    except Exception:
        raised = True
        exp = 'x'
    h.emit(f'ob:{c}', exp)
    return 'ob.' + how, raised


# ----------------------------------------------------------------------------- the library-only oracle, run after every step

_EXPLOIT_ROT = [0]
_EXPLOIT_ROT_REFS = [0]


def exploit(h, kind, shared):
    """a Slice/Builder shares a container with another object: show through library calls only that this breaks isolation"""
    ctx = h.ctx
    P, tags = h.pool.objs, h.pool.tags
    some_cell = next((P[i] for i, t in enumerate(tags) if t == 'c'), None)
    for which, group in shared:
        for o in [i for i in group if tags[i] in ('s', 'b')]:
            others = [i for i in group if i != o]
            before = {i: O.snapshot(P[i]) for i in others}
            call = None
            extra_inp = {}
            try:
                if which == 'bits' and tags[o] == 's' and len(O._raw(P[o], 'bits')):
                    P[o].skip_bits(1)
                    call = f'pool[{o}] (Slice) .skip_bits(1)'
                elif which == 'bits' and tags[o] == 'b' and len(O._raw(P[o], 'bits')) < 1023:      # (not through the property: no side effect before the write)
                    # every kind of bit write, the FIRST one rotating from history to history (a copy-on-write scheme may
                    # unshare on some store paths and forget others; the first write after the sharing began is the one that tells)
                    b = P[o]
                    writes = [('store_bit(1)', lambda: b.store_bit(1)), ("store_string('z')", lambda: b.store_string('z')),
                              ('store_uint(1, 1)', lambda: b.store_uint(1, 1)), ("store_bits('1')", lambda: b.store_bits('1')),
                              ("store_bytes(b'\\xa5')", lambda: b.store_bytes(b'\xa5')), ('store_int(-1, 1)', lambda: b.store_int(-1, 1)),
                              ('store_coins(1)', lambda: b.store_coins(1)), ('store_address(None)', lambda: b.store_address(None)),
                              ('store_bool(True)', lambda: b.store_bool(True)), ('store_var_uint(1, 4)', lambda: b.store_var_uint(1, 4)),
                              ("store_snake_string('y')", lambda: b.store_snake_string('y')), ('store_maybe_ref(None)', lambda: b.store_maybe_ref(None)),
                              ('store_dict(None)', lambda: b.store_dict(None)), ('store_bit_int(1)', lambda: b.store_bit_int(1))]
                    _EXPLOIT_ROT[0] += 1
                    k0 = _EXPLOIT_ROT[0] % len(writes)
                    for nm, f in writes[k0:] + writes[:k0]:
                        try:
                            f()
                        except Exception:
                            continue
                        call = (call + ' ; ' if call else f'pool[{o}] (Builder) ') + '.' + nm
                        if any(O.snapshot(P[i]) != before[i] for i in others):
                            break
                elif which == 'refs' and tags[o] == 'b' and len(O._raw(P[o], 'refs')) < 4 and some_cell is not None:
                    # every kind of REFERENCE write, in a fixed order, until one shows through (round 10: a copy-on-write scheme may
                    # replace the list in store_ref and still extend it in place in store_cell / store_slice / store_builder)
                    b = P[o]
                    Cell_, Slice_, Builder_, _, _ = _lib()
                    ci = h.pool.find(some_cell)
                    carrier = Builder_().store_ref(some_cell).end_cell()          # a cell with no bits and one reference (not a pool object)
                    writes = [(f'store_ref(pool[{ci}])', lambda: b.store_ref(some_cell)),
                              (f'store_cell(<cell with no bits and the reference pool[{ci}]>)', lambda: b.store_cell(carrier)),
                              (f'store_slice(<slice of a cell with no bits and the reference pool[{ci}]>)', lambda: b.store_slice(carrier.begin_parse())),
                              (f'store_builder(<builder with no bits and the reference pool[{ci}]>)', lambda: b.store_builder(Builder_().store_ref(some_cell))),
                              (f'store_maybe_ref(pool[{ci}])', lambda: b.store_maybe_ref(some_cell)),
                              ("store_snake_bytes(b'q' * 200)", lambda: b.store_snake_bytes(b'q' * 200))]
                    # the FIRST write rotates from history to history (as for the bit writes: a scheme that replaces the list in one store
                    # method unshares there; the first write after the sharing began is the one that tells); a replay forces the recorded one
                    forced = getattr(h, 'exploit_first', None)
                    if forced is None:
                        _EXPLOIT_ROT_REFS[0] += 1
                        k0 = _EXPLOIT_ROT_REFS[0] % len(writes)
                    else:
                        k0 = int(forced) % len(writes)
                    extra_inp['exploit_first'] = k0
                    for nm, f in writes[k0:] + writes[:k0]:
                        if len(O._raw(b, 'refs')) >= 4:
                            break
                        try:
                            f()
                        except Exception:
                            continue
                        call = (call + ' ; ' if call else f'pool[{o}] (Builder) ') + '.' + nm
                        if any(O.snapshot(P[i]) != before[i] for i in others):
                            break
            except Exception:
                call = None
            if call is None:
                continue
            for i in others:
                now = O.snapshot(P[i])
                if now != before[i]:
                    ctx.count('alias-exploited')
                    ctx.fail(f'alias-exploit:{kind}',
                             f'after this history pool[{i}] ({tags[i]}) and pool[{o}] ({tags[o]}) share one {which} container: {call} changes pool[{i}]',
                             h.inp(dict({'exploit': call}, **extra_inp)), now, before[i])
                    h.reported = True
                    raise Stop()
    ctx.corr_broken(f'the library shares a container between a Slice/Builder and another object {shared[:2]} (no library call exploits it here); '
                    f'history init={h.init} steps={h.toks}')
    h.reported = True
    raise Stop()


def deep_check(h, kind):
    """representation hash and serialisation of cells, recomputed, never change"""
    P, tags = h.pool.objs, h.pool.tags
    cells = [i for i, t in enumerate(tags) if t == 'c']
    stride = max(1, len(cells) // 6)
    for i in cells[::stride]:
        o = P[i]
        try:
            v = (o.calculate_representation_hash().hex(), o.to_boc().hex())
        except Exception:
            v = 'x'
        was = h.deep.setdefault(i, v)
        if was != v:
            h.ctx.fail(f'immutable:{kind}', f'representation hash / to_boc() of pool[{i}] changed during this history', h.inp(), v, was)
            h.reported = True
            h.cut = len(h.steps) - 1
            raise Stop()


def after(h, tok, kind, raised, recv):
    ctx = h.ctx
    obs, unknown = O.observe(h.pool)
    if unknown:
        for _, c in unknown:
            h.reg_cell(c)
        ctx.count('unknown-ref-registered')
        obs, unknown = O.observe(h.pool)
    snap = O.snap_from_obs(obs)
    prev = h.snap
    h.steps.append(dict(tok=tok, kind=kind, end=len(h.mops), obs=obs, raised=raised))
    tags = h.pool.tags
    for i in range(len(prev)):
        if snap[i] != prev[i]:
            t = prev[i][0]
            if i in recv and t != 'c':
                if i not in h.mutated and h.derived_from_cell(i) is not None:
                    ctx.count('pressure:derived-object-mutated')
                    h.nontrivial = True
                    h.mut_src.add(h.derived_from_cell(i))
                h.mutated.add(i)
                continue
            cls = 'immutable' if t == 'c' else 'input-mutated' if t in ('ub', 'ur') else 'isolation'
            ctx.fail(f'{cls}:{kind}', f'step {tok} changed pool[{i}] ({tags[i]}), which is not the object it operates on',
                     h.inp(), snap[i], prev[i])
            h.reported = True
            h.cut = len(h.steps) - 1
            h.obs, h.snap = obs, snap
            raise Stop()
    h.obs, h.snap = obs, snap
    shared = O.shared_with_owner(obs)
    if shared:
        h.cut = len(h.steps) - 1
        exploit(h, kind, shared)
    if len(h.steps) % 8 == 0:
        deep_check(h, kind)


def do_step(h, tok, init=False):
    (h.init if init else h.toks).append(tok)
    kind, raised, recv = step(h, tok)
    ctx = h.ctx
    ctx.count('step:' + kind)
    if raised:
        ctx.count('raised:' + kind)
    if kind.startswith('ob.') and int(tok.split(':')[1]) in h.mut_src:
        ctx.count('pressure:source-cell-reobserved-after-derived-mutation')
    after(h, tok, kind, raised, recv)
    if h.reported and h.cut is None:
        h.cut = len(h.steps) - 1
        raise Stop()


# ----------------------------------------------------------------------------- generators

def small_bits(rng):
    r = rng.random()
    if r < 0.7:
        n = rng.randrange(0, 33)
    elif r < 0.9:
        n = rng.choice([0, 1, 7, 8, 9, 15, 16, 17, 63, 64, 65])
    else:
        n = G.rand_len(rng)
    return G.rand_bits(rng, n)


def pick(h, rng, *ts):
    c = [i for i, t in enumerate(h.pool.tags) if t in ts]
    if not c:
        return None
    if rng.random() < 0.6:
        return rng.choice(c[-5:])
    return rng.choice(c)


def decompose(h, root, init):
    """register a library-built DAG by VALUE (cf tokens, children first); returns the pool index of the root"""
    nodes, _ = O.dag_of(root)
    m = []
    for kind, bits, kids in nodes:
        do_step(h, f'cf:{bstr(bits)}:{ids_str([m[j] for j in kids])}:{kind}', init)
        m.append(len(h.pool) - 1)
    return m[-1]


def gen_init(h, rng):
    Cell, Slice, Builder, TvmBitarray, bitarray = _lib()
    P, tags = h.pool.objs, h.pool.tags
    idx = []
    last_ub = last_ur = None
    for i in range(rng.randrange(2, 6)):
        k = 0 if i == 0 else min(rng.choice([0, 1, 1, 2, 2, 3, 4]), 4)
        refs = [rng.choice(idx) for _ in range(k)]
        bits = small_bits(rng)
        if rng.random() < 0.62:
            do_step(h, f'cf:{bstr(bits)}:{ids_str(refs)}:-1', True)
        else:
            if last_ub is not None and rng.random() < 0.3:
                ub = last_ub
            else:
                do_step(h, f'nb:{bstr(bits)}:{rng.choice("pt")}', True)
                ub = len(h.pool) - 1
            if last_ur is not None and rng.random() < 0.3:
                ur = last_ur
            else:
                do_step(h, f'nr:{ids_str(refs)}', True)
                ur = len(h.pool) - 1
            last_ub, last_ur = ub, ur
            do_step(h, f'ct:{ub}:{ur}:-1', True)
        idx.append(len(h.pool) - 1)
    if rng.random() < 0.3:
        bits = G.bytes_to_bits(bytes([2]) + rng.randbytes(32))
        if rng.random() < 0.6:
            do_step(h, f'cf:{bits}:-:2', True)
        else:
            do_step(h, f'nb:{bits}:{rng.choice("pt")}', True)
            do_step(h, 'nr:-', True)
            do_step(h, f'ct:{len(h.pool) - 2}:{len(h.pool) - 1}:2', True)
        lib = len(h.pool) - 1
        if rng.random() < 0.4:
            do_step(h, f'cf:{bstr(small_bits(rng))}:{lib}.{rng.choice(idx)}:-1', True)
    if rng.random() < 0.12:
        ch = rng.choice(idx)
        c = P[ch]
        bits = G.bytes_to_bits(bytes([3]) + c.get_hash(0) + c.get_depth(0).to_bytes(2, 'big'))
        do_step(h, f'cf:{bits}:{ch}:3', True)
    if rng.random() < 0.55:
        from pytoniq_core.boc.hashmap import HashMap
        from pytoniq_core.tlb.vm_stack import VmStack
        from pytoniq_core.tlb.account import StateInit
        from pytoniq_core import begin_cell
        which = rng.choice(['dict', 'dictc', 'holder', 'vmstack', 'stateinit'])
        cells = [P[i] for i in idx]
        if which in ('dict', 'dictc', 'holder'):
            n = rng.choice([4, 8, 16])
            keys = sorted({rng.randrange(1 << n) for _ in range(rng.randrange(1, 5))})
            if which == 'dictc':
                hm = HashMap(n)
                for kk in keys:
                    c = rng.choice(cells)
                    hm.set_int_key(kk, c if len(c.refs) <= 3 and len(c.bits) < 900 else Cell.empty())
            else:
                hm = HashMap(n).with_uint_values(8)
                for kk in keys:
                    hm.set_int_key(kk, rng.randrange(256))
            root = hm.serialize()
            if which == 'holder':
                root = begin_cell().store_dict(root).store_uint(rng.randrange(32), 5).end_cell()
                h.special[decompose(h, root, True)] = ('holder', n)
            else:
                h.special[decompose(h, root, True)] = ('dict', n)
        elif which == 'vmstack':
            vals = []
            for _ in range(rng.randrange(0, 4)):
                r = rng.random()
                c = rng.choice(cells)
                vals.append(rng.choice([0, -1, 7, 1 << 70, -(1 << 100)]) if r < 0.4 else c if r < 0.6 else
                            c.begin_parse() if r < 0.8 else None if r < 0.85 else c.to_builder())
            h.special[decompose(h, VmStack.serialize(vals), True)] = ('vmstack',)
        else:
            si = StateInit(split_depth=rng.choice([None, 3]), code=rng.choice([None] + cells), data=rng.choice([None] + cells))
            h.special[decompose(h, si.serialize(), True)] = ('stateinit',)


def g_load(h, rng):
    s = pick(h, rng, 's')
    if s is None:
        return None
    rem = len(h.pool.objs[s].bits)
    r = rng.random()
    if rem == 0:
        n = rng.choice([0, 1, 1, 8])
    elif r < 0.55:
        n = rng.randrange(1, min(rem, 16) + 1)
    elif r < 0.7:
        n = rem
    elif r < 0.8:
        n = rem + rng.choice([1, 8])
    elif r < 0.85:
        n = 0
    else:
        n = rng.randrange(1, rem + 1)
    k = rng.choice(['lu', 'lu', 'li', 'lbit', 'lby', 'sk', 'sk', 'lc', 'lb', 'lb', 'pb', 'pb'])
    if k in ('lu', 'li'):
        return [f'{k}:{s}:{max(n, 1)}']
    if k == 'lby':
        return [f'lby:{s}:{rng.choice([n // 8, (n + 7) // 8])}']
    if k in ('lbit', 'lc'):
        return [f'{k}:{s}']
    if k == 'pb' and len(h.pool) >= MAX_POOL:
        return None
    return [f'{k}:{s}:{n}']


def g_store(h, rng):
    b = pick(h, rng, 'b')
    if b is None:
        return None
    k = rng.choice(['su', 'su', 'si', 'sbit', 'sbs', 'sbs', 'sby', 'sc', 'sstr'])
    if k == 'su':
        n = rng.choice([1, 3, 8, 16, 32, 64, 256])
        return [f'su:{b}:{rng.getrandbits(n)}:{n}']
    if k == 'si':
        n = rng.choice([1, 3, 8, 16, 32, 64, 257])
        return [f'si:{b}:{rng.randrange(-(1 << (n - 1)), 1 << (n - 1))}:{n}']
    if k == 'sbit':
        return [f'sbit:{b}:{rng.randrange(2)}']
    if k == 'sbs':
        bits = small_bits(rng) if rng.random() < 0.8 else G.rand_bits(rng, rng.choice([300, 511, 700, 1023]))
        return [f'sbs:{b}:{bstr(bits)}']
    if k == 'sby':
        return [f'sby:{b}:{bstr(rng.randbytes(rng.randrange(0, 5)).hex())}']
    if k == 'sc':
        return [f'sc:{b}:{rng.choice([0, 1, 255, 256, 10 ** 9, rng.getrandbits(100)])}']
    txt = ''.join(rng.choice('abcXYZ 09é') for _ in range(rng.randrange(0, 6)))
    return [f'sstr:{b}:{bstr(txt.encode().hex())}']


def g_composite(h, rng):
    if len(h.pool) >= MAX_POOL - 12:
        return None
    which = rng.choice(['hmparse', 'ldict', 'vmdes', 'sides', 'vmser', 'vmser'])
    have = {'dict': 'hmparse', 'holder': 'ldict', 'vmstack': 'vmdes', 'stateinit': 'sides'}
    avail = [have[v[0]] for v in h.special.values()]
    if avail and rng.random() < 0.6:
        which = rng.choice(avail)
    if which == 'vmser':
        if rng.random() < 0.2:
            ur = pick(h, rng, 'ur')
            if ur is not None:
                return [f'vmser:L{ur}']
        items = []
        for _ in range(rng.randrange(0, 4)):
            r = rng.random()
            if r < 0.35:
                items.append('i' + str(rng.choice([0, 1, -1, 1 << 62, 1 << 63, -(1 << 63), rng.getrandbits(120), -rng.getrandbits(200)])))
            elif r < 0.42:
                items.append('n')
            else:
                items.append(f'o{pick(h, rng, "c", "s", "b")}')
        return ['vmser:' + ('.'.join(items) or '-')]
    want = {'hmparse': 'dict', 'ldict': 'holder', 'vmdes': 'vmstack', 'sides': 'stateinit'}[which]
    sp = [i for i, v in h.special.items() if v[0] == want]
    arg = ''
    if which in ('hmparse', 'ldict'):
        arg = ':' + str(h.special[sp[0]][1] if sp and rng.random() < 0.9 else rng.choice([4, 8]))
    if sp and rng.random() < 0.8:
        return [f'dv:{sp[0]}:begin_parse', f'{which}:{len(h.pool)}{arg}']
    s = pick(h, rng, 's')
    if s is None:
        return None
    return [f'{which}:{s}{arg}']


def gen(h, rng):
    P, tags = h.pool.objs, h.pool.tags
    full = len(h.pool) >= MAX_POOL
    for _ in range(30):
        k = rng.choices(KINDS, WEIGHTS)[0]
        if full and k not in ('load', 'store', 'st', 'sr', 'lr', 'ob'):
            continue
        if k == 'c2s':
            c = pick(h, rng, 'c')
            if c is not None:
                return [f'dv:{c}:{rng.choice(["begin_parse", "begin_parse", "to_slice", "from_cell"])}']
        elif k == 'c2c':
            c = pick(h, rng, 'c')
            if c is not None:
                return [f'dv:{c}:copy']
        elif k == 'c2b':
            c = pick(h, rng, 'c')
            if c is not None:
                return [f'dv:{c}:to_builder']
        elif k == 's2x':
            s = pick(h, rng, 's')
            if s is not None:
                return [f'dv:{s}:{rng.choice(["copy", "to_cell", "to_builder"])}']
        elif k == 'b2x':
            b = pick(h, rng, 'b')
            if b is not None:
                return [f'dv:{b}:{rng.choice(["end_cell", "end_cell", "to_cell", "to_slice"])}']
        elif k == 'load':
            t = g_load(h, rng)
            if t:
                return t
        elif k == 'lr':
            s = pick(h, rng, 's')
            if s is not None:
                return [f'{rng.choice(["lr", "lr", "lmr"])}:{s}']
        elif k == 'store':
            t = g_store(h, rng)
            if t:
                return t
        elif k == 'st':
            b, src = pick(h, rng, 'b'), pick(h, rng, 'c', 's', 'ub')
            if b is not None and src is not None:
                return [f'st:{b}:{src}']
        elif k == 'sr':
            b, c = pick(h, rng, 'b'), pick(h, rng, 'c')
            if b is not None and c is not None:
                kk = rng.choice(['sr', 'sr', 'smr', 'sd'])
                return [f'{kk}:{b}:{"-" if kk != "sr" and rng.random() < 0.25 else c}']
        elif k == 'bn':
            return [f'bn:{rng.choice("Bb")}']
        elif k == 'nb':
            return [f'nb:{bstr(small_bits(rng))}:{rng.choice("pt")}']
        elif k == 'nr':
            cs = [i for i, t in enumerate(tags) if t == 'c']
            return [f'nr:{ids_str([rng.choice(cs) for _ in range(rng.randrange(0, 5))] if cs else [])}']
        elif k == 'ct':
            ub, ur = pick(h, rng, 'ub'), pick(h, rng, 'ur')
            toks = []
            n = len(h.pool)
            if ub is None or rng.random() < 0.3:
                toks.append(f'nb:{bstr(small_bits(rng))}:{rng.choice("pt")}')
                ub = n
                n += 1
            if ur is None or rng.random() < 0.3:
                cs = [i for i, t in enumerate(tags) if t == 'c']
                toks.append(f'nr:{ids_str([rng.choice(cs) for _ in range(rng.randrange(0, 4))] if cs else [])}')
                ur = n
            return toks + [f'ct:{ub}:{ur}:-1']
        elif k == 'empty':
            return ['empty']
        elif k == 'ob':
            c = pick(h, rng, 'c')
            if c is not None:
                how = rng.choice(['hash', 'rh', 'rep', 'boc', 'boc', 'boc', 'order', 'order', 'order0', 'orderd'])
                if how == 'boc':
                    f1 = O.rand_boc_flags(rng)
                    return [f'ob:{c}:boc:{f1}:{O.rand_boc_flags(rng, exclude=f1)}']
                if how.startswith('order'):
                    return [f'ob:{c}:{how}:{pick(h, rng, "c")}']
                return [f'ob:{c}:{how}']
        elif k == 'fb':
            c = pick(h, rng, 'c')
            if c is not None and len(h.pool) < MAX_POOL - 12:
                return [f'fb:{c}:{O.rand_boc_flags(rng)}:{rng.choice("CCSB")}']
        elif k == 'comp':
            t = g_composite(h, rng)
            if t:
                return t
    return ['ob:0:hash'] if tags and tags[0] == 'c' else ['bn:B']


_K = [('c2s', 9), ('c2c', 3), ('c2b', 5), ('s2x', 6), ('b2x', 8), ('load', 16), ('lr', 7), ('store', 12), ('st', 7), ('sr', 7),
      ('bn', 2), ('nb', 2), ('nr', 1), ('ct', 3), ('empty', 1), ('ob', 8), ('fb', 3), ('comp', 6)]
KINDS = [k for k, _ in _K]
WEIGHTS = [w for _, w in _K]


# ----------------------------------------------------------------------------- model comparison

def check_model(ctx, hists):
    hs = [h for h in hists if h.mops]
    if not hs or not ctx.driver_ok:
        return
    outs = ctx.model.run(['heap ' + ';'.join(h.mops) for h in hs])
    for h, ans in zip(hs, outs):
        if not ans.startswith('ok '):
            ctx.corr_broken(f'heap driver rejected a history: {ans[:80]} ops={";".join(h.mops)[:400]}')
            continue
        parts = ans[3:].split('|')
        view = O.ModelView()
        k = 0
        for si, st in enumerate(h.steps):
            if h.cut is not None and si >= h.cut:
                break
            bad = None
            while k < st['end']:
                out = view.apply(parts[k])
                exp = h.exp[k]
                ok = (out != 'x') if exp is None else out == exp
                if not ok and bad is None:
                    bad = f'model op #{k} {h.mops[k][:60]}: model result {out[:70]} library {exp}'
                k += 1
            mism = O.compare(view, st['obs'])
            ctx.count('model-steps-compared')
            if bad or mism:
                ctx.count('model-mismatch')
                ctx.corr_broken(f'heap model != library at step {si} ({st["tok"][:60]}): {bad or ""} {[m[:2] for m in mism[:3]]} '
                                f'init={h.init} steps={h.toks[:max(0, si + 1 - len(h.init))]} ops={";".join(h.mops[:st["end"]])}')
                break


def history(ctx, rng):
    h = Hist(ctx)
    try:
        gen_init(h, rng)
        n = rng.randrange(6, 34)
        while len(h.toks) < n:
            for tok in gen(h, rng):
                do_step(h, tok)
        deep_check(h, 'end')
    except Stop:
        ctx.count('history-stopped')
    ctx.case(tuple(h.init + h.toks), nontrivial=h.nontrivial,
             sample={'init': h.init[:6], 'steps': [t[:40] for t in h.toks[:8]], 'model_ops': len(h.mops)})
    return h


def rerun(ctx, inp):
    h = Hist(ctx)
    h.exploit_first = inp.get('exploit_first')
    try:
        for tok in inp.get('init', []):
            do_step(h, tok, True)
        for tok in inp.get('steps', []):
            do_step(h, tok)
        deep_check(h, 'end')
    except Stop:
        pass
    check_model(ctx, [h])
    return h


# ----------------------------------------------------------------------------- deterministic probes

def _h(c):
    return c.hash.hex()


def probe_ctor_input(ctx):
    """F3a: Cell(bits, refs) must not touch the caller's bit array / list; hash = hash of the builder-made cell"""
    Cell, Slice, Builder, TvmBitarray, bitarray = _lib()
    from pytoniq_core import begin_cell
    child = begin_cell().store_uint(5, 3).end_cell()
    for n in (0, 1, 5, 7, 8, 9, 13, 16, 1023):
        for mk in ('bitarray', 'TvmBitarray'):
            bits = ('10110' * 205)[:n]
            ctx.case(('probe-ctor', n, mk))
            ba = bitarray(bits) if mk == 'bitarray' else TvmBitarray(1023, bitarray(bits))
            refs = [child] if n % 2 else []
            keep = list(refs)
            inp = {'probe': 'ctor-input', 'call': f"Cell({mk}('{bits[:40]}'{'...' if n > 40 else ''}), {'[child]' if refs else '[]'})", 'n': n}
            c = Cell(ba, refs)
            want = begin_cell().store_bits(bits)
            for r in keep:
                want.store_ref(r)
            want = want.end_cell()
            if ba.to01() != bits:
                ctx.fail('probe:ctor-bits-input-mutated', "the Cell constructor changed the caller's bit array", inp, ba.to01(), bits)
                continue
            if c.hash != want.hash:
                ctx.fail('probe:ctor-hash', 'Cell(bits, refs) has not the hash of begin_cell().store_bits(bits).end_cell()', inp, _h(c), _h(want))
            h0 = c.hash
            for name, f in (('hash', lambda: c.hash), ('to_boc', lambda: c.to_boc()), ('begin_parse', lambda: c.begin_parse().load_bits(n)),
                            ('copy', lambda: c.copy()), ('to_builder', lambda: c.to_builder().store_ref(child).store_bits('1' if n < 1023 else '')),
                            ('repr-hash', lambda: c.calculate_representation_hash()), ('slice-loads', lambda: c.to_slice().skip_bits(n))):
                try:
                    f()
                except Exception as e:
                    ctx.corr_broken(f'probe ctor-input: {name} raised {type(e).__name__} on {inp}')
                if ba.to01() != bits or type(ba).__name__ != mk:
                    ctx.fail('probe:ctor-bits-input-mutated', f"{name} on the cell changed the caller's bit array", dict(inp, then=name), ba.to01(), bits)
                    break
                if len(refs) != len(keep) or any(a is not b for a, b in zip(refs, keep)):
                    ctx.fail('probe:ctor-refs-input-mutated', f"{name} on the cell changed the caller's refs list", dict(inp, then=name), len(refs), len(keep))
                    break
                if c.hash != h0 or c.bits.to01() != bits:
                    ctx.fail('probe:cell-changed', f'{name} changed the cell', dict(inp, then=name), [_h(c), c.bits.to01()], [h0.hex(), bits])
                    break


def probe_order(ctx):
    """F4a: order() carries nothing from call to call"""
    from pytoniq_core import begin_cell
    ctx.case(('probe-order',))
    a0 = begin_cell().store_uint(1, 8).end_cell()
    a = begin_cell().store_uint(2, 8).store_ref(a0).end_cell()
    b0 = begin_cell().store_uint(3, 8).end_cell()
    b = begin_cell().store_uint(4, 8).store_ref(b0).store_ref(b0).end_cell()
    inp = {'probe': 'order', 'call': 'a.order(); b.order()'}
    ra = [_h(x) for x in a.order()]
    rb = [_h(x) for x in b.order()]
    if ra != [_h(a), _h(a0)] or rb != [_h(b), _h(b0)]:
        ctx.fail('probe:order-leaks-between-calls', 'a.order(); b.order(): the second result is not exactly the cells of b', inp, [ra, rb], [[_h(a), _h(a0)], [_h(b), _h(b0)]])
    if [_h(x) for x in b.order()] != [_h(x) for x in b.order({})]:
        ctx.fail('probe:order-leaks-between-calls', 'b.order() != b.order({})', inp, None, None)
    d = {}
    a.order(d)
    b.order(d)        # accumulating into the caller's dict is by design
    if [_h(x) for x in b.order()] != [_h(b), _h(b0)] or [_h(x) for x in a.order()] != [_h(a), _h(a0)]:
        ctx.fail('probe:order-leaks-between-calls', 'order() after order(users_dict) is polluted', inp, None, None)
    if a.to_boc() != a.copy().to_boc() or len(a.order()) != 2:
        ctx.fail('probe:order-leaks-between-calls', 'to_boc after order calls differs from a fresh copy', inp, None, None)


def probe_to_boc(ctx):
    """to_boc: every option set gives its own bytes, whatever was asked before, on equal cells, repeatedly"""
    Cell, Slice, Builder, TvmBitarray, bitarray = _lib()
    from pytoniq_core import begin_cell
    from pytoniq_core.boc.deserialize import Boc

    def mk():
        leaf = begin_cell().store_uint(0xabc, 12).end_cell()
        return begin_cell().store_uint(7, 5).store_ref(leaf).store_ref(begin_cell().store_ref(leaf).end_cell()).end_cell()

    x, y = mk(), mk()
    inp = {'probe': 'to_boc-options', 'call': 'to_boc under the 32 (has_idx, hash_crc32, has_cache_bits, flags) sets, ascending on one cell, descending on an equal cell, 3 times'}
    res = {}
    for rep in range(3):
        for cell, order in ((x, range(32)), (y, reversed(range(32)))):
            for f in order:
                ctx.case(('probe-boc', rep, f, cell is x))
                r = cell.to_boc(*O.boc_flags(f))
                was = res.setdefault(f, r)
                if was != r:
                    ctx.fail('probe:to_boc-options', f'to_boc{O.boc_flags(f)} gave different bytes on an equal cell / a later call', inp, r.hex(), was.hex())
                    return
                hd = Boc.deserialize_boc_header(r)
                got = (bool(hd['has_idx']), bool(hd['hash_crc32']), bool(hd['has_cache_bits']), (r[4] >> 3) & 3)
                if got != O.boc_flags(f):
                    ctx.fail('probe:to_boc-options', f'to_boc{O.boc_flags(f)} returned a BoC with options {got}: the result depends on an earlier call', inp, r.hex(), None)
                    return
                if Cell.one_from_boc(r).hash != x.hash:
                    ctx.fail('probe:to_boc-options', f'to_boc{O.boc_flags(f)} does not parse back to the cell', inp, r.hex(), None)
                    return
    if len({bytes(v) for v in res.values()}) != 32:
        ctx.fail('probe:to_boc-options', 'two different option sets gave the same bytes', inp, None, None)


def probe_hashmap(ctx):
    from pytoniq_core.boc.hashmap import HashMap
    from pytoniq_core import begin_cell
    ctx.case(('probe-hashmap',))
    v1 = begin_cell().store_uint(11, 8).store_ref(begin_cell().store_uint(1, 1).end_cell()).end_cell()
    v5 = begin_cell().store_uint(55, 8).end_cell()
    d = {5: v5, 1: v1, 200: v1}
    keep = list(d.items())
    inp = {'probe': 'hashmap', 'call': 'HashMap(8, map_={5:..,1:..,200:..}).serialize() twice; HashMap.parse(c.begin_parse(), 8) twice; load_dict'}
    hm = HashMap(8, map_=d)
    c1 = hm.serialize()
    c2 = hm.serialize()
    c3 = HashMap(8, map_=dict(keep)).serialize()
    if list(d.items()) != keep or any(a[1] is not b[1] for a, b in zip(d.items(), keep)):
        ctx.fail('probe:hashmap-serialize-input', "HashMap.serialize changed the caller's dict", inp, list(d), [k for k, _ in keep])
    if not (c1.hash == c2.hash == c3.hash):
        ctx.fail('probe:hashmap-serialize-repeat', 'HashMap.serialize twice / on an equal dict gives different cells', inp, [_h(c1), _h(c2), _h(c3)], None)
    before = O.snapshot(c1)
    vb = (O.snapshot(v1), O.snapshot(v5))
    r1 = O.canon(HashMap.parse(c1.begin_parse(), 8))
    r2 = O.canon(HashMap.parse(c1.begin_parse(), 8))
    s = c1.begin_parse()
    s_keep = s.copy()
    r3 = O.canon(HashMap.parse(s_keep, 8))
    if r1 != r2 or r1 != r3:
        ctx.fail('probe:hashmap-parse-repeat', 'HashMap.parse on fresh slices of the same cell gives different results', inp, r2, r1)
    if O.snapshot(s) != O.snapshot(c1.begin_parse()):
        ctx.fail('probe:hashmap-parse-isolation', 'parsing a copy of a slice changed the slice', inp, None, None)
    res = HashMap.parse(c1.begin_parse(), 8)
    if sorted(res) != [1, 5, 200] or res[5].load_uint(8) != 55 or res[1].load_uint(8) != 11:
        ctx.fail('probe:hashmap-parse-repeat', 'HashMap.parse does not return the stored values', inp, O.canon(res), None)
    res[1].load_ref()
    holder = begin_cell().store_dict(c1).store_uint(9, 4).end_cell()
    hb = O.snapshot(holder)
    l1 = O.canon(holder.begin_parse().load_dict(8))
    l2 = O.canon(holder.begin_parse().load_dict(8))
    if l1 != l2 or l1 != r1:
        ctx.fail('probe:hashmap-parse-repeat', 'load_dict twice gives different results (a consumed value slice of the first result shows in the second?)', inp, l2, l1)
    if O.snapshot(c1) != before or O.snapshot(holder) != hb or (O.snapshot(v1), O.snapshot(v5)) != vb:
        ctx.fail('probe:hashmap-parse-source', 'parsing changed the dictionary cell or a value cell', inp, O.snapshot(c1), before)


def _vm_inputs():
    Cell, Slice, Builder, TvmBitarray, bitarray = _lib()
    from pytoniq_core import begin_cell
    c = begin_cell().store_uint(0xfeed, 16).store_ref(begin_cell().store_uint(1, 2).end_cell()).end_cell()
    s = c.begin_parse()
    s.load_uint(4)
    s.load_ref()
    b = begin_cell().store_uint(3, 7).store_ref(c)
    return c, s, b


def probe_vmstack(ctx):
    from pytoniq_core.tlb.vm_stack import VmStack
    ctx.case(('probe-vmstack',))
    c, s, b = _vm_inputs()
    lst = [1, -5, 1 << 100, None, c, s, b]
    keep = list(lst)
    snaps = [O.snapshot(x) for x in (c, s, b)]
    off = s.ref_offset
    inp = {'probe': 'vmstack', 'call': 'VmStack.serialize([1, -5, 2**100, None, cell, partly consumed slice, builder]) twice; deserialize twice'}
    r1 = VmStack.serialize(lst)
    r2 = VmStack.serialize(lst)
    if len(lst) != len(keep) or any(x is not y for x, y in zip(lst, keep)):
        ctx.fail('probe:vmstack-serialize-input-list', "VmStack.serialize changed the caller's list", inp, len(lst), len(keep))
    if [O.snapshot(x) for x in (c, s, b)] != snaps or s.ref_offset != off:
        ctx.fail('probe:vmstack-serialize-input-objects', 'VmStack.serialize changed a cell / slice / builder in the list', inp,
                 [O.snapshot(x) for x in (c, s, b)], snaps)
    if r1.hash != r2.hash:
        ctx.fail('probe:vmstack-serialize-repeat', 'VmStack.serialize twice gives different cells', inp, _h(r2), _h(r1))
    before = O.snapshot(r1)
    d1 = O.canon(VmStack.deserialize(r1.begin_parse()))
    d2 = O.canon(VmStack.deserialize(r1.begin_parse()))
    if d1 != d2:
        ctx.fail('probe:tlb-deserialize-repeat', 'VmStack.deserialize twice on fresh slices gives different results', inp, d2, d1)
    back = VmStack.deserialize(r1.begin_parse())
    if back[:4] != [1, -5, 1 << 100, None] or back[4] is None or back[4].hash != c.hash:
        ctx.fail('probe:tlb-deserialize-repeat', 'VmStack.deserialize does not return the stored values', inp, O.canon(back), None)
    try:
        back[6].store_uint(1, 1)
        back[5].skip_bits(1)
    except Exception:
        pass
    if O.snapshot(r1) != before or [O.snapshot(x) for x in (c, s, b)] != snaps:
        ctx.fail('probe:tlb-deserialize-source', 'deserialising (and using the results) changed the source cell or the original values', inp, O.snapshot(r1), before)


def probe_vmtuple(ctx):
    """F20 (known): VmTuple.serialize pops the caller's tuple"""
    from pytoniq_core.tlb.vm_stack import VmStack, VmTuple
    ctx.case(('probe-vmtuple',))
    t = VmTuple([1, 2, 3])
    lst = [t]
    r1 = VmStack.serialize(lst)
    n1 = len(t.list)
    r2 = VmStack.serialize(lst)
    if n1 != 3 or t.list != [1, 2, 3] or r1.hash != r2.hash:
        ctx.fail('probe:vmtuple-serialize-empties-input', "VmStack.serialize([VmTuple([1,2,3])]) changes the caller's tuple; a second call gives a different cell",
                 {'probe': 'vmtuple', 'call': 'VmStack.serialize([VmTuple([1,2,3])]) twice'}, {'tuple_after': t.list, 'hashes': [_h(r1), _h(r2)]},
                 {'tuple_after': [1, 2, 3], 'hashes': 'equal'})


def probe_vmtuple_parse(ctx):
    """every VmStack.deserialize builds its own tuples: parsing stacks that hold tuples of length 0, 1, 2, 3, 5 (nested too),
    several times and interleaved, always gives the stored values, and a tuple handed out earlier never changes afterwards"""
    from pytoniq_core.tlb.vm_stack import VmStack, VmTuple
    ctx.case(('probe-vmtuple-parse',))

    def show(v):
        if isinstance(v, VmTuple):
            return [show(x) for x in v.list] if hasattr(v, 'list') else repr(v)
        if isinstance(v, (list, tuple)):
            return [show(x) for x in v]
        return v if isinstance(v, int) or v is None else O.canon(v)
    shapes = [[], [7], [7, 8], [1, 2, 3], [1, 2, 3, 4, 5], [[], [9]], [[4], [5, [6]]], [None], [[[]]]]

    def mk(x):
        return VmTuple([mk(y) for y in x]) if isinstance(x, list) else x
    stacks = [([mk(sh)], [sh]) for sh in shapes] + [([mk([1]), mk([2]), mk([])], [[1], [2], []])]
    cells = [(VmStack.serialize(vs), want) for vs, want in stacks]
    handed = []
    inp = {'probe': 'vmtuple-parse', 'call': 'VmStack.deserialize on stacks holding tuples of lengths 0,1,2,3,5 and nested ones, three rounds'}
    for rnd in range(3):
        order = list(range(len(cells)))
        if rnd == 1:
            order.reverse()
        for k in order:
            c, want = cells[k]
            got = VmStack.deserialize(c.begin_parse())
            if show(got) != want:
                ctx.fail('order-dependence:vmtuple-parse', 'VmStack.deserialize of a stack holding tuples gives another result after other tuple '
                         'stacks were parsed in this process', dict(inp, shape=want, round=rnd), show(got), want)
                return
            handed.append((got, want))
            for old, w in handed:
                if show(old) != w:
                    ctx.fail('aliasing:vmtuple-parse', 'a tuple returned by an earlier VmStack.deserialize changed when another stack was parsed',
                             dict(inp, shape=w, round=rnd), show(old), w)
                    return


def probe_after_failures(ctx):
    """a call that FAILS leaves nothing behind: after several hundred refused inputs each parser still returns, for a valid input,
    what it returned before (counters / guards / scratch buffers touched on the way to the exception are restored)"""
    from pytoniq_core import begin_cell
    from pytoniq_core.boc.cell import Cell
    from pytoniq_core.boc.hashmap.hashmap import HashMap
    from pytoniq_core.boc.address import Address
    from pytoniq_core.tlb.vm_stack import VmStack, VmTuple
    from pytoniq_core.tlb.account import StateInit
    from pytoniq_core.tl.generator import TlGenerator
    rng = ctx.rng
    ctx.case(('probe-after-failures',))
    leaf = begin_cell().store_uint(0xAB, 8).end_cell()
    good_stack = VmStack.serialize([1, VmTuple([2, VmTuple([3, leaf])]), None, leaf.begin_parse()])
    hm = HashMap(16).with_uint_values(8)
    for k in (1, 2, 300, 65535):
        hm.set_int_key(k, k % 251)
    good_dict = hm.serialize()
    good_boc = begin_cell().store_uint(7, 16).store_ref(leaf).store_ref(good_dict).end_cell().to_boc(True, True)
    si = StateInit(code=leaf, data=good_dict).serialize()
    schemas = TlGenerator.with_default_schemas().generate()
    good_tl = schemas.serialize(schemas.get_by_name('liteServer.getTime'), {}) if schemas.get_by_name('liteServer.getTime') else None
    good_addr = Address((0, bytes(range(32)))).to_str()

    def junk(n):
        return rng.randbytes(n)
    one = VmStack.serialize([VmTuple([5, VmTuple([6, 1 << 70])])])

    def bad_stack():
        """a stack whose failure happens INSIDE a value (truncated integer / unknown tag / cut tuple), at a random nesting level"""
        r = rng.random()
        if r < 0.4:
            c = VmStack.serialize([rng.getrandbits(40), VmTuple([1, VmTuple([2, 3])])])
            return Cell(c.bits[:len(c.bits) - rng.randrange(1, 40)], list(c.refs))
        if r < 0.7:
            return begin_cell().store_uint(1, 24).store_ref(begin_cell().end_cell()).store_uint(rng.choice([0xFF, 0x0A, 0x7F, 0x05]), 8).store_bytes(junk(8)).end_cell()
        return Cell(one.bits[:-3], [Cell(r_.bits[:max(0, len(r_.bits) - 5)], list(r_.refs)) for r_ in one.refs])
    parsers = [
        ('VmStack.deserialize', lambda: O.canon(VmStack.deserialize(good_stack.begin_parse())), lambda: VmStack.deserialize(bad_stack().begin_parse())),
        ('HashMap.parse', lambda: C09_show(HashMap.parse(good_dict.begin_parse(), 16)),
         lambda: HashMap.parse(begin_cell().store_bytes(junk(rng.randrange(1, 30))).store_ref(leaf).end_cell().begin_parse(), rng.choice([1, 8, 16, 300]))),
        ('Cell.one_from_boc', lambda: O.snapshot(Cell.one_from_boc(good_boc)),
         lambda: Cell.one_from_boc(good_boc[:rng.randrange(5, len(good_boc))] + junk(rng.randrange(0, 9)))),
        ('StateInit.deserialize', lambda: O.canon(StateInit.deserialize(si.begin_parse())),
         lambda: StateInit.deserialize(begin_cell().store_bytes(junk(rng.randrange(1, 20))).end_cell().begin_parse())),
        ('Address', lambda: Address(good_addr).to_str(False), lambda: Address(good_addr[:rng.randrange(1, 48)] + 'A')),
    ]
    if good_tl is not None:
        parsers.append(('TlSchemas.deserialize', lambda: repr(schemas.deserialize(good_tl)), lambda: schemas.deserialize(good_tl[:4] + junk(rng.randrange(0, 3)))))
    for name, good, bad in parsers:
        try:
            before = good()
        except Exception as e:
            ctx.corr_broken(f'probe after-failures: valid input of {name} raised {type(e).__name__}: {e}')
            continue
        failed = 0
        for _ in range(300):
            try:
                bad()
            except Exception:
                failed += 1
        ctx.count(f'after-failures:{name}', failed)
        try:
            after = good()
        except Exception as e:
            after = f'raised {type(e).__name__}: {e}'
        if after != before:
            ctx.fail('order-dependence:after-failures', f'{name} gives another result for the same valid input after {failed} refused inputs '
                     '(a failed call left state behind)', {'probe': 'after-failures', 'parser': name, 'failed_calls': failed}, _short_repr(after), _short_repr(before))


def C09_show(d):
    return sorted((k, O.canon(v)) for k, v in d.items())


def _short_repr(x):
    s = repr(x)
    return s if len(s) < 400 else s[:400] + '...'


def probe_tlb(ctx):
    from pytoniq_core.tlb.account import StateInit, TickTock
    from pytoniq_core import begin_cell
    ctx.case(('probe-tlb',))
    code = begin_cell().store_uint(0xc0de, 16).end_cell()
    data = begin_cell().store_uint(0xda7a, 16).store_ref(code).end_cell()
    si = StateInit(split_depth=3, special=TickTock(True, False), code=code, data=data)
    inp = {'probe': 'tlb', 'call': 'StateInit(...).serialize() twice; StateInit.deserialize(c.begin_parse()) twice'}
    c1, c2 = si.serialize(), si.serialize()
    if c1.hash != c2.hash or si.code is not code or si.data is not data:
        ctx.fail('probe:tlb-serialize-repeat', 'StateInit.serialize twice gives different cells / changes the object', inp, _h(c2), _h(c1))
    before = O.snapshot(c1)
    d1 = StateInit.deserialize(c1.begin_parse())
    d2 = StateInit.deserialize(c1.begin_parse())
    if O.canon(d1) != O.canon(d2) or d1.code.hash != code.hash or d1.data.hash != data.hash or d1.split_depth != 3:
        ctx.fail('probe:tlb-deserialize-repeat', 'StateInit.deserialize twice on fresh slices gives different results', inp, O.canon(d2), O.canon(d1))
    if d1.serialize().hash != c1.hash:
        ctx.fail('probe:tlb-deserialize-repeat', 'StateInit does not round-trip', inp, None, None)
    if O.snapshot(c1) != before or O.snapshot(code)[1] != _h(code):
        ctx.fail('probe:tlb-deserialize-source', 'deserialising changed the source cell', inp, O.snapshot(c1), before)


def probe_address(ctx):
    """values returned by load_address / preload_address are fresh snapshots: parsing the same account in another form
    (with an anycast prefix, with another prefix, without) neither changes results handed out before nor later results"""
    from pytoniq_core import begin_cell
    from pytoniq_core.boc.address import Address
    ctx.case(('probe-address',))
    rng = ctx.rng
    for trial in range(6):
        wc, hp = rng.choice([0, -1, 5]), rng.randbytes(32)
        plain = Address((wc, hp))
        forms = [None, (rng.randrange(1, 31), 0), (5, 3), (30, (1 << 30) - 1)]
        rng.shuffle(forms)
        cells = []
        for f in forms:
            a = Address((wc, hp))
            if f:
                a.set_anycast(f[0], f[1] % (1 << f[0]))
            cells.append((f and (f[0], f[1] % (1 << f[0])), begin_cell().store_address(a).store_uint(5, 3).end_cell()))
        inp = {'probe': 'address', 'wc': wc, 'hash': hp.hex(), 'forms': [list(f) if f else None for f, _ in cells]}

        def show(a):
            return (a.wc, a.hash_part.hex(), (a.anycast.depth, a.anycast.rewrite_pfx) if a.anycast is not None else None)
        handed = []
        for rnd in range(2):
            for f, c in cells:
                for how in ('load', 'preload'):
                    s_ = c.begin_parse()
                    a = s_.load_address() if how == 'load' else s_.preload_address()
                    want = (wc, hp.hex(), f)
                    if show(a) != want:
                        ctx.fail('order-dependence:address', f'{how}_address returns another value after the same account was parsed in another form',
                                 inp, show(a), want)
                        return
                    back = begin_cell().store_address(a).store_uint(5, 3).end_cell()
                    if back.hash != c.hash:
                        ctx.fail('order-dependence:address', 'store_address(load_address(cell)) no longer reproduces the cell', inp, _h(back), _h(c))
                        return
                    handed.append((a, want))
                    for old_a, old_want in handed:
                        if show(old_a) != old_want:
                            ctx.fail('aliasing:address', 'an Address returned by an earlier load_address changed when the same account was parsed again',
                                     inp, show(old_a), old_want)
                            return
        if show(plain) != (wc, hp.hex(), None):
            ctx.fail('aliasing:address', "the caller's own Address object was changed by parsing", inp, show(plain), (wc, hp.hex(), None))
            return


PROBES = {'address': probe_address, 'after-failures': probe_after_failures, 'vmtuple-parse': probe_vmtuple_parse, 'ctor-input': probe_ctor_input, 'order': probe_order, 'to_boc-options': probe_to_boc, 'hashmap': probe_hashmap,
          'vmstack': probe_vmstack, 'vmtuple': probe_vmtuple, 'tlb': probe_tlb}


def run_probe(ctx, name):
    try:
        PROBES[name](ctx)
        ctx.count('probe:' + name)
    except Exception as e:
        import traceback
        ctx.corr_broken(f'probe {name} raised {type(e).__name__}: {e}; {traceback.format_exc()[-300:]}')


# ----------------------------------------------------------------------------- history independence of results (value-level calls)

def rand_call(h, rng):
    """a call described by VALUE on one pool cell: -> (record, pool index) or None"""
    P, tags = h.pool.objs, h.pool.tags
    f = rng.choice(['hash', 'rhash', 'boc', 'boc', 'order', 'slice', 'slice', 'slice', 'builder', 'builder', 'vmser', 'special', 'special'])
    c = None
    rec = {}
    if f == 'special' and h.special:
        c = rng.choice(sorted(h.special))
        sp = h.special[c]
        rec = {'dict': {'f': 'hmparse', 'n': sp[-1]}, 'holder': {'f': 'ldict', 'n': sp[-1]}, 'vmstack': {'f': 'vmdes'},
               'stateinit': {'f': 'stateinit'}}[sp[0]]
    else:
        if f == 'special':
            f = 'slice'
        c = pick(h, rng, 'c')
        if c is None:
            return None
        rec = {'f': f}
        n = len(O.dag_of(P[c])[0])
        if f == 'boc':
            rec['flags'] = O.rand_boc_flags(rng)
        elif f == 'slice':
            ops = []
            for _ in range(rng.randrange(1, 6)):
                k = rng.choice(['lu', 'li', 'pu', 'lb', 'pb', 'lby', 'bit', 'sk', 'lr', 'pr', 'lmr', 'lc', 'lvu', 'la', 'lall', 'lsn'])
                ops.append(f'{k}:{rng.choice([1, 2, 3, 4, 8, 9, 16, 32])}' if k in ('lu', 'li', 'pu', 'lb', 'pb', 'sk', 'lvu') else
                           f'lby:{rng.randrange(0, 4)}' if k == 'lby' else k)
            rec['ops'] = ops
        elif f == 'builder':
            ops = []
            for _ in range(rng.randrange(1, 6)):
                r = rng.random()
                ops.append(S.rand_typed_tok(rng, n) if r < 0.7 else f'cell:{rng.randrange(n)}' if r < 0.85 else f'sl:{n - 1}:0:0')
            rec['ops'] = ops
        elif f == 'vmser':
            items = []
            for _ in range(rng.randrange(1, 4)):
                r = rng.random()
                items.append(['i', str(rng.choice([0, -1, 1 << 64, rng.getrandbits(90)]))] if r < 0.4 else ['n'] if r < 0.5 else
                             [rng.choice('cs' if P[c].type_ != -1 else 'csb'), n - 1])
            rec['items'] = items
    nodes, cells = O.dag_of(P[c])
    rec['dag'] = [[k, b, list(r)] for k, b, r in nodes]
    return rec, c, cells


def record_call(ctx, h, rng, records):
    rc = rand_call(h, rng)
    if rc is None:
        return
    rec, c, cells = rc
    got = O.apply_call(rec, cells)                  # on the history's own objects, after everything that happened
    ctx.count('valuecall:' + rec['f'])
    check_rebuilt(ctx, h, rec, c, got)
    records.append((rec, got, h.inp({'call': rec, 'obj': c})))


def check_rebuilt(ctx, h, rec, c, got):
    again = O.eval_call(rec)                        # on freshly rebuilt equal-valued arguments
    if again == 'unbuildable':
        ctx.count('valuecall:unbuildable')
        return
    if again != got:
        ctx.fail('order-dependence:' + rec['f'], f'the call {rec["f"]} on pool[{c}] at the end of this history gives another result than on a freshly '
                 'built equal-valued cell', h.inp({'call': rec, 'obj': c}), got, again)


def fresh_check(ctx, records, rng):
    if not records:
        return
    sample = rng.sample(records, min(300, len(records)))
    try:
        outs = O.fresh_eval([r[0] for r in sample])
    except Exception as e:
        ctx.corr_broken(f'fresh-interpreter evaluation failed: {e}')
        return
    for (rec, got, inp), out in zip(sample, outs):
        ctx.count('valuecall:fresh-compared')
        if out == 'unbuildable':
            continue
        if out != got:
            ctx.fail('order-dependence:' + rec['f'], f'the call {rec["f"]} gives another result in a fresh interpreter (evaluated once, other order) '
                     'than at the end of its history', inp, got, out)


SPEC['property_modules'] = list(SPEC.get('property_modules', [])) + ['C08Typed']

SRC_CELLS = ['cf:101:-:-1', 'cf:0110:0:-1', 'cf:-:0.1.0.1:-1', 'cf:' + '10' * 511 + '1:-:-1', 'cf:' + heapsrc.LIB_BITS + ':-:2']


# short histories around the bit-moving loads / stores (objects 0..4 = SRC_CELLS, then in creation order): the call, then writes through
# every slice / builder in reach and all cells / caller arrays observed again (frame check + alias exploit after every step)
SRC_BITS_HISTS = {
    'store_cell': [['bn:B', 'st:5:1', 'sr:5:0', 'sbs:5:1', 'ob:1:hash', 'ob:0:hash'], ['bn:B', 'st:5:2', 'ob:2:hash', 'sbs:5:1', 'ob:2:hash'],
                   ['bn:B', 'sbs:5:101', 'st:5:0', 'st:5:1', 'dv:5:end_cell', 'st:5:1', 'sr:5:0', 'ob:6:hash', 'ob:1:hash'],
                   ['bn:B', 'sr:5:0', 'st:5:2', 'ob:2:hash'], ['bn:B', 'st:5:3', 'sbs:5:1', 'ob:3:hash'],
                   ['bn:B', 'st:5:3', 'st:5:1', 'dv:5:end_cell', 'ob:6:hash'], ['bn:B', 'st:5:3', 'st:5:2', 'st:5:1', 'dv:5:end_cell']],
    'store_slice': [['dv:1:begin_parse', 'bn:B', 'st:6:5', 'sbs:6:1', 'sr:6:0', 'sk:5:1', 'ob:1:hash', 'dv:6:end_cell'],
                    ['dv:2:begin_parse', 'lr:5', 'bn:B', 'st:6:5', 'sr:6:1', 'lr:5', 'ob:2:hash', 'dv:5:to_cell', 'dv:6:end_cell'],
                    ['dv:2:begin_parse', 'bn:B', 'sr:6:0', 'st:6:5', 'ob:2:hash']],
    'store_bits': [['bn:B', 'sbs:5:10101', 'nb:0110:t', 'st:5:6', 'sbs:5:1', 'ob:0:hash', 'dv:5:end_cell'],
                   ['bn:B', 'nb:0110:p', 'st:5:6', 'st:5:6', 'sbs:5:1', 'dv:5:end_cell'], ['bn:B', 'st:5:0', 'sbs:5:11', 'ob:0:hash']],
    'store_uint': [['bn:B', 'su:5:5:3', 'su:5:0:1', 'dv:5:end_cell', 'su:5:1:1', 'ob:6:hash'], ['bn:B', 'st:5:0', 'su:5:3:2', 'ob:0:hash']],
    'load_bits': [['dv:1:begin_parse', 'lb:5:2', 'sk:5:1', 'lb:5:1', 'ob:1:hash'], ['dv:0:begin_parse', 'lb:5:3', 'lb:5:1', 'ob:0:hash'],
                  ['dv:1:begin_parse', 'lb:5:0', 'sk:5:2', 'dv:5:to_cell']],
    'preload_bits': [['dv:1:begin_parse', 'pb:5:2', 'sk:5:1', 'pb:5:1', 'sk:5:1', 'ob:1:hash'], ['dv:1:begin_parse', 'lb:5:2', 'sk:5:1', 'ob:1:hash']],
    'skip_bits': [['dv:1:begin_parse', 'sk:5:1', 'sk:5:2', 'sk:5:5', 'ob:1:hash', 'dv:5:to_cell'], ['dv:0:begin_parse', 'sk:5:3', 'sk:5:1']],
    'load_uint': [['dv:1:begin_parse', 'lu:5:2', 'lu:5:1', 'lu:5:5', 'ob:1:hash', 'dv:5:to_cell'], ['dv:0:begin_parse', 'lu:5:3', 'lu:5:1']],
    'preload_uint': [['dv:1:begin_parse', 'lu:5:2', 'lu:5:1', 'ob:1:hash', 'dv:5:to_cell']],
    # Cell.get_data_bytes (the constructor's helper): cells built from the caller's own plain / Tvm arrays, then observed
    '__init__': [['nb:10110:p', 'nr:-', 'ct:5:6:-1', 'ob:7:hash'], ['nb:1:t', 'nr:0.1', 'ct:5:6:-1', 'ct:5:6:-1', 'ob:7:hash', 'dv:7:begin_parse', 'lr:9', 'ob:8:hash'],
                 ['nb:10110101:p', 'nr:0', 'ct:5:6:-1', 'dv:7:to_builder', 'sr:8:1', 'ob:7:hash']],
    'get_data_bytes': [['nb:10110:p', 'nr:-', 'ct:5:6:-1', 'ob:7:hash'], ['nb:1:t', 'nr:0', 'ct:5:6:-1', 'ct:5:6:-1', 'ob:7:hash', 'dv:7:begin_parse'],
                       ['nb:10110101:p', 'nr:-', 'ct:5:6:-1']],
}


def src_search(ctx):
    """the proof that a regenerated copy / derive method equals the model step broke: Lean evaluates regenerated method vs model on the
    pool heap; for every differing (receiver kind, method) a short history is run through the full oracle (frame check + alias exploit:
    if the new object shares a container with its source, a library mutation through one of them shows up in the other)"""
    seen = set()
    for case in heapsrc.diff_cases(ctx):
        recv, cls, m = case[:3]
        if len(case) == 4:
            # a regenerated LOAD / STORE differs from the model transition: short histories around that call through the full oracle
            # (alias-graph correspondence after every step, frame check of all cells, alias exploit), then the derived objects observed
            if m in seen:
                continue
            seen.add(m)
            hists = ([['bn:B', 'sr:5:0', 'sr:5:2', 'dv:5:end_cell', 'sr:5:1', 'ob:6:hash', 'ob:2:hash'],
                      ['bn:B', 'sr:5:2', 'sr:5:2', 'sr:5:2', 'sr:5:2', 'sr:5:2', 'dv:5:end_cell', 'ob:2:hash']] if m == 'store_ref' else
                     [['dv:2:begin_parse', 'lr:5', 'lr:5', 'dv:5:to_cell', 'ob:1:hash', 'ob:2:hash', 'ob:0:hash'],
                      ['dv:1:begin_parse', 'lr:5', 'lr:5', 'ob:1:hash', 'ob:0:hash']] if m == 'load_ref' else SRC_BITS_HISTS.get(m, []))
            for steps in hists:
                try:
                    rerun(ctx, {'init': SRC_CELLS, 'steps': steps})
                except (ValueError, IndexError, KeyError) as e:
                    ctx.notes.append(f'src_search: history {steps} not runnable: {type(e).__name__}: {e}')
                ctx.case(('src-search', tuple(steps)))
                if ctx.failures:
                    return
            continue
        tag = heapsrc.POOL_TAGS[recv]
        if (tag, m) in seen:
            continue
        seen.add((tag, m))
        hists = []
        if tag == 'c':
            hists = [[f'dv:{i}:{m}'] for i in (1, 2, 0, 4)]
        elif tag == 's':
            hists = [['dv:1:begin_parse', 'sk:5:1', 'lr:5', f'dv:5:{m}'], ['dv:2:begin_parse', f'dv:5:{m}'], ['dv:4:begin_parse', f'dv:5:{m}']]
        else:
            hists = [['bn:B', 'sbs:5:10101', 'sr:5:0', f'dv:5:{m}'], ['bn:B', f'dv:5:{m}']]
        for steps in hists:
            # after the derived object exists: write through every slice / builder in reach, then look at all cells again
            more = []
            if DV_HOW.get(m) == 's' or (DV_HOW.get(m) is None and tag == 's'):
                more = [f'sk:{6 if tag != "c" else 5}:1']
            elif DV_HOW.get(m) == 'b':
                more = [f'sbs:{6 if tag != "c" else 5}:1', f'sr:{6 if tag != "c" else 5}:0']
            if tag == 'b':
                more += ['sbs:5:11', 'sr:5:1']
            if tag == 's' and DV_HOW.get(m) != 's':
                more += ['sk:5:1']
            try:
                # (1) the derived object alone: it must be a snapshot of the receiver's VALUE (remaining bits, remaining references)
                h = rerun(ctx, {'init': SRC_CELLS, 'steps': steps})
                src = int(steps[-1].split(':')[1])
                if not ctx.failures and len(h.pool.objs) == src + 2:
                    a, b = h.pool.objs[src], h.pool.objs[src + 1]

                    def value(o):
                        bits = o._bits if O.tag_of(o) == 'b' else o.bits
                        refs = o._refs if O.tag_of(o) == 'b' else o.refs
                        return bits.to01(), [id(c) for c in refs[getattr(o, 'ref_offset', 0):]]
                    if value(a) != value(b):
                        ctx.fail(f'snapshot-value:{tag}.{m}', f'the object returned by {m}() does not hold the remaining bits / references of its source',
                                 {'init': SRC_CELLS, 'steps': steps, 'check': 'snapshot-value'}, str(value(b))[:200], str(value(a))[:200])
                        return
                # (2) then writes through every slice / builder in reach, and all cells observed again
                rerun(ctx, {'init': SRC_CELLS, 'steps': steps + more + ['ob:1:hash', 'ob:2:hash']})
            except (ValueError, IndexError, KeyError) as e:
                ctx.notes.append(f'src_search: history {steps} not runnable: {type(e).__name__}: {e}')
            ctx.case(('src-search', tuple(steps)))
            if ctx.failures:
                return


def run(ctx):
    rng = ctx.rng
    if ctx.search:
        src_search(ctx)
        if ctx.failures:
            return
    for name in PROBES:
        run_probe(ctx, name)
    batch = []
    records = []
    for t in range(ctx.n(2000, 20000)):
        h = history(ctx, rng)
        batch.append(h)
        if h.cut is None and not h.reported and rng.random() < 0.6:
            record_call(ctx, h, rng, records)
        if len(batch) >= 200:
            check_model(ctx, batch)
            batch = []
    check_model(ctx, batch)
    fresh_check(ctx, records, rng)


def replay(ctx, payload):
    inp = payload.get('input') or {}
    if not isinstance(inp, dict):
        return
    if 'probe' in inp:
        name = inp['probe']
        for k in PROBES:
            if name == k or name.startswith(k):
                run_probe(ctx, k)
        return
    if inp.get('check') == 'snapshot-value':
        h = rerun(ctx, inp)
        src = int(inp['steps'][-1].split(':')[1])
        if len(h.pool.objs) == src + 2:
            a, b = h.pool.objs[src], h.pool.objs[src + 1]

            def value(o):
                bits = o._bits if O.tag_of(o) == 'b' else o.bits
                refs = o._refs if O.tag_of(o) == 'b' else o.refs
                return bits.to01(), [id(c) for c in refs[getattr(o, 'ref_offset', 0):]]
            if value(a) != value(b):
                ctx.fail('snapshot-value:' + inp['steps'][-1], 'the derived object does not hold the remaining bits / references of its source', inp)
        return
    if 'steps' in inp or 'init' in inp:
        h = rerun(ctx, inp)
        ctx.case(('replay', tuple(inp.get('init', [])), tuple(inp.get('steps', []))))
        if 'call' in inp and h.cut is None and 0 <= inp.get('obj', -1) < len(h.pool) and h.pool.tags[inp['obj']] == 'c':
            rec = inp['call']
            got = O.apply_call(rec, O.dag_of(h.pool.objs[inp['obj']])[1])
            check_rebuilt(ctx, h, rec, inp['obj'], got)
            try:
                out = O.fresh_eval([rec])[0]
            except Exception as e:
                ctx.corr_broken(f'fresh-interpreter evaluation failed: {e}')
                return
            if out not in ('unbuildable', got):
                ctx.fail('order-dependence:' + rec['f'], 'the call gives another result in a fresh interpreter than at the end of its history (replay)',
                         inp, got, out)


# ----------------------------------------------------------------------------- appended by strengthener st-nfif (round 10)
# Class "foreign encodings of vm_stk_slice with every legal window": _ cell:^Cell st_bits:(## 10) end_bits:(## 10) {st_bits <= end_bits}
# st_ref:(#<= 4) end_ref:(#<= 4) {st_ref <= end_ref} = VmCellSlice.  The library's own serialiser always writes the full window of a
# re-packed cell (0, bits, 0, refs); a TVM / another encoder writes any window of the ORIGINAL cell.  The stacks below are written by
# the harness's own encoder (primitive stores only) for EVERY reference window 0 <= st_ref <= end_ref <= refs of cells with 0..4
# references and several bit windows, as a plain stack value, twice in one stack (two windows of one cell), as the code of a vmc_std
# continuation and inside a tuple; they are put into a bag, the bag is parsed, the stack is parsed (twice), the returned slices are
# used up - and every cell of the bag (the windowed cell first of all) is observed before and after: identity and hashes of its
# references, data bits, hash, to_boc; the bag of the root must still be what it was and decodable.

def _vmw_target(rng, nb, nrefs):
    """-> (cell, bit string, [child cells]); the children have references of their own"""
    from pytoniq_core import begin_cell
    leaf = begin_cell().store_uint(rng.randrange(1 << 16), 16).end_cell()
    kids = []
    for k in range(nrefs):
        b = begin_cell().store_uint(0xC0DE00 + k, 24).store_uint(rng.randrange(1 << 8), 8)
        for _ in range(k % 3):
            b.store_ref(leaf)
        kids.append(b.end_cell())
    bits = G.rand_bits(rng, nb)
    b = begin_cell().store_bits(bits)
    for c in kids:
        b.store_ref(c)
    return b.end_cell(), bits, kids


def _vmw_cellslice(b, cell, w):
    st_bits, end_bits, st_ref, end_ref = w
    return b.store_ref(cell).store_uint(st_bits, 10).store_uint(end_bits, 10).store_uint(st_ref, 3).store_uint(end_ref, 3)


def _vmw_value(b, val):
    """append one VmStackValue to builder b (harness encoder)"""
    from pytoniq_core import begin_cell
    kind = val[0]
    if kind == 'int':
        b.store_uint(1, 8).store_int(val[1], 64)
    elif kind == 'slice':
        _vmw_cellslice(b.store_uint(4, 8), val[1], val[2])
    elif kind == 'cont':        # vm_stk_cont#06 vmc_std$00 cdata:(no nargs, no stack, empty save list, no cp) code:VmCellSlice
        _vmw_cellslice(b.store_uint(6, 8).store_bits('00').store_bits('0000'), val[1], val[2])
    elif kind == 'tuple1':      # vm_stk_tuple#07 len 1: head = vm_tupref_nil, tail:^VmStackValue
        inner = _vmw_cellslice(begin_cell().store_uint(4, 8), val[1], val[2]).end_cell()
        b.store_uint(7, 8).store_uint(1, 16).store_ref(inner)
    return b


def _vmw_stack(vals):
    from pytoniq_core import begin_cell
    cur = begin_cell().end_cell()
    for v in vals[:-1]:
        cur = _vmw_value(begin_cell().store_ref(cur), v).end_cell()
    return _vmw_value(begin_cell().store_uint(len(vals), 24).store_ref(cur), vals[-1]).end_cell()


def _vmw_all_cells(root):
    seen, out, stack = set(), [], [root]
    while stack:
        c = stack.pop()
        if id(c) in seen:
            continue
        seen.add(id(c))
        out.append(c)
        stack.extend(c.refs)
    return out


def _vmw_slice_value(x):
    if O.tag_of(x) == 's':
        return x
    code = getattr(x, 'code', None)                       # VmCont
    if code is not None:
        return code
    lst = getattr(x, 'list', None)                        # VmTuple
    if lst:
        return lst[0]
    return None


def vmslice_case(ctx, shape, nb, nrefs, windows, seed):
    """shape: 'slice' | 'two' | 'cont' | 'tuple1'; windows: one window (two for 'two') of a cell with nb bits and nrefs references"""
    import random
    from pytoniq_core.boc.cell import Cell
    from pytoniq_core.tlb.vm_stack import VmStack
    rng = random.Random(seed)
    T0, bits, kids = _vmw_target(rng, nb, nrefs)
    if shape == 'two':
        vals = [('int', 7), ('slice', T0, tuple(windows[0])), ('slice', T0, tuple(windows[1]))]
    else:
        vals = [('int', -3), (shape if shape != 'slice' else 'slice', T0, tuple(windows[0]))]
    inp = {'vmslice': {'shape': shape, 'nb': nb, 'nrefs': nrefs, 'windows': [list(w) for w in windows], 'seed': seed},
           'call': 'VmStack.deserialize(root.begin_parse()) of a stack written by a foreign encoder; root = Cell.one_from_boc(bag)'}
    ctx.case(('vmslice-window', shape, nb, nrefs, tuple(map(tuple, windows))))
    ctx.count('vmslice-window:' + shape)
    for w in windows:
        ctx.count('vmslice-window:end_ref%s' % ('<refs' if w[3] < nrefs else '=refs'))
    bag = _vmw_stack(vals).to_boc()
    root = Cell.one_from_boc(bag)
    cells = _vmw_all_cells(root)
    T = next(c for c in cells if c.hash == T0.hash)

    def observe():
        return [(O.snapshot(c), tuple(id(r) for r in c.refs)) for c in cells]
    before = observe()
    kid_hashes = [k.hash.hex() for k in kids]

    def judge(stage):
        now = observe()
        if now != before:
            ti = next(i for i, c in enumerate(cells) if c is T)
            k = ti if now[ti] != before[ti] else next(i for i in range(len(cells)) if now[i] != before[i])
            which = 'the cell the slice value is a window of' if cells[k] is T else 'the stack root' if cells[k] is root else 'a cell of the bag'
            ctx.fail('aliasing:vmslice-window', f'{stage}: {which} changed (references / hash / to_boc)', inp, str(now[k])[:600], str(before[k])[:600])
            return False
        try:
            again = root.to_boc()
            ok = again == bag and Cell.one_from_boc(again).hash == root.hash
        except Exception as e:
            again, ok = f'{type(e).__name__}: {e}', False
        if not ok:
            ctx.fail('aliasing:vmslice-window', f'{stage}: the bag of the stack root is no longer the bag it was parsed from / not decodable', inp,
                     again.hex()[:300] if isinstance(again, bytes) else again, bag.hex()[:300])
            return False
        return True

    for rnd in (1, 2):
        try:
            got = VmStack.deserialize(root.begin_parse())
        except Exception as e:
            ctx.fail('raise:vmslice-window', f'parse #{rnd}: VmStack.deserialize raised on a well-formed stack with a legal slice window', inp, f'{type(e).__name__}: {e}', 'values')
            return
        svals = [_vmw_slice_value(x) for x in got[1:]]
        for sv, w in zip(svals, windows):
            want = (bits[w[0]:w[1]], kid_hashes[w[2]:w[3]])
            have = None if sv is None else (sv.bits.to01(), [r.hash.hex() for r in sv.refs[sv.ref_offset:]])
            if have is None or have[0] != want[0] or have[1] != want[1]:
                ctx.fail('value:vmslice-window', f'parse #{rnd}: the slice value is not the window [{w[0]}:{w[1]}] bits, [{w[2]}:{w[3]}] references of its cell', inp,
                         str(have)[:400], str(want)[:400])
                return
        if not judge(f'after parse #{rnd}'):
            return
        # use the results up: load every reference, skip every bit, turn them into cells / builders
        for sv in svals:
            try:
                sv.to_cell()
                while sv.remaining_refs:
                    sv.load_ref()
                sv.skip_bits(sv.remaining_bits)
                sv.to_builder()
            except Exception:
                pass
        if not judge(f'after parse #{rnd} and use of the returned slices'):
            return


def probe_vmslice_windows(ctx):
    rng = ctx.rng
    state = rng.getstate()          # every choice below derives from ctx.rng; the streams that follow keep their own draws
    try:
        _probe_vmslice_windows(ctx, rng)
    finally:
        rng.setstate(state)


def _probe_vmslice_windows(ctx, rng):
    n = 0
    for nrefs in range(0, 5):
        for st_ref in range(0, nrefs + 1):
            for end_ref in range(st_ref, nrefs + 1):
                nb = rng.choice([0, 1, 7, 48, rng.randrange(2, 200), 1023])
                a, b_ = sorted((rng.randrange(nb + 1), rng.randrange(nb + 1)))
                bitw = [(0, nb), rng.choice([(0, 0), (nb, nb), (a, b_), (min(1, nb), max(min(1, nb), nb - 1))])]
                for k, (sb, eb) in enumerate(bitw):
                    shape = ('slice', 'cont', 'tuple1')[(n + k) % 3] if k else 'slice'
                    vmslice_case(ctx, shape, nb, nrefs, [(sb, eb, st_ref, end_ref)], rng.randrange(1 << 30))
                # two windows of the same cell in one stack: this one and another legal one
                s2 = rng.randrange(0, nrefs + 1)
                e2 = rng.randrange(s2, nrefs + 1)
                vmslice_case(ctx, 'two', nb, nrefs, [(bitw[1][0], bitw[1][1], st_ref, end_ref), (0, nb, s2, e2)], rng.randrange(1 << 30))
                n += 1
                if ctx.failures:
                    return


PROBES['vmslice-windows'] = probe_vmslice_windows
_replay_before_vmw = replay


def replay(ctx, payload):
    inp = payload.get('input') or {}
    if isinstance(inp, dict) and isinstance(inp.get('vmslice'), dict):
        d = inp['vmslice']
        vmslice_case(ctx, d['shape'], int(d['nb']), int(d['nrefs']), [tuple(w) for w in d['windows']], d['seed'])
        return
    _replay_before_vmw(ctx, payload)


_run_before_vmw = run


def run(ctx):
    if ctx.search:
        # a broken obligation about the copy / derive glue: the composite parsers that cut windows out of a cell go first
        run_probe(ctx, 'vmslice-windows')
        if ctx.failures:
            return
    _run_before_vmw(ctx)
SPEC['manifest']['text'] += (' FOREIGN SLICE WINDOWS (library-only probe, every run): VmStack encodings written by the harness holding vm_stk_slice / vmc_std code / '
                             'tuple entries for every reference window 0 <= st_ref <= end_ref <= refs of cells with 0..4 references and several bit windows '
                             '(the library\'s own serialiser only writes full windows of re-packed cells); bag parsed, stack parsed twice, results checked '
                             'against the window and used up, every cell of the bag observed before and after (hash, bits, reference hashes and identities, to_boc).')
