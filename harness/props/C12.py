"""C12: check_block_signatures accepts exactly the signature sets with a genuine > 2/3 validator supermajority.

Tie = hand model (Model/Sig.lean, theorems in Properties/C12.lean for ALL lists) + differential correspondence:
every scenario is run through the library (real Ed25519 via the repo's wrapper), through the compiled model
(SHA-256 executable, `verify` = table of results computed here with PyNaCl directly) and against the
expectation known BY CONSTRUCTION of the scenario (plus an order-free Python transcription of the statement).
"""
import hashlib

from nacl.signing import SigningKey, VerifyKey

from ..translate import arith2, sigfull

ID_MAGIC = bytes.fromhex('c6b41348')      # pub.ed25519
SIGN_MAGIC = bytes.fromhex('706e0bc5')    # ton.blockId (c50b6e70 little endian)

SPEC = dict(
    manifest=dict(
        category='proof',
        text='Lean proves, for EVERY validator list, signature list (any length, order, multiset) and block id, with SHA-256 and Ed25519 '
             'verification as arbitrary functions, that the model of check_block_signatures returns iff every entry names a validator of '
             'the set whose key verifies it over 706e0bc5||root_hash||file_hash, the signer ids are pairwise distinct and 3*signed > 2*total '
             '(c12_accept_iff; for sets with distinct node ids the weight is shown to be the combined weight of the DISTINCT members who signed, '
             'c12_accept_iff_members); separate corollaries give rejection of invalid / unknown / duplicated signers, of the empty set and of exactly '
             '2/3, acceptance of every list meeting the condition, and order independence. The model is tied to the code by differential '
             'correspondence on real Ed25519 scenarios (sets of 1..100, weights 1/equal/skewed/2^63, thresholds at 2/3 +-1 unit, all fault kinds). '
             'In addition the four decision lines of the source are re-translated from check_proof.py on every run (Generated/SigCheck.lean): the '
             'acceptance test `signed_weight * 3 > total_weight * 2` is proved equal to the strict two-thirds test for ALL weights (c12_src_threshold), '
             'the three `if ...: raise` of the signature loop are proved to fire exactly on an unknown id / an id seen before / a failed verification '
             '(c12_src_loop_tests), and the hand model is proved to decide with exactly these lines in the order of the code (c12_src_model). '
             'Beyond the single lines, the WHOLE functions check_block_signatures and calculate_node_id_short are re-translated from the source '
             'on every run (Generated/SigFull.lean, translator pyfunc.py: both loops, the dictionary, the set, the three raise, the weight sums, '
             'the threshold) and Lean proves for ALL inputs that the regenerated function returns exactly when the hand model is true '
             '(c12_src_function); c12_src_accept_iff / _accept_iff_members / _rejects / _accept_all_valid restate the property for the '
             'regenerated function itself.',
        level_note='Trusted: Lean kernel (propext, Classical.choice, Quot.sound); the translator harness/translate/pyfunc.py (+ pyobj.py, '
                   'pybytes.py, pyarith.py) and the declared reading of the arguments in harness/translate/sigfull.py (ValidatorDescr = '
                   '.weight natural + .public_key.pubkey, a signature entry = bytes.fromhex(node_id_short) + signature, a dict = association '
                   'list with last write winning, a set = list), validated against the running library on ~190 Ed25519 scenarios whenever the '
                   'source or the translator changes; Model/Sig.lean is no longer trusted as a transcription (it is proved equal to the '
                   'regenerated function) but stays the object of the sampled correspondence (~3100 scenarios quick / ~15000 thorough), which '
                   'also decides when the source leaves the translatable subset (tie lost); PyNaCl Ed25519 and '
                   'hashlib (the theorems treat verify and SHA-256 as parameters: unforgeability is NOT proved, only that the decision logic '
                   'consults verify with the right key and payload); the Python harness. Validator lists with a repeated key are outside the '
                   'property domain (the reference node refuses such sets); the theorems still cover them (last entry is credited, every entry '
                   'counts in the total) and the harness checks the library against that.',
        technique='Lean 4 proof (induction over the signature list) about a function regenerated from the source on every run '
                  '(proved equal to the hand model for all inputs) + differential correspondence with the library',
    ),
    translators=[('check_proof.py check_block_signatures tests->Generated/SigCheck.lean', arith2.regenerator('SigCheck')),
                 ('check_proof.py check_block_signatures (whole function)->Generated/SigFull.lean', sigfull.regenerate)],
    design_ref='DESIGN.md §6 C12',
    rule='scenario = (validator list with real Ed25519 keys, weights mode, block id, signer subset chosen at/around the 2/3 threshold, one fault kind, '
         'order); fault kinds: none, bit-flipped signature, signature over another block / without magic, foreign signer, foreign signature under a '
         "member's id, repeated entry, insufficient weight padded with repeats, wrong-length signature, empty set, repeated key in the set; "
         'distinct = distinct (keys, weights, signatures, order); non-trivial = at least one validator and one signature',
    trusted_base=['harness/translate/pyfunc.py + sigfull.py: check_block_signatures / calculate_node_id_short regenerated as Lean functions '
                  '(declared reading of ValidatorDescr / signature dict / BlockIdExt / dict / set); Model/Sig.lean is proved equal to them',
                  'verify (Ed25519) and H (SHA-256) are parameters of every theorem; driver: H = executable SHA-256, verify = table computed with PyNaCl',
                  'PyNaCl (libsodium) Ed25519, hashlib.sha256',
                  'harness/translate/pyarith.py + arith.py/arith2.py (Python comparisons -> Lean) for the c12_src_* theorems'],
    assumptions=['Ed25519 is unforgeable (only used to interpret "verify = true" as "the validator signed"; not needed by any theorem)',
                 'ValidatorDescr.weight is a non-negative int (uint64 in the TL-B scheme)',
                 'correspondence is sampled differential testing of model vs library'],
)


# --------------------------------------------------------------------------- independent primitives

def node_id(key: bytes) -> bytes:
    return hashlib.sha256(ID_MAGIC + key).digest()


def raw_verify(key: bytes, msg: bytes, sig: bytes) -> bool:
    try:
        VerifyKey(key).verify(msg, sig)
        return True
    except Exception:
        return False


def spec_accept(nodes, sigs, payload):
    """order-free transcription of the property statement (nodes: [(key, weight)], sigs: [(id, sig)])."""
    if not nodes:
        return False
    by_id = {}
    for k, w in nodes:
        by_id[node_id(k)] = (k, w)          # a repeated key: last entry (documented degenerate case)
    ids = [i for i, _ in sigs]
    if len(set(ids)) != len(ids):
        return False
    signed = 0
    for i, s in sigs:
        if i not in by_id:
            return False
        k, w = by_id[i]
        if not raw_verify(k, payload, s):
            return False
        signed += w
    return 3 * signed > 2 * sum(w for _, w in nodes)


# --------------------------------------------------------------------------- library / model calls

def lib_accept(sc):
    from pytoniq_core.proof.check_proof import check_block_signatures
    from pytoniq_core.tlb.config import ValidatorDescr, SigPubKey
    from pytoniq_core.tl.block import BlockIdExt
    nodes = [ValidatorDescr(type_='validator', public_key=SigPubKey(k), weight=w) for k, w in sc['nodes']]
    sigs = [{'node_id_short': i.hex(), 'signature': s} for i, s in sc['sigs']]
    for j, style in (sc.get('id_spelling') or {}).items():  # another spelling of the SAME id (bytes.fromhex ignores case / spaces)
        sigs[int(j)]['node_id_short'] = spell(sigs[int(j)]['node_id_short'], style)
    for j, txt in (sc.get('id_text') or {}).items():      # a node_id_short that is not the hex of any bytes (bytes.fromhex raises)
        sigs[int(j)]['node_id_short'] = txt
    blk = BlockIdExt(sc['wc'], sc['shard'], sc['seqno'], sc['root'], sc['file'])
    try:
        r = check_block_signatures(nodes, sigs, blk)
    except Exception:
        return False
    return r is None or bool(r)


def spell(h, style):
    """a different textual spelling of the same bytes, as accepted by bytes.fromhex"""
    if style == 'upper':
        return h.upper()
    if style == 'spaced':
        return ' '.join(h[i:i + 2] for i in range(0, len(h), 2))
    if style == 'mixed':
        return ''.join(c.upper() if i % 3 == 0 else c for i, c in enumerate(h))
    return h


def hx(b):
    return b.hex() or '-'


def model_line(sc, payload):
    keys_by_id = {}
    for k, _ in sc['nodes']:
        keys_by_id.setdefault(node_id(k), set()).add(k)
    table = set()
    for i, s in sc['sigs']:
        for k in keys_by_id.get(i, ()):
            if raw_verify(k, payload, s):
                table.add((k, s))
    nodes = ','.join(f'{k.hex()}:{w}' for k, w in sc['nodes']) or '-'
    sigs = ','.join(f'{hx(i)}:{hx(s)}' for i, s in sc['sigs']) or '-'
    tab = ','.join(f'{k.hex()}:{hx(s)}' for k, s in sorted(table)) or '-'
    return f'sigcheck {nodes} {sigs} {hx(sc["root"])} {hx(sc["file"])} {hx(payload)} {tab}'


def to_json(sc):
    return {'kind': sc['kind'], 'expect': sc['expect'], 'why': sc.get('why', ''), 'id_text': sc.get('id_text') or {},
            'id_spelling': sc.get('id_spelling') or {},
            'nodes': [[k.hex(), str(w)] for k, w in sc['nodes']],
            'sigs': [[i.hex(), s.hex()] for i, s in sc['sigs']],
            'wc': sc['wc'], 'shard': str(sc['shard']), 'seqno': sc['seqno'], 'root': sc['root'].hex(), 'file': sc['file'].hex(),
            **({'first_block': [sc['first_block'][0].hex(), sc['first_block'][1].hex()]} if sc.get('first_block') else {})}


def from_json(j):
    return {'kind': j['kind'], 'expect': j['expect'], 'why': j.get('why', ''), 'id_text': j.get('id_text') or {},
            'id_spelling': j.get('id_spelling') or {},
            'nodes': [(bytes.fromhex(k), int(w)) for k, w in j['nodes']],
            'sigs': [(bytes.fromhex(i), bytes.fromhex(s)) for i, s in j['sigs']],
            'wc': j['wc'], 'shard': int(j['shard']), 'seqno': j['seqno'], 'root': bytes.fromhex(j['root']), 'file': bytes.fromhex(j['file']),
            **({'first_block': (bytes.fromhex(j['first_block'][0]), bytes.fromhex(j['first_block'][1]))} if j.get('first_block') else {})}


def check_one(ctx, sc):
    payload = SIGN_MAGIC + sc['root'] + sc['file']
    expect = sc['expect']
    spec = spec_accept(sc['nodes'], sc['sigs'], payload) and not sc.get('id_text')     # an id that is no hex string names nobody
    if expect is None:
        expect = spec
    elif spec != expect:
        # generator and statement transcription disagree: harness bug, never a verdict on the library
        from ..core import MachineryError
        raise MachineryError(f'C12 generator expectation {expect} != spec transcription {spec} for {to_json(sc)}')
    got = lib_accept(sc)
    n, m = len(sc['nodes']), len(sc['sigs'])
    ctx.case((sc['kind'], tuple(sc['nodes']), tuple(sc['sigs']), sc['root'], sc['file']), nontrivial=n > 0 and m > 0,
             sample={'kind': sc['kind'], 'validators': n, 'signatures': m, 'expect': 'accept' if expect else 'reject', 'why': sc.get('why', '')})
    ctx.count(f'kind:{sc["kind"]}')
    ctx.count('expect:accept' if expect else 'expect:reject')
    ctx.count(f'n<={1 if n <= 1 else 3 if n <= 3 else 10 if n <= 10 else 30 if n <= 30 else 100}')
    if got != expect:
        verb = 'accepted' if got else 'rejected'
        ctx.fail(f'{verb}-{sc["kind"]}:{n}v{m}s', f'check_block_signatures {verb} a signature set that must be '
                 f'{"accepted" if expect else "rejected"} ({sc["kind"]}: {sc.get("why", "")})',
                 to_json(sc), verb, 'accept' if expect else 'reject')
    if not sc.get('id_text'):        # the model's entries carry bytes; a non-hex id text has no counterpart there
        ctx.expect_model(model_line(sc, payload), 'ok 1' if got else 'ok 0', f'{sc["kind"]} {n}v{m}s')
    if got and expect and not sc['kind'].startswith('other-block/') and m > 0:
        # the very signatures just accepted for this block, presented for ANOTHER block id (one bit of root_hash or file_hash
        # differs): each signature is over another payload now - nothing learnt while verifying the first block may carry over
        ctx._c12_replays = getattr(ctx, '_c12_replays', 0) + 1
        if ctx._c12_replays % 3 == 1 or n <= 4:
            which = 'root' if ctx._c12_replays % 2 else 'file'
            h2 = bytearray(sc[which])
            h2[(n + m) % 32] ^= 1 << (m % 8)
            sc2 = dict(sc, kind='other-block/' + sc['kind'], expect=False, why='signatures accepted for one block replayed for another (' + which + '_hash differs in one bit)')
            sc2[which] = bytes(h2)
            sc2['first_block'] = (sc['root'], sc['file'])      # for the replay: the block these signatures were first verified for
            check_one(ctx, sc2)
            check_one(ctx, dict(sc, kind='other-block/again-' + sc['kind']))      # and the genuine block is still accepted afterwards


# --------------------------------------------------------------------------- scenario generator

class Pool:
    def __init__(self, rng, size=140):
        self.keys = []
        for _ in range(size):
            sk = SigningKey(rng.randbytes(32))
            self.keys.append((sk, bytes(sk.verify_key)))


def weights_for(rng, n, mode):
    if mode == 'one':
        return [1] * n
    if mode == 'equal':
        w = rng.choice([2, 3, 7, 1000, 2 ** 32, 2 ** 63, 2 ** 64 - 1])
        return [w] * n
    if mode == 'skewed':
        ws = [rng.choice([0, 1, 1, 2, 5, 17, 1000, 10 ** 9, 2 ** 40]) for _ in range(n)]
        ws[rng.randrange(n)] = rng.choice([10 ** 6, 2 ** 50, 2 ** 62])
        return ws
    if mode == 'huge':
        return [rng.choice([2 ** 63, 2 ** 63 - 1, 2 ** 63 + 1, 2 ** 64 - 1, 2 ** 62]) for _ in range(n)]
    return [rng.randrange(1, 1 << rng.choice([1, 4, 16, 63])) for _ in range(n)]


def base_scenario(rng, pool, n, mode, target):
    """validators + a signer subset whose weight is just above ('above'), exactly at ('exact', if constructible),
    or just below ('below') two thirds, or everybody ('all'), or nobody ('none')."""
    idx = rng.sample(range(len(pool.keys) - 20), n)          # the last 20 keys of the pool are never validators
    ws = weights_for(rng, n, mode)
    order = list(range(n))
    rng.shuffle(order)
    if target == 'exact':
        # make the weights so that some subset has exactly 2/3: signers sum 2t, the rest t
        k = max(1, min(n - 1, rng.randrange(1, n))) if n > 1 else 1
        signers, rest = order[:k], order[k:]
        s = sum(ws[i] for i in signers)
        if s % 2:
            ws[signers[0]] += 1
            s += 1
        if s == 0:
            ws[signers[0]] = 2
            s = 2
        if not rest:
            return None
        t = s // 2
        for i in rest:
            ws[i] = 0
        parts = sorted(rng.randrange(0, t + 1) for _ in range(len(rest) - 1))
        prev = 0
        for i, p in zip(rest, parts + [t]):
            ws[i] = p - prev
            prev = p
        unit = rng.choice(['exact', 'plus', 'minus'])
        if unit == 'plus':
            ws[rng.choice(signers)] += 1
        elif unit == 'minus':
            ws[rng.choice(rest)] += 1
        why = f'signed weight exactly 2/3 of total, {unit}'
    else:
        total = sum(ws)
        signers, s = [], 0
        if target == 'all':
            signers = order
        elif target == 'none':
            signers = []
        else:
            for i in order:
                if 3 * s > 2 * total:
                    break
                signers.append(i)
                s += ws[i]
            if target == 'below' and signers:
                # drop the signer that crossed the threshold
                signers = signers[:-1]
        why = f'signers chosen {target} the 2/3 threshold'
    total = sum(ws)
    s = sum(ws[i] for i in signers)
    nodes = [(pool.keys[idx[i]][1], ws[i]) for i in range(n)]
    return dict(idx=idx, ws=ws, signers=signers, nodes=nodes, accept=3 * s > 2 * total, why=f'{why}: 3*{s} vs 2*{total}')


FAULTS = ['none', 'none', 'perm', 'bitflip', 'wrongmsg', 'foreign', 'foreign-as-member', 'dup', 'dup-pad', 'siglen', 'id-unknown-bytes']


def scenario(rng, pool, n, mode, target, fault):
    b = base_scenario(rng, pool, n, mode, target)
    if b is None:
        return None
    root, file = rng.randbytes(32), rng.randbytes(32)
    payload = SIGN_MAGIC + root + file
    sigs = []
    for i in b['signers']:
        sk, pk = pool.keys[b['idx'][i]]
        sigs.append((node_id(pk), sk.sign(payload).signature))
    expect = b['accept']
    why = b['why']
    kind = f'{target}/{fault}'
    if fault == 'perm':
        rng.shuffle(sigs)
    elif fault in ('bitflip', 'wrongmsg', 'siglen', 'foreign-as-member'):
        if not sigs:
            return None
        j = rng.randrange(len(sigs))
        i_, s_ = sigs[j]
        if fault == 'bitflip':
            bit = rng.randrange(512)
            s2 = bytearray(s_)
            s2[bit // 8] ^= 1 << (bit % 8)
            s_ = bytes(s2)
            why += f'; bit {bit} of signature {j} flipped'
        elif fault == 'wrongmsg':
            sk = pool.keys[b['idx'][b['signers'][j]]][0]
            alt = rng.choice(['root', 'file', 'swap', 'nomagic', 'tl'])
            if alt == 'root':
                r2 = bytearray(root); r2[rng.randrange(32)] ^= 1 << rng.randrange(8)
                msg = SIGN_MAGIC + bytes(r2) + file
            elif alt == 'file':
                f2 = bytearray(file); f2[rng.randrange(32)] ^= 1 << rng.randrange(8)
                msg = SIGN_MAGIC + root + bytes(f2)
            elif alt == 'swap':
                msg = SIGN_MAGIC + file + root
            elif alt == 'nomagic':
                msg = root + file
            else:
                msg = SIGN_MAGIC[::-1] + root + file
            s_ = sk.sign(msg).signature
            why += f'; signature {j} is over another message ({alt})'
        elif fault == 'siglen':
            sk = pool.keys[b['idx'][b['signers'][j]]][0]
            x = rng.randbytes(rng.choice([1, 2, 4, 32, 68]))
            # S||X where S is the member's GENUINE signature over X||payload: a verifier that lets the length of the
            # signature field decide where the signed message starts (sig[:64], sig[64:]+payload) would accept it
            splice = sk.sign(x + payload).signature + x
            # nacl's COMBINED form S(M')||M' in the signature field, M' = the identifier of ANOTHER block (an old genuine signature
            # replayed) / arbitrary bytes / the right payload itself: a verifier that hands a long signature field to the
            # combined-form check never looks at the block it is asked about
            other = rng.choice([SIGN_MAGIC + rng.randbytes(32) + file, SIGN_MAGIC + root + rng.randbytes(32), rng.randbytes(rng.choice([1, 68, 100]))])
            comb_other = sk.sign(other).signature + other
            comb_same = s_ + payload
            s_ = rng.choice([s_[:63], s_ + b'\x00', b'', s_[:32], splice, splice, s_ + s_, comb_other, comb_other, comb_same])
            why += f'; signature {j} has length {len(s_)}' + (' (genuine signature over X||payload followed by X)' if s_ is splice else
                                                              ' (combined form: genuine signature over another message followed by that message)' if s_ is comb_other else
                                                              ' (combined form of the right message: the field must hold the 64-byte signature only)' if s_ is comb_same else '')
        else:
            fsk = pool.keys[-1 - rng.randrange(20)][0]
            s_ = fsk.sign(payload).signature
            why += f'; signature {j} made by a foreign key under a member id'
        sigs[j] = (i_, s_)
        expect = False
    elif fault == 'foreign':
        fsk, fpk = pool.keys[-1 - rng.randrange(20)]
        sigs.insert(rng.randrange(len(sigs) + 1), (node_id(fpk), fsk.sign(payload).signature))
        why += '; plus a valid signature by a key outside the set'
        expect = False
    elif fault == 'id-unknown-bytes':
        if not sigs:
            return None
        j = rng.randrange(len(sigs))
        i_, s_ = sigs[j]
        i2 = rng.choice([i_[:31], i_ + b'\x00', b'', bytes(32), sigs[j][0][::-1]])
        sigs[j] = (i2, s_)
        why += f'; node id {j} replaced by {len(i2)} other bytes'
        expect = False
    elif fault == 'dup':
        if not sigs:
            return None
        j = rng.randrange(len(sigs))
        sigs.insert(rng.randrange(len(sigs) + 1), sigs[j])
        why += f'; entry {j} repeated'
        expect = False
    elif fault == 'dup-pad':
        # insufficient distinct signers, repeated until the *counted* weight would exceed 2/3
        if not sigs:
            return None
        total = sum(b['ws'])
        wmap = {node_id(pool.keys[b['idx'][i]][1]): b['ws'][i] for i in range(n)}
        s = sum(wmap[i] for i, _ in sigs)
        guard = 0
        while 3 * s <= 2 * total and guard < 300:
            e = rng.choice(sigs)
            if wmap[e[0]] == 0 and guard > 50:
                break
            sigs.append(e)
            s += wmap[e[0]]
            guard += 1
        if len({i for i, _ in sigs}) == len(sigs):
            sigs.append(sigs[0])
        rng.shuffle(sigs)
        why += f'; entries repeated until the naive weight is 3*{s} vs 2*{total}'
        expect = False
    spelling = {}
    if fault in ('dup', 'dup-pad', 'none', 'perm') and rng.random() < 0.6:
        # the same validator under different textual spellings of its id is still the same validator
        spelling = {str(j): rng.choice(['upper', 'spaced', 'mixed']) for j in range(len(sigs)) if rng.random() < 0.5}
        if spelling:
            why += '; some node_id_short spelled in upper case / with spaces'
    return dict(kind=kind, expect=expect, why=why, nodes=b['nodes'], sigs=sigs, id_spelling=spelling,
                wc=rng.choice([-1, 0, 5]), shard=rng.choice([-2 ** 63, 2 ** 62, -2 ** 62]), seqno=rng.randrange(2 ** 31), root=root, file=file)


def special_scenarios(rng, pool):
    root, file = rng.randbytes(32), rng.randbytes(32)
    payload = SIGN_MAGIC + root + file
    blk = dict(wc=-1, shard=-2 ** 63, seqno=rng.randrange(2 ** 31), root=root, file=file)

    def sg(j, msg=payload):
        sk, pk = pool.keys[j]
        return node_id(pk), sk.sign(msg).signature

    def nd(js, w=1):
        return [(pool.keys[j][1], w) for j in js]
    # empty set
    yield dict(kind='empty-set/none', expect=False, why='no validators, no signatures', nodes=[], sigs=[], **blk)
    yield dict(kind='empty-set/sigs', expect=False, why='no validators, one signature', nodes=[], sigs=[sg(0)], **blk)
    # F13 family on equal weights
    yield dict(kind='f13/7of10', expect=True, why='7 of 10 equal weights', nodes=nd(range(10)), sigs=[sg(j) for j in range(7)], **blk)
    yield dict(kind='f13/6of9', expect=False, why='6 of 9 equal weights = exactly 2/3', nodes=nd(range(9)), sigs=[sg(j) for j in range(6)], **blk)
    yield dict(kind='f13/1x7of10', expect=False, why="one validator's signature 7 times of 10", nodes=nd(range(10)), sigs=[sg(0)] * 7, **blk)
    yield dict(kind='f13/2of3-huge', expect=False, why='2 of 3 with weight 2^63 each = exactly 2/3', nodes=nd(range(3), 2 ** 63),
               sigs=[sg(0), sg(1)], **blk)
    yield dict(kind='f13/3of3-huge', expect=True, why='3 of 3 with weight 2^64-1', nodes=nd(range(3), 2 ** 64 - 1), sigs=[sg(0), sg(1), sg(2)], **blk)
    yield dict(kind='single/1of1', expect=True, why='one validator signs', nodes=nd([0], 5), sigs=[sg(0)], **blk)
    yield dict(kind='single/0of1', expect=False, why='one validator, nobody signs', nodes=nd([0], 5), sigs=[], **blk)
    yield dict(kind='zero-weights/all', expect=False, why='all weights 0, everybody signs: 0 > 0 is false', nodes=nd(range(3), 0),
               sigs=[sg(0), sg(1), sg(2)], **blk)
    for txt in ('zz' * 32, sg(0)[0].hex()[:-1], '0x' + sg(0)[0].hex()):
        yield dict(kind='bad-hex-id/3of3', expect=False, why=f'all sign, but node_id_short[0] = {txt[:12]}… is not valid hex', nodes=nd(range(3)),
                   sigs=[sg(0), sg(1), sg(2)], id_text={'0': txt}, **blk)
    # all equal n: smallest accepting count and the one below, for every n up to 40
    for n in range(1, 41):
        k = (2 * n) // 3 + 1
        yield dict(kind='equal/min-accept', expect=True, why=f'{k} of {n} equal', nodes=nd(range(n), 3), sigs=[sg(j) for j in range(k)], **blk)
        yield dict(kind='equal/max-reject', expect=False, why=f'{k - 1} of {n} equal', nodes=nd(range(n), 3), sigs=[sg(j) for j in range(k - 1)], **blk)
    # repeated key in the validator list (outside the property domain; theorems: last entry credited, both counted in total).
    a, c = rng.choice([(1, 10), (10, 1), (2, 9), (9, 2)])
    for (wa, wc_) in [(a, c), (c, a)]:
        nodes = [(pool.keys[0][1], wa), (pool.keys[0][1], wc_), (pool.keys[1][1], 1)]
        yield dict(kind='dupkey-set/one-signs', expect=None, why=f'key 0 listed twice with weights {wa},{wc_}; it signs once', nodes=nodes, sigs=[sg(0)], **blk)
        yield dict(kind='dupkey-set/all-sign', expect=None, why=f'key 0 listed twice with weights {wa},{wc_}; both keys sign', nodes=nodes, sigs=[sg(0), sg(1)], **blk)
        nodes2 = [(pool.keys[0][1], wa), (pool.keys[1][1], 1), (pool.keys[0][1], wc_)]
        yield dict(kind='dupkey-set/one-signs', expect=None, why=f'key 0 listed first and last with weights {wa},{wc_}', nodes=nodes2, sigs=[sg(0)], **blk)


SIZES = [1, 1, 2, 3, 3, 4, 5, 6, 7, 9, 10, 12, 15, 30, 31, 99, 100]
MODES = ['one', 'equal', 'skewed', 'huge', 'random']
TARGETS = ['above', 'above', 'above', 'exact', 'exact', 'below', 'all', 'none']


def src_search(ctx, pool):
    """Search mode only: the (signed, total) weight pairs on which the regenerated acceptance test (Generated/SigCheck.lean) differs
    from the strict two-thirds test, replayed as two-validator scenarios (one signs with weight `signed`, the other holds the rest);
    a differing loop test is replayed as the corresponding fault scenario.  True = a concrete failing input was found."""
    found = arith2.search_points(ctx, ['SigCheck'])
    n0 = len(ctx.failures)
    rng = ctx.rng
    # the whole regenerated function vs the hand model, on small scenarios of every fault kind: differing scenarios first
    grid = sigfull.validation_scenarios()
    diff = sigfull.diff_scenarios(ctx, grid)
    for sc in diff[:40]:
        check_one(ctx, dict(sc, kind='src-fn/' + sc['kind'], expect=None if sc['kind'].startswith('dupkey-set') else sc['expect']))
    if len(ctx.failures) > n0:
        return True
    for pt in (found.get('sigAccept') or [])[:12]:
        s, t = pt['signed'], pt['total']
        if s > t:
            continue
        root, file = rng.randbytes(32), rng.randbytes(32)
        sk, pk = pool.keys[0]
        nodes = [(pk, s)] + ([(pool.keys[1][1], t - s)] if t > s else [])
        check_one(ctx, dict(kind='src-threshold', expect=None, why=f'one validator of weight {s} signs, total weight {t}', nodes=nodes,
                            sigs=[(node_id(pk), sk.sign(SIGN_MAGIC + root + file).signature)], wc=-1, shard=-2 ** 63, seqno=1, root=root, file=file))
    for name, fault in (('sigUnknown', 'foreign'), ('sigDuplicate', 'dup'), ('sigDuplicate', 'none'), ('sigInvalid', 'bitflip'), ('sigInvalid', 'none')):
        if found.get(name):
            for n in (3, 4):
                sc = scenario(rng, pool, n, 'one', 'all', fault)
                if sc is not None:
                    check_one(ctx, sc)
    return len(ctx.failures) > n0


def run(ctx):
    from pytoniq_core.proof.check_proof import calculate_node_id_short
    pool = Pool(ctx.rng)
    if ctx.search and src_search(ctx, pool):
        return
    for sk, pk in pool.keys[:20]:
        ctx.case(('node-id', pk), sample=None)
        if calculate_node_id_short(pk) != node_id(pk):
            ctx.fail('node-id:' + pk.hex()[:16], 'calculate_node_id_short != sha256(c6b41348 || key)', {'key': pk.hex()},
                     calculate_node_id_short(pk).hex(), node_id(pk).hex())
    for sc in special_scenarios(ctx.rng, pool):
        check_one(ctx, sc)
    # every (target, fault) pair at least once on small sets, then random
    combos = [(t, f) for t in ['above', 'exact', 'below', 'all'] for f in sorted(set(FAULTS))]
    todo = ctx.n(3000, 15000)
    done = 0
    while done < todo:
        if done < len(combos):
            target, fault = combos[done]
            n = ctx.rng.choice([3, 4, 6, 7, 9, 10])
        else:
            target, fault = ctx.rng.choice(TARGETS), ctx.rng.choice(FAULTS)
            n = ctx.rng.choice(SIZES + [ctx.rng.randrange(1, 101)])
        mode = ctx.rng.choice(MODES)
        sc = scenario(ctx.rng, pool, n, mode, target, fault)
        done += 1
        if sc is None:
            continue
        check_one(ctx, sc)


def replay(ctx, payload):
    inp = payload.get('input') or {}
    if isinstance(inp, dict) and 'nodes' in inp:
        sc = from_json(inp)
        if sc['kind'].startswith('dupkey-set'):
            sc['expect'] = None
        if sc.get('first_block'):          # a replayed-signatures scenario: first the block the signatures were made for
            lib_accept(dict(sc, root=sc['first_block'][0], file=sc['first_block'][1]))
        check_one(ctx, sc)


# ----------------------------------------------------------------------------- appended by strengthener st-proof (round 11)
# Class "two different valid signatures by one key for one message": Ed25519 signatures are not unique - the key holder gets a
# different valid signature for every nonce r (R = rB, S = r + H(R||A||M) a mod L; RFC 8032 5.1.6 with r chosen freely).  Any guard
# against counting a validator twice that looks at the signature BYTES (or at anything but the signer's identity) is blind to it.
# sign_with_nonce is RFC 8032 signing on top of libsodium's base-point multiplication; every signature it returns is checked with
# PyNaCl's verifier (raw_verify) before it is used.  Faults: 'dup-resign' / 'dup-pad-resign' = the dup / dup-pad scenarios whose
# repeated entries carry pairwise DIFFERENT valid signatures; 'none-resign' = an honest set signed with free nonces (must be accepted).

ED_L = 2 ** 252 + 27742317777372353535851937790883648493


def sign_with_nonce(seed: bytes, msg: bytes, r: int) -> bytes:
    from nacl.bindings import crypto_scalarmult_ed25519_base_noclamp
    h = hashlib.sha512(seed).digest()
    a = int.from_bytes(h[:32], 'little')
    a &= (1 << 254) - 8
    a |= 1 << 254
    A = bytes(SigningKey(seed).verify_key)
    r %= ED_L
    if r == 0:
        r = 1
    R = crypto_scalarmult_ed25519_base_noclamp(r.to_bytes(32, 'little'))
    k = int.from_bytes(hashlib.sha512(R + A + msg).digest(), 'little') % ED_L
    S = (r + k * a) % ED_L
    return R + S.to_bytes(32, 'little')


_scenario_before_resign = scenario
FAULTS = FAULTS + ['dup-resign', 'dup-pad-resign', 'dup-resign', 'none-resign']


def scenario(rng, pool, n, mode, target, fault):
    if not fault.endswith('-resign'):
        return _scenario_before_resign(rng, pool, n, mode, target, fault)
    sc = _scenario_before_resign(rng, pool, n, mode, target, fault[:-len('-resign')])
    if sc is None:
        return None
    payload = SIGN_MAGIC + sc['root'] + sc['file']
    by_id = getattr(pool, '_seed_by_id', None)
    if by_id is None:
        by_id = pool._seed_by_id = {node_id(pk): (bytes(sk), pk) for sk, pk in pool.keys}
    used, seen, sigs = set(), set(), []
    all_free = fault == 'none-resign' or rng.random() < 0.3
    for i, s in sc['sigs']:
        if i in seen or all_free:
            seed, pk = by_id[i]
            while True:
                s = sign_with_nonce(seed, payload, rng.getrandbits(256) if rng.random() < 0.8 else rng.randrange(1, 5))
                if s not in used:
                    break
            if not raw_verify(pk, payload, s):
                from ..core import MachineryError
                raise MachineryError('C12 harness: a signature made with a chosen nonce does not verify under PyNaCl')
        elif s in used:      # the deterministic signature once more: keep the first, re-sign this one
            seed, pk = by_id[i]
            s = sign_with_nonce(seed, payload, rng.getrandbits(256))
        seen.add(i)
        used.add(s)
        sigs.append((i, s))
    sc['sigs'] = sigs
    sc['kind'] = f'{target}/{fault}'
    if fault == 'none-resign':
        sc['why'] += '; every signature made with a freely chosen nonce (valid, not the deterministic RFC 8032 one)'
    else:
        sc['why'] += '; the repeated entries carry pairwise DIFFERENT valid signatures of the same validator (Ed25519 nonce chosen freely)'
        assert len({s for _, s in sigs}) == len(sigs) and len({i for i, _ in sigs}) < len(sigs)
    return sc


SPEC['manifest']['text'] += (' NON-UNIQUE SIGNATURES (sampled, every run): the duplicate scenarios also run with repeated entries that carry pairwise DIFFERENT valid '
                             'Ed25519 signatures of the same validator over the same block id (RFC 8032 signing with a freely chosen nonce, implemented in the harness on '
                             'libsodium\'s base-point multiplication, each signature confirmed by PyNaCl\'s verifier), and honest sets signed that way must be accepted.')
SPEC['rule'] += ('; faults dup-resign / dup-pad-resign: a validator listed several times with different valid signatures (chosen nonces) - must be rejected; '
                 'none-resign: honest set with chosen-nonce signatures - verdict by weight')
