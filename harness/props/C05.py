"""C05: the BoC parser returns exactly the denoted roots on every conforming foreign encoding and raises on
truncation / extension / single-bit corruption under CRC / dangling, backward, self references."""
import base64

from ..gen import cells as G
from ..translate import bocheader, boccells

SPEC = dict(
    manifest=dict(
        category='proof',
        text='Lean proves about the hand model of Boc.deserialize_boc_header / deserialize_cell / deserialize (Model/BocParse.lean), for ALL inputs: '
             '(1) c05_accepts: every encoding produced by the spec encoder Spec.BocEncode.encodeWith under every admissible choice of freedoms '
             '(3 magics, size<=4, off_bytes<=8, index, CRC, cache bits, per-cell stored hashes, several roots, any forward listing) parses to exactly '
             'the denoted root trees (hypothesis: each denoted cell passes the cell constructor; H abstract); '
             '(2) c05_trunc_ext: of two byte strings one of which is a proper prefix of the other at most one is accepted, hence every proper prefix '
             'and every proper extension of an accepted input (in particular of every encoding) is rejected; '
             '(3) c05_crc_single_bit: an accepted CRC-protected input (in particular every valid encoding with CRC) is rejected after flipping '
             'ANY single bit, for every message length (CRC-32C bit step is linear with trivial kernel; magic flips: the magics differ in every '
             'byte; CRC-flag flip: length fields), and after any non-zero error pattern inside one byte other than the flag byte; '
             '(4) c05_bad_refs: a record with a reference >= cells or <= its own position makes the parse fail. '
             'TIE TO THE SOURCE, header parser: c05_src_header - the Lean function Generated.BocHeader.header is REGENERATED ON EVERY RUN from the text of '
             'Boc.deserialize_boc_header (deserialize.py), utils.bytes_to_uint and the three magic constants by the bytes-program translator '
             '(harness/translate/pybytes.py: len, index with IndexError, slices, big-endian numbers, the result dict as a record, if/elif/else, raise, '
             'range comprehensions with the zero-step ValueError), and Lean proves FOR ALL byte lists that it equals the hand model\'s header parser: '
             'same accept/reject decision and same has_idx, hash_crc32, has_cache_bits, flags, size_bytes, offset_bytes, cells_num, roots_num, absent_num, '
             'tot_cells_size, root_list, index, cells_data, including the CRC comparison and the trailing-bytes check. A change of any line of that '
             'function therefore breaks a proof obligation (the check then evaluates both functions in Lean on boundary bags and their corruptions and '
             'runs the conformance / rejection oracle on the differing inputs to produce a concrete replay) instead of having to be hit by a sample. '
             'TIE TO THE SOURCE, cell record reader: c05_src_deserialize_cell - the WHOLE Boc.deserialize_cell is regenerated the same way by the loop / bit-list '
             'extension of the translator (harness/translate/pyloops.py: bitarray(), frombytes, the completion-tag loop for j in range(-1, -8, -1) with break, '
             'bits[:end] with end = None or a negative index, TvmBitarray(1023, ..), ba2int(.., signed=True), the reference-index loop with append, the returned '
             '(dict, consumed)) and proved equal, for all byte lists and index widths, to the hand model\'s deserializeCell: same raise / return decision, same data '
             'bits (completion tag removed), reference indices, cell type, consumed bytes (c05_src_cell_layout: the first part alone, kept). '
             'TIE TO THE SOURCE, entry point: c05_src_deserialize - Boc.deserialize (call of the header parser on self.data, the cells loop, the reversed rebuild '
             'loop with the inner reference loop, the topological-order check, the in-place result update, the roots loop) is regenerated as Py.loop? folds '
             'with the loop-carried variables as state and proved equal, for all byte lists and EVERY cell constructor mk, to Model.BocParse.deserialize mk '
             '(the constructor callback stays a parameter; a None child makes it raise: liftMk); c05_src_from_boc instantiates it with the constructor model. '
             'So every theorem above is a theorem about the function regenerated from the current source, up to the cell constructor (C01/C02) and Boc.__init__. '
             'The translators are validated on every change: Lean evaluation of the regenerated functions = CPython on ~350 structured header byte '
             'strings, ~275 + ~1950 cell records and ~260 whole bags (Boc.deserialize with a test callback). A change of any line of these functions breaks a proof '
             'obligation; the check then evaluates regenerated functions and hand model in Lean on the records of ~350 conforming boundary bags (every data '
             'length around the byte boundaries with every tail, exotic cells, 0-4 references of every width, shared cells, several roots) and on their reference / '
             'root corruptions and runs the conformance / rejection oracle, differing inputs first, to produce a concrete replay. '
             'TIE TO THE SOURCE, rest (Boc.__init__: bytes / hex / base64 detection; the cell constructor): hand model + differential correspondence on '
             'conforming encodings from two independent encoders '
             '(Lean spec encoder through the driver, Python transcription in the harness), on every truncation/extension, all single-bit flips, '
             'reference/root/magic corruptions and random byte mutations.',
        level_note='Trusted: Lean kernel (propext, Classical.choice, Quot.sound); for the header parser, the cell reader and the loops of deserialize: the translators '
                   'pybytes.py / pyloops.py / pyarith.py and their reading of the Python built-ins (TonVerif/PyBytes.lean: slice, range, unpacking, Py.loop? = for loop with break, '
                   'negative indices / slices, bitarray frombytes / ba2int, TvmBitarray; natOfBE = int.from_bytes big; value semantics of lists under the aliasing rule), validated '
                   'differentially against CPython whenever source, translator or output change; for Boc.__init__: '
                   'Model/BocParse.lean as a faithful hand transcription of '
                   'deserialize.py (sampled correspondence only: accept/reject and canonical root DAG listing on every generated input); '
                   'Spec/BocEncode.lean as a faithful reading of boc.tlb + the reference cell record layout; Model/Cell.lean for the constructor; '
                   'CRC theorem uses the translated crc32c (C18 tie). Input-form detection (hex/base64 text) is modelled for canonical texts only.',
        technique='Lean 4 proof; header parser, cell reader and Boc.deserialize (all loops) regenerated from the source on every run and proved equal to the hand model for all inputs; '
                  'Boc.__init__ and the cell constructor: hand model + differential correspondence with the library',
    ),
    translators=[('deserialize.py deserialize_boc_header, deserialize_cell, deserialize (+utils.bytes_to_uint, magics)->Generated/BocHeader.lean, BocCells.lean', boccells.regenerate)],
    design_ref='DESIGN.md §6 C05',
    rule='DAGs (ordinary with sharing, exotic trees with pruned branches / Merkle cells / library cells, chains, 255..257-cell bags, cell data of '
         '255/256 bytes total) x freedoms drawn from the seed (magic, size min..4, off min..8, idx, crc, cache bits + per-cell flag, per-cell '
         'stored hashes, 1-3 roots, extra unreachable cells, random forward order); negative: every truncation point, 1-8 byte extensions, all '
         'single-bit flips of CRC-protected bags, reference rewrites (dangling/backward/self), root index >= cells, magic rewrites; '
         'distinct = distinct byte string; non-trivial = bag with >= 2 cells or non-empty data',
    trusted_base=['Model/BocParse.lean mirrors Boc.__init__ by hand (deserialize_boc_header, deserialize_cell, deserialize: regenerated + proved equal, c05_src_header / c05_src_deserialize_cell / c05_src_deserialize)',
                  'harness/translate/pybytes.py + pyloops.py + pyarith.py (Python bytes-program subset with loops, bit lists, record lists, callbacks -> Lean) and TonVerif/PyBytes.lean (meaning of slice / range / unpacking / loops / bitarray operations)',
                  'Spec/BocEncode.lean transcribes boc.tlb and DataCell::serialize (with_hashes) by hand',
                  'Model/Cell.lean (constructor model, C01/C02) is reused for cls(bits, refs, type)',
                  'SHA-256 is an abstract parameter H in all theorems; CRC-32C is the translated library code (C18)'],
    assumptions=['bitarray frombytes / slicing / ba2int behave as modelled', 'bytes slicing never raises, indexing past the end raises',
                 'None children make the Cell constructor raise for every cell type',
                 'correspondence is sampled differential testing of model vs library (Boc.__init__ and the cell constructor; the parser functions are regenerated and proved equal)',
                 'no list / bitarray / dict of the translated functions is changed through one name and read through another (checked syntactically by the translator: frozen names)',
                 'deserialize_boc_header is called with a bytes object; its exceptions are not distinguished (raise = none)'],
)

MAGIC = {'g': bytes.fromhex('b5ee9c72'), 'i': bytes.fromhex('68ff65f3'), 'c': bytes.fromhex('acc3a728')}


# ----------------------------------------------------------------------------- independent CRC-32C (bitwise, Castagnoli)

def crc32c_bitwise(data: bytes) -> bytes:
    crc = 0xFFFFFFFF
    for b in data:
        crc ^= b
        for _ in range(8):
            crc = (crc >> 1) ^ 0x82F63B78 if crc & 1 else crc >> 1
    return (crc ^ 0xFFFFFFFF).to_bytes(4, 'little')


# ----------------------------------------------------------------------------- listing + independent encoder with all freedoms

def sig_levels(mask):
    return [l for l in range(4) if l == 0 or (mask >> (l - 1)) & 1]


def listing(nodes, spec, order):
    """records in file order; refs as positions"""
    pos = {nid: p for p, nid in enumerate(order)}
    recs = []
    for nid in order:
        kind, bits, refs = nodes[nid]
        s = spec[nid]
        lv = sig_levels(s.mask)
        recs.append(dict(kind=kind, bits=bits, refs=[pos[r] for r in refs], mask=s.mask,
                         hashes=[s.H[l] for l in lv], depths=[s.D[l] for l in lv]))
    return recs


def enc_record(rec, size, store):
    b = len(rec['bits'])
    d1 = len(rec['refs']) + (8 if rec['kind'] != -1 else 0) + (16 if store else 0) + 32 * rec['mask']
    d2 = b // 8 + (b + 7) // 8
    out = bytes([d1, d2])
    if store:
        out += b''.join(rec['hashes']) + b''.join(d.to_bytes(2, 'big') for d in rec['depths'])
    out += G.data_bytes(rec['bits'])
    for r in rec['refs']:
        out += (r % (256 ** size)).to_bytes(size, 'big')
    return out


def py_encode(recs, roots, fr):
    """fr: dict(magic, size, off, idx, crc, cache, store[list], cflags[list]); roots: positions"""
    size, off = fr['size'], fr['off']
    generic = fr['magic'] == 'g'
    with_idx = fr['idx'] if generic else True
    with_crc = fr['crc'] if generic else fr['magic'] == 'c'
    with_cache = fr['cache'] if generic else False
    blobs = [enc_record(r, size, fr['store'][k] if k < len(fr['store']) else False) for k, r in enumerate(recs)]
    data = b''.join(blobs)
    index = b''
    end = 0
    for k, bl in enumerate(blobs):
        end += len(bl)
        v = 2 * end + (1 if k < len(fr['cflags']) and fr['cflags'][k] else 0) if with_cache else end
        index += (v % 256 ** off).to_bytes(off, 'big')
    n = len(recs)

    def be(w, v):
        return (v % 256 ** w).to_bytes(w, 'big')

    counts = be(size, n) + be(size, len(roots)) + be(size, 0) + be(off, len(data))
    if generic:
        fb = 128 * bool(fr['idx']) + 64 * bool(fr['crc']) + 32 * bool(fr['cache']) + size
        out = MAGIC['g'] + bytes([fb, off]) + counts + b''.join(be(size, r) for r in roots)
        if with_idx:
            out += index
    else:
        out = MAGIC[fr['magic']] + bytes([size, off]) + counts + index
    out += data
    if with_crc:
        out += crc32c_bitwise(out)
    return out


def fr_string(fr):
    b = lambda x: '1' if x else '0'
    bs = lambda xs: ''.join(b(x) for x in xs) or '-'
    return f"{fr['magic']},{fr['size']},{fr['off']},{b(fr['idx'])},{b(fr['crc'])},{b(fr['cache'])},{bs(fr['store'])},{bs(fr['cflags'])}"


def nodes_string(nodes):
    return '|'.join(f"{k},{b or '-'},{'.'.join(map(str, r)) or '-'}" for k, b, r in nodes)


# ----------------------------------------------------------------------------- library side

def lib_parse(data):
    """-> list of Cell or None (any exception)"""
    from pytoniq_core.boc.cell import Cell
    try:
        return Cell.from_boc(data)
    except RecursionError:
        raise
    except Exception:
        return None


def canon(roots):
    """canonical listing of the cells reachable from `roots` (same algorithm as Drv/BocParse.lean: depth first, children left
    to right, every distinct hash once, post-order numbering)."""
    idx = {}
    out = []

    def line(c, ks):
        return f"{c.type_},{c.bits.to01() or '-'},{'.'.join(map(str, ks)) or '-'}"

    ks_roots = []
    for root in roots:
        if root.hash not in idx:
            stack = [(root, 0, [])]
            while stack:
                c, i, ks = stack[-1]
                if i < len(c.refs):
                    r = c.refs[i]
                    stack[-1] = (c, i + 1, ks)
                    if r.hash in idx:
                        ks.append(idx[r.hash])
                    else:
                        stack.append((r, 0, []))
                else:
                    stack.pop()
                    k = len(out)
                    idx[c.hash] = k
                    out.append(line(c, ks))
                    if stack:
                        stack[-1][2].append(k)
        ks_roots.append(idx[root.hash])
    dj = lambda sep, xs: sep.join(xs) if xs else '-'
    return dj('.', [r.hash.hex() for r in roots]) + ';' + dj('.', [str(k) for k in ks_roots]) + ';' + dj('|', out)


def parse_line(data):
    return 'bocparse ' + (data.hex() or '-')


def corr(ctx, data, res, detail):
    """model parser must agree with the library on accept/reject and on the roots"""
    ctx.expect_model(parse_line(data), 'err' if res is None else 'ok ' + canon(res), detail)


def same_structure(cell, nodes, nid):
    """library cell (DAG) has exactly the structure of node nid"""
    seen = set()
    stack = [(cell, nid)]
    while stack:
        c, k = stack.pop()
        if (id(c), k) in seen:
            continue
        seen.add((id(c), k))
        kind, bits, refs = nodes[k]
        if c.type_ != kind or c.bits.to01() != bits or len(c.refs) != len(refs):
            return False
        stack.extend(zip(c.refs, refs))
    return True


# ----------------------------------------------------------------------------- generators

def reachable(nodes, start):
    seen = set()
    stack = list(start)
    while stack:
        k = stack.pop()
        if k in seen:
            continue
        seen.add(k)
        stack.extend(nodes[k][2])
    return seen


def random_order(rng, nodes, members, first=None):
    """random listing of `members` (closed under references) with every reference strictly forward"""
    indeg = {k: 0 for k in members}
    for k in members:
        for r in nodes[k][2]:
            indeg[r] += 1
    ready = sorted(k for k in members if indeg[k] == 0)
    order = []
    if first is not None and first in ready:
        ready.remove(first)
        ready.insert(0, first)
        pick_first = True
    else:
        pick_first = False
    while ready:
        i = 0 if (pick_first and not order) else rng.randrange(len(ready))
        k = ready.pop(i)
        order.append(k)
        for r in nodes[k][2]:
            indeg[r] -= 1
            if indeg[r] == 0:
                ready.append(r)
    assert len(order) == len(members)
    return order


def min_bytes(v):
    return max(1, (v.bit_length() + 7) // 8)


def gen_freedoms(rng, recs, nroots, magic='g', minimal=False):
    n = len(recs)
    size = min_bytes(max(n, nroots))
    if not minimal:
        size = rng.choice([size] * 3 + list(range(size, 5)))
    store = [rng.random() < 0.35 for _ in range(n)] if rng.random() < 0.6 else []
    if rng.random() < 0.15:
        store = [True] * n
    idx = rng.random() < 0.5
    cache = idx and rng.random() < 0.5
    crc = rng.random() < 0.5
    cflags = [rng.random() < 0.5 for _ in range(n)] if cache and rng.random() < 0.7 else []
    fr = dict(magic=magic, size=size, off=8, idx=idx, crc=crc, cache=cache, store=store, cflags=cflags)
    tot = sum(len(enc_record(r, size, store[k] if k < len(store) else False)) for k, r in enumerate(recs))
    top = 2 * tot + 1 if (magic == 'g' and cache and idx) else tot
    off = min_bytes(top)
    fr['off'] = off if minimal else rng.choice([off] * 3 + list(range(off, 9)))
    return fr


def gen_dag(rng):
    """-> (nodes, spec) with at least one spec-valid node"""
    r = rng.random()
    if r < 0.45:
        nodes = G.gen_ordinary_dag(rng, rng.randrange(1, 12), deep=rng.random() < 0.3)
    elif r < 0.9:
        db = G.DagBuilder()
        G.gen_exotic_tree(rng, db, rng.choice([0, 0, 1, 1, 2, 3]), rng.randrange(1, 9))
        nodes = db.nodes
    else:
        nodes = G.chain(rng.randrange(1, 30), G.rand_bits(rng, rng.randrange(0, 20)), rng.choice([1, 2, 4]))
    return nodes, G.spec_dag(nodes)


def gen_bag(rng, nodes, spec, legacy_ok=True, small=False):
    """choose roots, members, order, freedoms -> case dict"""
    valid = [k for k, s in enumerate(spec) if s is not None and s.valid]
    if not valid:
        return None
    top = valid[-1] if rng.random() < 0.6 else rng.choice(valid)
    legacy = legacy_ok and rng.random() < 0.3
    if legacy:
        roots = [top]
        members = reachable(nodes, roots)
        order = random_order(rng, nodes, members, first=top)
    else:
        roots = [top] + [rng.choice(valid) for _ in range(rng.choice([0, 0, 0, 1, 2]))]
        members = reachable(nodes, roots)
        if rng.random() < 0.2:
            members |= reachable(nodes, [rng.choice(valid)])
        order = random_order(rng, nodes, members)
    recs = listing(nodes, spec, order)
    pos = {nid: p for p, nid in enumerate(order)}
    fr = gen_freedoms(rng, recs, len(roots), magic=rng.choice('ic') if legacy else 'g', minimal=small)
    return dict(nodes=nodes, order=order, roots=roots, recs=recs, rpos=[pos[r] for r in roots], fr=fr)


def case_input(case, **extra):
    d = dict(dag=[list(n) for n in case['nodes']], order=case['order'], roots=case['roots'],
             fr={k: v for k, v in case['fr'].items()})
    d.update(extra)
    return d


# ----------------------------------------------------------------------------- positive stream

def check_accept(ctx, case, spec, tag, use_lean_encoder=True, corr_model=True):
    nodes, fr = case['nodes'], case['fr']
    data = py_encode(case['recs'], case['rpos'], fr)
    n = len(case['recs'])
    ctx.case(('accept', data), nontrivial=n >= 2 or len(data) > 20,
             sample={'stream': 'accept', 'cells': n, 'fr': fr_string(fr), 'boc': data.hex()[:120]})
    ctx.count('accept')
    ctx.count('magic:' + fr['magic'])
    ctx.count(f"size:{fr['size']}")
    ctx.count(f"off:{fr['off']}")
    for k in ('idx', 'crc', 'cache'):
        ctx.count(f"{k}:{int(bool(fr[k]))}")
    ctx.count('roots:%d' % len(case['roots']))
    if any(fr['store']):
        ctx.count('stored-hashes')
        for k, r in enumerate(case['recs']):
            if k < len(fr['store']) and fr['store'][k]:
                ctx.count('stored-hashes-mask:%d' % r['mask'])
    if any(r['kind'] != -1 for r in case['recs']):
        ctx.count('exotic-bag')
    inp = case_input(case, boc=data.hex(), tag=tag, expect='roots')
    # the Lean spec encoder must produce the same bytes as the Python transcription
    if use_lean_encoder and ctx.driver_ok:
        line = f"bocencode {nodes_string(nodes)} {'.'.join(map(str, case['order']))} {'.'.join(map(str, case['roots']))} {fr_string(fr)}"
        ctx.expect_model(line, 'ok ' + data.hex(), f'spec encoder (Lean) != harness encoder (Python) [{tag}]')
    res = lib_parse(data)
    if res is None:
        ctx.fail(f"reject:{fr['magic']}", 'conforming encoding rejected by Cell.from_boc', inp, 'exception', 'roots')
        return data
    exp_hashes = [spec[r].hash() for r in case['roots']]
    if len(res) != len(exp_hashes) or [c.hash for c in res] != exp_hashes:
        ctx.fail(f"roots:{fr['magic']}", 'parser returned other roots than the encoding denotes', inp,
                 [c.hash.hex() for c in res], [h.hex() for h in exp_hashes])
    elif not all(same_structure(c, nodes, r) for c, r in zip(res, case['roots'])):
        ctx.fail(f"structure:{fr['magic']}", 'parsed cells differ in bits/type/references from the denoted cells', inp)
    elif corr_model:
        corr(ctx, data, res, f'accept [{tag}]')
    return data


# ----------------------------------------------------------------------------- negative streams

def must_reject(ctx, data, key, what, inp, corr_model=True):
    res = lib_parse(data)
    if res is not None:
        ctx.fail(key, what, dict(inp, boc=data.hex(), expect='reject'), 'accepted: ' + canon(res)[:300], 'exception')
    elif corr_model:
        corr(ctx, data, None, key)
    return res is None


def trunc_ext(ctx, case, data, tag):
    inp = case_input(case, tag=tag, original=data.hex())
    for k in range(len(data)):
        ctx.case(('trunc', data, k), nontrivial=k > 0)
        ctx.count('truncation')
        must_reject(ctx, data[:k], f'trunc:{case["fr"]["magic"]}', f'truncated encoding ({k} of {len(data)} bytes) accepted', inp)
    for k in range(1, 9):
        ext = bytes(ctx.rng.randrange(256) for _ in range(k)) if k % 2 else bytes(k)
        ctx.case(('ext', data, ext))
        ctx.count('extension')
        must_reject(ctx, data + ext, f'ext:{case["fr"]["magic"]}', f'encoding extended by {k} bytes accepted', inp)


def flips(ctx, case, data, tag):
    inp = case_input(case, tag=tag, original=data.hex())
    for bit in range(8 * len(data)):
        d = bytearray(data)
        d[bit // 8] ^= 128 >> (bit % 8)
        ctx.case(('flip', data, bit))
        ctx.count('bitflip')
        region = 'magic' if bit < 32 else 'flags' if bit < 48 else 'crc' if bit >= 8 * (len(data) - 4) else 'body'
        ctx.count('bitflip:' + region)
        must_reject(ctx, bytes(d), f'flip:{region}', f'CRC-protected encoding accepted after flipping bit {bit}', dict(inp, bit=bit))


def bad_refs(ctx, rng, case, tag):
    """rewrite one reference: dangling (>= cells), backward (< own position), self"""
    recs, fr = case['recs'], case['fr']
    n = len(recs)
    cands = [p for p, r in enumerate(recs) if r['refs']]
    if not cands:
        return
    for kind in ('dangling', 'dangling-max', 'backward', 'self'):
        p = rng.choice(cands)
        if kind == 'backward':
            ps = [q for q in cands if q > 0]
            if not ps:
                continue
            p = rng.choice(ps)
        j = rng.randrange(len(recs[p]['refs']))
        if kind == 'dangling':
            v = n + rng.choice([0, 0, 1, rng.randrange(0, 5)])
        elif kind == 'dangling-max':
            v = 256 ** fr['size'] - 1
        elif kind == 'backward':
            v = rng.randrange(p)
        else:
            v = p
        if v >= 256 ** fr['size']:
            continue
        recs2 = [dict(r) for r in recs]
        recs2[p] = dict(recs[p], refs=list(recs[p]['refs']))
        recs2[p]['refs'][j] = v
        data = py_encode(recs2, case['rpos'], fr)
        ctx.case(('badref', data))
        ctx.count('badref:' + kind)
        must_reject(ctx, data, f'badref:{kind}', f'{kind} reference (cell {p} ref {j} -> {v} of {n} cells) accepted',
                    case_input(case, tag=tag, cell=p, ref=j, value=v))


def bad_roots_magic(ctx, rng, case, data, tag):
    fr = case['fr']
    n = len(case['recs'])
    inp = case_input(case, tag=tag)
    if fr['magic'] == 'g':
        for v in (n, n + 1, 256 ** fr['size'] - 1):
            if v < 256 ** fr['size'] and v >= n:
                rp = list(case['rpos'])
                rp[rng.randrange(len(rp))] = v
                d = py_encode(case['recs'], rp, fr)
                ctx.case(('badroot', d))
                ctx.count('badroot')
                must_reject(ctx, d, 'badroot', f'root index {v} >= cells {n} accepted', dict(inp, root=v))
    else:
        # legacy constructors: roots field must be 1
        pass
    for m in (bytes(4), b'\xb5\xee\x9c\x73', b'\x68\xff\x65\xf2', b'\xac\xc3\xa7\x29', b'\xff\xff\xff\xff', bytes([data[1], data[0], data[2], data[3]])):
        d = m + data[4:]
        ctx.case(('badmagic', d))
        ctx.count('badmagic')
        must_reject(ctx, d, 'badmagic', f'unknown magic {m.hex()} accepted', dict(inp, magic=m.hex()))


def mutations(ctx, rng, data, tag, k):
    """random byte/bit mutations: correspondence only (accept/reject + roots must agree with the model)"""
    for _ in range(k):
        d = bytearray(data)
        for _ in range(rng.choice([1, 1, 1, 2, 3])):
            if not d:
                break
            m = rng.randrange(6)
            i = rng.randrange(len(d))
            if m == 0:
                d[i] ^= 1 << rng.randrange(8)
            elif m == 1:
                d[i] = rng.randrange(256)
            elif m == 2:
                d[i] = (d[i] + rng.choice([1, 255])) % 256
            elif m == 3:
                del d[i]
            elif m == 4:
                d.insert(i, rng.randrange(256))
            else:
                i = rng.randrange(min(len(d), 12))   # header bytes
                d[i] = rng.choice([0, 1, 2, 3, 4, 5, 7, 8, 9, 16, 32, 64, 128, 255, d[i] ^ (1 << rng.randrange(8))])
        d = bytes(d)
        ctx.case(('mut', d), nontrivial=False)
        ctx.count('mutation')
        res = lib_parse(d)
        ctx.count('mutation-accepted' if res is not None else 'mutation-rejected')
        corr(ctx, d, res, f'mutation of [{tag}]')


def refresh_crc(d):
    return d[:-4] + crc32c_bitwise(d[:-4])


# ----------------------------------------------------------------------------- hand-made inputs (model/library correspondence)

HAND = [
    '', 'b5', 'b5ee9c72', 'b5ee9c7201', 'b5ee9c720101',
    'b5ee9c72010200000000 00', 'b5ee9c7201020000000000',                       # empty bag: 0 cells, 0 roots
    'b5ee9c7201010101000300 0002aa', 'b5ee9c7201010101000300 000100', 'b5ee9c7201010101000300 000180',
    'b5ee9c72010102010 00a00 05000101010101 0002aa', 'b5ee9c72010102010 00c00 070001010101010101 0002aa',   # 5 and 7 references
    'b5ee9c72010101010005000002aaffff',                                          # slack inside the cell data
    'b5ee9c72190101010003000002aa', 'b5ee9c72210101010003000002aa',              # flag bits, cache bits without index
    'b5ee9c72010101010004000802ffaa', 'b5ee9c72010101010004000802 7faa', 'b5ee9c7201010101000400 0802 80aa',   # exotic type bytes
    'b5ee9c72010101010103000002aa',                                              # absent = 1
    'b5ee9c7201010102000300 000002aa',                                           # the same root twice
    'b5ee9c72000101010003000002aa', 'b5ee9c72050000000001000000000100000000000300000000000002aa',   # size 0, size 5
    'b5ee9c72010001010000 0002aa', 'b5ee9c728100010100000002aa',                 # off_bytes 0
    '68ff65f3010101010003030002aa', '68ff65f3010101020003030002aa', '68ff65f3010101000003030002aa',
    'b5ee9c7201010101000300 1702aa', 'b5ee9c72010101010003001700aa',             # absent cell marker
    'b5ee9c720101010100030000ff' + 'aa' * 3,                                     # cell data shorter than d2 says
]


def hand_cases(ctx):
    for h in HAND:
        d = bytes.fromhex(h.replace(' ', ''))
        ctx.case(('hand', d), nontrivial=False)
        ctx.count('hand')
        corr(ctx, d, lib_parse(d), 'hand-made input')
    # 1023 / 1024 data bits
    for last in ('81', '80', '00', '01'):
        d = bytes.fromhex('b5ee9c72010201010000820000ff' + '11' * 127 + last)
        ctx.case(('hand', d), nontrivial=False)
        corr(ctx, d, lib_parse(d), 'd2=255')
    # self reference with every cell type
    for body in ('0100' + '00', '0908' + '02' + '00' * 0, '0942' + '02' + '00' * 32, '0946' + '03' + '00' * 34, '0924' + '0101' + '00' * 34):
        rec = bytes.fromhex(body)
        d = bytes.fromhex('b5ee9c7201010101') + bytes([0, len(rec), 0]) + rec
        ctx.case(('hand', d), nontrivial=False)
        must_reject(ctx, d, 'badref:self', 'self reference accepted', {'tag': 'self-reference by cell type'})


def text_forms(ctx, data, tag):
    """Boc.__init__ form detection on canonical texts: hex (lower/upper), base64"""
    res = lib_parse(data)
    for form, s in (('hex', data.hex()), ('HEX', data.hex().upper()), ('b64', base64.b64encode(data).decode())):
        r2 = lib_parse(s)
        ctx.case(('form', form, data), nontrivial=False)
        ctx.count('form:' + form)
        if (res is None) != (r2 is None) or (res is not None and [c.hash for c in res] != [c.hash for c in r2]):
            ctx.fail(f'form:{form}', f'{form} text of an encoding parses differently from the bytes', {'boc': data.hex(), 'text': s, 'tag': tag})
        elif s:
            ctx.expect_model('bocparsestr ' + s, 'err' if r2 is None else 'ok ' + canon(r2), f'text form {form}')


# ----------------------------------------------------------------------------- special shapes

def wide_bag(rng, n_leaves):
    """n_leaves distinct leaves under a tree of 4-ary parents"""
    nodes = [(G.ORD, format(i, '020b'), ()) for i in range(n_leaves)]
    level = list(range(n_leaves))
    while len(level) > 1:
        nxt = []
        for i in range(0, len(level), 4):
            nodes.append((G.ORD, '', tuple(level[i:i + 4])))
            nxt.append(len(nodes) - 1)
        level = nxt
    return nodes


def exact_cells(rng, n):
    """a DAG with exactly n distinct cells reachable from the last node"""
    nodes = [(G.ORD, format(i, '016b'), ((i - 1,) if i else ())) for i in range(n)]
    return nodes


def tuned_tot(rng, target):
    """single-root bag whose cell data (size 1, no stored hashes) is exactly `target` bytes"""
    nodes = []
    total = 0
    while target - total > 130:
        nodes.append((G.ORD, G.rand_bits(rng, 8 * 100), tuple([len(nodes) - 1] if nodes else [])))
        total += 2 + 100 + (1 if len(nodes) > 1 else 0)
    rest = target - total - 2 - (1 if nodes else 0)
    nodes.append((G.ORD, G.rand_bits(rng, 8 * rest), tuple([len(nodes) - 1] if nodes else [])))
    return nodes


# ----------------------------------------------------------------------------- maximal records

def maximal_records(rng, full=True):
    """Class "maximal records": for every freedom of a foreign encoder that makes one cell record longer - stored hashes
    (none / only that cell / all), every level mask 0..7 (1..4 stored (hash, depth) pairs), every reference count, every
    reference width size_bytes 1..4 - the ordinary cell with the LARGEST possible record (1023 data bits = 128 data bytes,
    4 references) and its neighbours one step below in every dimension (1017 bits = last length of 128 bytes, 1016 = first of
    127, one reference fewer), plus one interior record.  A mask m > 0 on an ordinary cell is obtained from a pruned-branch
    child of mask m.  The big cell is the root or sits under a small parent (so it is not the first record of the cell data).
    -> [(tag, nodes, order, roots, size, magic, store)]"""
    out = []
    for mask in range(8):
        k = G.popcount(mask)
        for size in (1, 2, 3, 4):
            shapes = [(1023, 4), (1017, 4), (1016, 4), (1023, 3), (rng.randrange(1, 1016), rng.randrange(1 if mask else 0, 5))]
            if full:
                shapes += [(rng.randrange(1017, 1024), 4), (1023, rng.randrange(1 if mask else 0, 3))]
            for nb, nr in shapes:
                nodes = []
                if mask:
                    nodes.append((G.PRUNED, G.pruned_bits(mask, [rng.randbytes(32) for _ in range(k)],
                                                          [rng.randrange(1000) for _ in range(k)]), ()))
                while len(nodes) < nr:
                    nodes.append((G.ORD, G.rand_bits(rng, rng.choice([0, 1, 8, 9, 1023]) if len(nodes) == nr - 1 else rng.randrange(0, 40)), ()))
                kids = list(range(nr))
                rng.shuffle(kids)
                nodes.append((G.ORD, G.rand_bits(rng, nb - 1) + '1' if rng.random() < 0.5 else G.rand_bits(rng, nb), tuple(kids)))
                big = len(nodes) - 1
                top = big
                if rng.random() < 0.5:
                    nodes.append((G.ORD, G.rand_bits(rng, rng.randrange(0, 16)), (big,)))
                    top = len(nodes) - 1
                order = list(range(len(nodes) - 1, -1, -1))
                tail = order[order.index(big) + 1:]
                rng.shuffle(tail)
                order = order[:order.index(big) + 1] + tail
                for sm in (('all', 'big') if not full and (nb, nr) != (1023, 4) else ('all', 'big', 'none')):
                    store = [sm == 'all' or (sm == 'big' and nid == big) for nid in order]
                    magic = 'gic'[(mask + size + nb + nr + len(sm)) % 3]
                    out.append((f'max-m{mask}-s{size}-b{nb}-r{nr}-{sm}{"-p" if top != big else ""}', nodes, order, [top], size, magic, store))
    return out



# ----------------------------------------------------------------------------- search after a broken source obligation

def boundary_inputs(rng):
    """Conforming bags written with every constructor / flag / width combination, and their corruptions, each with the
    oracle that judges it: [(tag, bytes, oracle(ctx))]."""
    out = []
    dags = [[(G.ORD, '10101010', ())],
            [(G.ORD, '', ()), (G.ORD, G.rand_bits(rng, 13), (0,)), (G.ORD, G.rand_bits(rng, 24), (1, 0))],
            [(G.ORD, format(k, '03b'), ()) for k in range(4)] + [(G.ORD, G.rand_bits(rng, 9), (0, 1, 2, 3))]]
    for di, nodes in enumerate(dags):
        spec = G.spec_dag(nodes)
        n = len(nodes)
        order = list(range(n - 1, -1, -1))
        recs = listing(nodes, spec, order)
        for magic in 'gic':
            for size in (1, 2, 4):
                for off in (1, 2, 8):
                    combos = [(i, c, k) for i in (False, True) for c in (False, True) for k in ((False, True) if i else (False,))] \
                        if magic == 'g' else [(True, False, False)]
                    for idx, crc, cache in combos:
                        roots_sets = [[n - 1]] + ([[n - 1, 0]] if magic == 'g' and n > 1 and size == 1 else [])
                        for roots in roots_sets:
                            fr = dict(magic=magic, size=size, off=off, idx=idx, crc=crc, cache=cache, store=[], cflags=[])
                            case = dict(nodes=nodes, order=order, roots=roots, recs=recs, rpos=[order.index(r) for r in roots], fr=fr)
                            data = py_encode(recs, case['rpos'], fr)
                            tag = f'src-{magic}-{size}-{off}-{int(idx)}{int(crc)}{int(cache)}-d{di}r{len(roots)}'
                            out.append((tag, data, lambda ctx, case=case, spec=spec, tag=tag: check_accept(ctx, case, spec, tag, use_lean_encoder=False)))
                            with_crc = crc if magic == 'g' else magic == 'c'
                            if di == 0 or (size == 1 and off == 1):
                                inp = case_input(case, tag=tag, original=data.hex())
                                for k in range(len(data)):
                                    out.append((tag + f'-trunc{k}', data[:k],
                                                lambda ctx, d=data[:k], k=k, inp=inp, m=magic, L=len(data): must_reject(
                                                    ctx, d, f'trunc:{m}', f'truncated encoding ({k} of {L} bytes) accepted', inp)))
                                for ext in (b'\x00', b'\xff\x00', bytes(4)):
                                    out.append((tag + f'-ext{len(ext)}', data + ext,
                                                lambda ctx, d=data + ext, inp=inp, m=magic, e=len(ext): must_reject(
                                                    ctx, d, f'ext:{m}', f'encoding extended by {e} bytes accepted', inp)))
                                if with_crc and di == 0 and size == 1:
                                    for bit in range(8 * len(data)):
                                        d = bytearray(data)
                                        d[bit // 8] ^= 128 >> (bit % 8)
                                        region = 'magic' if bit < 32 else 'flags' if bit < 48 else 'crc' if bit >= 8 * (len(data) - 4) else 'body'
                                        out.append((tag + f'-flip{bit}', bytes(d),
                                                    lambda ctx, d=bytes(d), bit=bit, inp=inp, region=region: must_reject(
                                                        ctx, d, f'flip:{region}', f'CRC-protected encoding accepted after flipping bit {bit}', dict(inp, bit=bit))))
    # stored hashes with every level mask, exotic cells, references of every width (first part of deserialize_cell)
    for mask in range(1, 8):
        k = G.popcount(mask)
        nodes = [(G.PRUNED, G.pruned_bits(mask, [rng.randbytes(32) for _ in range(k)], [rng.randrange(1000) for _ in range(k)]), ()),
                 (G.ORD, G.rand_bits(rng, 1 + mask), (0,)),
                 (G.ORD, G.rand_bits(rng, 8 * (mask % 3)), (1, 0))]
        spec = G.spec_dag(nodes)
        order = [2, 1, 0]
        recs = listing(nodes, spec, order)
        for magic in 'gic':
            for store in ([True, True, True], [False, True, False], []):
                size = 1 + mask % 4
                fr = dict(magic=magic, size=size, off=2 + mask % 3, idx=bool(mask % 2), crc=bool(mask & 2), cache=False, store=store, cflags=[])
                case = dict(nodes=nodes, order=order, roots=[2], recs=recs, rpos=[0], fr=fr)
                data = py_encode(recs, [0], fr)
                tag = f'src-cell-mask{mask}-{magic}-{"".join(str(int(x)) for x in store) or "-"}'
                out.append((tag, data, lambda ctx, case=case, spec=spec, tag=tag: check_accept(ctx, case, spec, tag, use_lean_encoder=False)))
                if magic == 'g' and store and all(store):
                    inp = case_input(case, tag=tag, original=data.hex())
                    for k2 in range(len(data) - 80, len(data)):
                        out.append((tag + f'-trunc{k2}', data[:k2],
                                    lambda ctx, d=data[:k2], k2=k2, inp=inp, L=len(data): must_reject(
                                        ctx, d, 'trunc:g', f'truncated encoding ({k2} of {L} bytes) accepted', inp)))
    return out


def cell_records(rng):
    """boundary cell records for the Lean comparison of the first part of deserialize_cell"""
    return [(d, sz) for _, d, sz in bocheader.cell_cases(rng)]


def cell_grid(rng):
    """Conforming bags that exercise the SECOND half of deserialize_cell and the loops of deserialize: every data length around
    the byte boundaries with every kind of tail, exotic type bytes, 0-4 references of every width, several roots, shared and
    unreferenced cells, every forward order of a small DAG.  -> [(tag, bytes, oracle(ctx), [(record bytes, size)])]"""
    out = []

    def add(tag, nodes, order, roots, size, off=2, magic='g', idx=False, crc=False, store=()):
        spec = G.spec_dag(nodes)
        recs = listing(nodes, spec, order)
        fr = dict(magic=magic, size=size, off=off, idx=idx, crc=crc, cache=False, store=list(store), cflags=[])
        case = dict(nodes=nodes, order=order, roots=roots, recs=recs, rpos=[order.index(r) for r in roots], fr=fr)
        data = py_encode(recs, case['rpos'], fr)
        raw = [(enc_record(r, size, fr['store'][k] if k < len(fr['store']) else False), size) for k, r in enumerate(recs)]
        out.append((tag, data, lambda ctx, case=case, spec=spec, tag=tag: check_accept(ctx, case, spec, tag, use_lean_encoder=False), raw))

    for n in list(range(0, 26)) + [63, 64, 65, 1015, 1016, 1017, 1018, 1019, 1020, 1021, 1022, 1023]:
        pats = {'0' * n, '1' * n, G.rand_bits(rng, n), ('01' * n)[:n], ('10' * n)[:n], '1' * max(0, n - 1) + '0' * min(1, n),
                '0' * max(0, n - 1) + '1' * min(1, n), '1' + '0' * max(0, n - 1) if n else ''}
        for k, bits in enumerate(sorted(pats)):
            add(f'src-bits{n}-{k}', [(G.ORD, bits, ())], [0], [0], 1, magic='gic'[(n + k) % 3])
    leaves = [(G.ORD, format(k, '05b'), ()) for k in range(4)]
    for k in range(1, 5):
        for size in (1, 2, 3, 4):
            nodes = leaves + [(G.ORD, G.rand_bits(rng, 3 * k), tuple(range(k)))]
            add(f'src-refs{k}-size{size}', nodes, [4, 3, 2, 1, 0], [4], size, off=1 + size % 3, idx=bool(k % 2), crc=bool(size % 2))
            add(f'src-refs{k}-size{size}-rev', nodes, [4, 0, 1, 2, 3], [4], size)
    # shared children, several roots, an unreferenced cell, a root that is also a child
    nodes = [(G.ORD, '1', ()), (G.ORD, '01', (0, 0)), (G.ORD, '001', (1, 0)), (G.ORD, '0001', ())]
    for order in ([2, 1, 0, 3], [3, 2, 1, 0], [2, 3, 1, 0], [2, 1, 3, 0]):
        for roots in ([2], [2, 3], [3, 2], [2, 1], [1, 2, 0], [0], [2, 2]):
            add(f'src-dag-{"".join(map(str, order))}-{"".join(map(str, roots))}', nodes, order, roots, 1)
    # exotic cells: library cell, pruned branches of every mask under ordinary parents, Merkle proofs / updates
    add('src-lib', [(G.LIB, G.bytes_to_bits(bytes([2]) + rng.randbytes(32)), ())], [0], [0], 1)
    add('src-lib-parent', [(G.LIB, G.bytes_to_bits(bytes([2]) + rng.randbytes(32)), ()), (G.ORD, '1', (0,))], [1, 0], [1], 2)
    for mask in range(1, 8):
        k = G.popcount(mask)
        nodes = [(G.PRUNED, G.pruned_bits(mask, [rng.randbytes(32) for _ in range(k)], [rng.randrange(1000) for _ in range(k)]), ()),
                 (G.ORD, G.rand_bits(rng, mask), (0,))]
        add(f'src-pruned{mask}', nodes, [1, 0], [1], 1 + mask % 2, store=[bool(mask & 1), bool(mask & 2)])
    for t in range(12):
        db = G.DagBuilder()
        top = G.gen_exotic_tree(rng, db, rng.choice([0, 1, 1, 2]), rng.randrange(2, 7))
        if db.ok(top):
            members = sorted(reachable(db.nodes, [top]))
            add(f'src-exotic{t}', db.nodes, random_order(rng, db.nodes, set(members), first=top), [top], 1 + t % 2, magic='gic'[t % 3])
    # maximal records: the longest record every encoder freedom allows, and its neighbours
    state = rng.getstate()              # the grids built after this one keep their own draws
    for tag, nodes, order, roots, size, magic, store in maximal_records(rng, full=False):
        add('src-' + tag, nodes, order, roots, size, off=2, magic=magic, idx=magic != 'g', store=store)
    rng.setstate(state)
    return out


def boundary_dags(rng):
    """the single-root DAGs of cell_grid as (tag, nodes, root): for the round-trip oracle of C03"""
    out = []
    for n in list(range(0, 26)) + [63, 64, 65, 1015, 1016, 1017, 1018, 1019, 1020, 1021, 1022, 1023]:
        for bits in sorted({'0' * n, '1' * n, G.rand_bits(rng, n), ('01' * n)[:n], '0' * max(0, n - 1) + '1' * min(1, n)}):
            out.append((f'src-bits{n}', [(G.ORD, bits, ())], 0))
    leaves = [(G.ORD, format(k, '05b'), ()) for k in range(4)]
    for k in range(1, 5):
        out.append((f'src-refs{k}', leaves + [(G.ORD, G.rand_bits(rng, 3 * k), tuple(range(k)))], 4))
    out.append(('src-dag', [(G.ORD, '1', ()), (G.ORD, '01', (0, 0)), (G.ORD, '001', (1, 0))], 2))
    out.append(('src-lib', [(G.LIB, G.bytes_to_bits(bytes([2]) + rng.randbytes(32)), ())], 0))
    for t in range(12):
        db = G.DagBuilder()
        top = G.gen_exotic_tree(rng, db, rng.choice([0, 1, 1, 2]), rng.randrange(2, 7))
        if db.ok(top):
            out.append((f'src-exotic{t}', db.nodes, top))
    return out


def src_search_cells(ctx):
    """A c05_src_deserialize_cell / c05_src_deserialize obligation broke: evaluate, in Lean, the regenerated cell reader against
    the hand model on the records of conforming boundary bags and on raw boundary records; judge the bags that contain a
    differing record first, then all of them."""
    grid = cell_grid(ctx.rng)
    recs = []
    for _, _, _, raw in grid:
        for r in raw:
            if r not in recs:
                recs.append(r)
    extra = [(d, sz) for _, d, sz in boccells.cell_cases(ctx.rng)][:600]
    differing = set(boccells.diff_cells(ctx, recs + [r for r in extra if r not in recs]))
    ctx.count('src-search-cell-grid', len(grid))
    ctx.count('src-search-whole-cell-records-differing', len(differing))
    # whole bags through the regenerated Boc.deserialize (test callback) vs the hand model: conforming grid bags and their
    # reference / root corruptions (the loops: order check, dangling / self references, root indices)
    bags = [t[1] for t in grid if len(t[1]) <= 200][:250] + [d for _, d in boccells.bag_cases(ctx.rng, 200)]
    bagdiff = set(boccells.diff_bags(ctx, bags))
    ctx.count('src-search-bags-differing', len(bagdiff))
    first = [t for t in grid if any(r in differing for r in t[3]) or t[1] in bagdiff]
    rest = [t for t in grid if not (any(r in differing for r in t[3]) or t[1] in bagdiff)]
    for tag, d, oracle, _ in first + rest:
        ctx.case(('src', d), nontrivial=False)
        oracle(ctx)
        if len(ctx.failures) >= 3:
            break
    if not ctx.failures:
        # corruptions of the small DAG bags: every reference rewritten to a backward / self / dangling position, every root
        # rewritten to an index behind the last cell - each must be rejected
        for (tag, case) in cell_grid_cases(ctx.rng):
            for kind in ('dangling', 'backward', 'self'):
                bad_refs_all(ctx, case, tag, kind)
            if len(ctx.failures) >= 3:
                break
    return bool(ctx.failures)


def cell_grid_cases(rng):
    """the small DAG / reference cases of cell_grid as case dicts (for reference and root corruptions)"""
    out = []
    leaves = [(G.ORD, format(k, '05b'), ()) for k in range(4)]
    shapes = [(leaves + [(G.ORD, '101', tuple(range(k)))], [4, 3, 2, 1, 0], [4]) for k in range(1, 5)]
    nodes = [(G.ORD, '1', ()), (G.ORD, '01', (0, 0)), (G.ORD, '001', (1, 0)), (G.ORD, '0001', ())]
    shapes += [(nodes, order, roots) for order in ([2, 1, 0, 3], [3, 2, 1, 0], [2, 3, 1, 0]) for roots in ([2], [2, 3], [1, 2, 0])]
    for t, (nodes, order, roots) in enumerate(shapes):
        spec = G.spec_dag(nodes)
        recs = listing(nodes, spec, order)
        for size in (1, 2):
            fr = dict(magic='g', size=size, off=2, idx=False, crc=False, cache=False, store=[], cflags=[])
            out.append((f'src-corrupt{t}-{size}', dict(nodes=nodes, order=order, roots=roots, recs=recs, rpos=[order.index(r) for r in roots], fr=fr)))
    return out


def bad_refs_all(ctx, case, tag, kind):
    """every reference of every record rewritten (one at a time): dangling (= cells), backward (= 0 for a record behind
    position 0 / own position - 1), self (= own position); every root rewritten to `cells`"""
    recs, fr = case['recs'], case['fr']
    n = len(recs)
    for p, r in enumerate(recs):
        for j in range(len(r['refs'])):
            v = n if kind == 'dangling' else p if kind == 'self' else p - 1
            if v < 0:
                continue
            recs2 = [dict(x) for x in recs]
            recs2[p] = dict(r, refs=list(r['refs']))
            recs2[p]['refs'][j] = v
            data = py_encode(recs2, case['rpos'], fr)
            ctx.case(('badref', data))
            must_reject(ctx, data, f'badref:{kind}', f'{kind} reference (cell {p} ref {j} -> {v} of {n} cells) accepted',
                        case_input(case, tag=tag, cell=p, ref=j, value=v))
    if kind == 'dangling':
        for j in range(len(case['rpos'])):
            rp = list(case['rpos'])
            rp[j] = n
            data = py_encode(recs, rp, fr)
            ctx.case(('badroot', data))
            must_reject(ctx, data, 'badroot', f'root index {n} >= cells {n} accepted', case_input(case, tag=tag, root=n))


def src_search(ctx):
    """A c05_src_* obligation broke: evaluate, in Lean, the regenerated header parser against the hand model on boundary
    bags and their corruptions; judge the differing inputs first (conformance / rejection oracle), then the whole grid."""
    grid = boundary_inputs(ctx.rng)
    seen = set()
    uniq = []
    for t in grid:
        if t[1] not in seen:
            seen.add(t[1])
            uniq.append(t)
    differing = {d for _, d in bocheader.diff_inputs(ctx, [(t, d) for t, d, _ in uniq])}
    ctx.count('src-search-cell-records-differing', len(bocheader.diff_cells(ctx, cell_records(ctx.rng))))
    ctx.count('src-search-grid', len(uniq))
    ctx.count('src-search-differing', len(differing))
    first = [t for t in uniq if t[1] in differing]
    rest = [t for t in uniq if t[1] not in differing]
    for tag, d, oracle in first + rest:
        ctx.case(('src', d), nontrivial=False)
        oracle(ctx)
        if ctx.failures and tag.count('-') >= 0 and len(ctx.failures) >= 3:
            break
    return bool(ctx.failures)


# ----------------------------------------------------------------------------- run

def run(ctx):
    rng = ctx.rng
    if ctx.search and (src_search_cells(ctx) or src_search(ctx)):
        return
    hand_cases(ctx)

    n_pos = ctx.n(700, 4000)
    n_trunc = ctx.n(40, 150)
    n_flip = ctx.n(24, 60)
    flip_limit = 2000 if ctx.thorough else 200
    done_trunc = done_flip = 0
    for t in range(n_pos):
        nodes, spec = gen_dag(rng)
        small = t % 3 == 0
        case = gen_bag(rng, nodes, spec, small=small)
        if case is None:
            continue
        tag = f'bag{t}'
        data = check_accept(ctx, case, spec, tag)
        fr = case['fr']
        bad_refs(ctx, rng, case, tag)
        if t % 4 == 0:
            bad_roots_magic(ctx, rng, case, data, tag)
        if t % 25 == 0:
            text_forms(ctx, data, tag)
        if done_trunc < n_trunc and len(data) <= (400 if ctx.thorough else 120):
            trunc_ext(ctx, case, data, tag)
            done_trunc += 1
        with_crc = fr['crc'] if fr['magic'] == 'g' else fr['magic'] == 'c'
        if not with_crc and done_flip < n_flip and len(data) + 4 <= flip_limit and t % 2 == 0:
            # make it CRC-protected
            case2 = dict(case, fr=dict(fr, crc=True) if fr['magic'] == 'g' else dict(fr, magic='c'))
            data2 = py_encode(case2['recs'], case2['rpos'], case2['fr'])
            if lib_parse(data2) is not None:
                flips(ctx, case2, data2, tag + '+crc')
                done_flip += 1
        elif with_crc and done_flip < n_flip and len(data) <= flip_limit:
            flips(ctx, case, data, tag)
            done_flip += 1
        mutations(ctx, rng, data, tag, ctx.n(6, 12))
        if with_crc and t % 3 == 0:
            # mutate below a recomputed CRC: the CRC does not hide what the parser does with the body
            for _ in range(3):
                d = bytearray(data)
                i = rng.randrange(4, len(d) - 4)
                d[i] = rng.randrange(256)
                d = refresh_crc(bytes(d))
                ctx.case(('mutcrc', d), nontrivial=False)
                ctx.count('mutation-under-crc')
                corr(ctx, d, lib_parse(d), f'mutation under recomputed crc [{tag}]')

    # tiny bags written with every admissible size / off_bytes (header pre-check must not ask for more bytes than the format has)
    for bits in ('', '1', '10101010', G.rand_bits(rng, 24)):
        nodes = [(G.ORD, bits, ())]
        spec = G.spec_dag(nodes)
        recs = listing(nodes, spec, [0])
        for magic in 'gic':
            for size in (1, 2, 3, 4):
                for off in ((1, 8) if size < 4 else (1, 2, 3, 8)):
                    for idx in ((False, True) if magic == 'g' else (True,)):
                        fr = dict(magic=magic, size=size, off=off, idx=idx, crc=False, cache=False, store=[], cflags=[])
                        case = dict(nodes=nodes, order=[0], roots=[0], recs=recs, rpos=[0], fr=fr)
                        ctx.count('tiny-wide')
                        check_accept(ctx, case, spec, f'tiny-{magic}-{size}-{off}')

    # forests: several roots that share nothing, made of tiny cells, written with every size width - fewer references and
    # fewer data bytes than any single-root bag can have (no "every cell but one is referenced" shortcut is valid)
    tiny = ['', '1', '0', '11', '1010101', '00000000', '11111111', '101010101']
    for k in (2, 3, 4, 6):
        for trial in range(ctx.n(2, 10)):
            bits = rng.sample(tiny, k) if trial else tiny[:k]
            nodes = [(G.ORD, b, ()) for b in bits]
            if trial % 2:
                nodes.append((G.ORD, '', (0,)))
            spec = G.spec_dag(nodes)
            order = list(range(len(nodes)))
            rng.shuffle(order)
            order.sort(key=lambda i: -len(nodes[i][2]))          # the parent (if any) before its child
            roots = [i for i in range(len(nodes)) if not any(i in nodes[j][2] for j in range(len(nodes)))]
            rng.shuffle(roots)
            recs = listing(nodes, spec, order)
            pos = {nid: p_ for p_, nid in enumerate(order)}
            for size in (1, 2, 3, 4):
                for off in (1, rng.choice([2, 4, 8])):
                    fr = dict(magic='g', size=size, off=off, idx=rng.random() < 0.5, crc=rng.random() < 0.5, cache=False, store=[], cflags=[])
                    case = dict(nodes=nodes, order=order, roots=roots, recs=recs, rpos=[pos[r] for r in roots], fr=fr)
                    ctx.count('forest-tiny')
                    check_accept(ctx, case, spec, f'forest-{k}-{size}-{off}')

    # stored hashes with every level mask (pruned branch + ordinary ancestors inherit the mask)
    for mask in range(1, 8):
        k = G.popcount(mask)
        nodes = [(G.PRUNED, G.pruned_bits(mask, [rng.randbytes(32) for _ in range(k)], [rng.randrange(1000) for _ in range(k)]), ()),
                 (G.ORD, G.rand_bits(rng, rng.randrange(1, 30)), (0,)),
                 (G.ORD, G.rand_bits(rng, rng.randrange(0, 30)), (1, 0))]
        spec = G.spec_dag(nodes)
        for magic in 'gic':
            order = [2, 1, 0]
            recs = listing(nodes, spec, order)
            fr = gen_freedoms(rng, recs, 1, magic=magic)
            fr['store'] = [True, rng.random() < 0.7, True]
            fr['off'] = max(fr['off'], 2)
            case = dict(nodes=nodes, order=order, roots=[2], recs=recs, rpos=[0], fr=fr)
            ctx.count('stored-hashes-targeted')
            check_accept(ctx, case, spec, f'stored-mask{mask}-{magic}')

    # maximal records: for every encoder freedom the longest possible cell record (and its neighbours)
    state_before_maximal = rng.getstate()      # the streams below keep their own draws
    for tag, nodes, order, roots, size, magic, store in maximal_records(rng):
        spec = G.spec_dag(nodes)
        recs = listing(nodes, spec, order)
        fr = gen_freedoms(rng, recs, 1, magic=magic)
        fr['size'] = size
        fr['store'] = store
        tot = sum(len(enc_record(r, size, store[k])) for k, r in enumerate(recs))
        fr['off'] = max(fr['off'], min_bytes(2 * tot + 1))
        case = dict(nodes=nodes, order=order, roots=roots, recs=recs, rpos=[order.index(r) for r in roots], fr=fr)
        big = max(len(enc_record(r, size, store[k])) for k, r in enumerate(recs))
        ctx.count('maximal-record')
        ctx.count('maximal-record-slack:%d' % min(2 + 4 * 34 + 128 + 4 * size - big, 9))
        check_accept(ctx, case, spec, tag, use_lean_encoder=tag.endswith(('all', 'all-p')) and '-b1023-r4' in tag)
    rng.setstate(state_before_maximal)

    # minimal-width boundaries: 255 / 256 / 257 cells; cell data of 255 / 256 bytes
    for n in (255, 256, 257):
        nodes = exact_cells(rng, n)
        spec = G.spec_dag(nodes)
        for legacy in (False, True):
            order = list(range(n - 1, -1, -1))
            recs = listing(nodes, spec, order)
            fr = gen_freedoms(rng, recs, 1, magic=rng.choice('ic') if legacy else 'g', minimal=True)
            case = dict(nodes=nodes, order=order, roots=[n - 1], recs=recs, rpos=[0], fr=fr)
            ctx.count(f'cells={n}')
            data = check_accept(ctx, case, spec, f'cells{n}', use_lean_encoder=False)
            if fr['size'] > 1:
                fr1 = dict(fr, size=1)
                d1 = py_encode(recs, [0], fr1)
                corr(ctx, d1, lib_parse(d1), 'size too narrow for the cell count')
    for target in (254, 255, 256, 257, 127, 128):
        nodes = tuned_tot(rng, target)
        spec = G.spec_dag(nodes)
        n = len(nodes)
        order = list(range(n - 1, -1, -1))
        recs = listing(nodes, spec, order)
        for cache in (False, True):
            fr = dict(magic='g', size=1, off=1, idx=True, crc=bool(cache), cache=cache, store=[], cflags=[True] * n)
            tot = sum(len(enc_record(r, 1, False)) for r in recs)
            assert tot == target, (tot, target)
            fr['off'] = min_bytes(2 * tot + 1 if cache else tot)
            case = dict(nodes=nodes, order=order, roots=[n - 1], recs=recs, rpos=[0], fr=fr)
            ctx.count(f'tot={target}')
            check_accept(ctx, case, spec, f'tot{target}')

    # deep chains and big bags (parser is iterative)
    for depth in ((200, 1023) if not ctx.thorough else (200, 1023, 1024)):
        nodes = G.chain(depth, '1')
        spec = G.spec_dag(nodes)
        valid = [k for k, s in enumerate(spec) if s is not None and s.valid]
        top = valid[-1]
        order = list(range(top, -1, -1))
        recs = listing(nodes, spec, order)
        fr = gen_freedoms(rng, recs, 1, minimal=True)
        case = dict(nodes=nodes, order=order, roots=[top], recs=recs, rpos=[0], fr=fr)
        check_accept(ctx, case, spec, f'chain{depth}', use_lean_encoder=False)
    nodes = wide_bag(rng, ctx.n(300, 3000))
    spec = G.spec_dag(nodes)
    n = len(nodes)
    order = random_order(rng, nodes, set(range(n)))
    recs = listing(nodes, spec, order)
    pos = {nid: p for p, nid in enumerate(order)}
    fr = gen_freedoms(rng, recs, 1)
    case = dict(nodes=nodes, order=order, roots=[n - 1], recs=recs, rpos=[pos[n - 1]], fr=fr)
    check_accept(ctx, case, spec, 'wide', use_lean_encoder=False)

    # the library's own emitter is one more conforming encoder
    for t in range(ctx.n(20, 100)):
        nodes, spec = gen_dag(rng)
        libs = G.lib_build(nodes)
        valid = [k for k, s in enumerate(spec) if s is not None and s.valid and libs[k] is not None]
        if not valid:
            continue
        top = valid[-1]
        for opts in ((False, False, False), (True, True, False), (True, True, True)):
            try:
                data = libs[top].to_boc(*opts)
            except Exception:
                continue
            ctx.case(('own', data))
            ctx.count('own-emitter')
            res = lib_parse(data)
            if res is None or [c.hash for c in res] != [spec[top].hash()] or not same_structure(res[0], nodes, top):
                ctx.fail('own', 'bag written by to_boc is not read back', {'dag': [list(x) for x in nodes], 'boc': data.hex(), 'expect': 'own'})
            else:
                corr(ctx, data, res, 'own emitter')


def replay(ctx, payload):
    inp = payload.get('input') or {}
    if not isinstance(inp, dict):
        return
    if inp.get('expect') == 'reject' and 'boc' in inp:
        d = bytes.fromhex(inp['boc'])
        ctx.case(('replay', d))
        must_reject(ctx, d, payload.get('key', 'replay'), payload.get('what', 'corrupt input accepted'), {k: v for k, v in inp.items() if k != 'boc'})
    elif 'dag' in inp and 'fr' in inp:
        nodes = [(k, b, tuple(r)) for k, b, r in inp['dag']]
        spec = G.spec_dag(nodes)
        order = inp['order']
        pos = {nid: p for p, nid in enumerate(order)}
        recs = listing(nodes, spec, order)
        case = dict(nodes=nodes, order=order, roots=inp['roots'], recs=recs, rpos=[pos[r] for r in inp['roots']], fr=inp['fr'])
        check_accept(ctx, case, spec, inp.get('tag', 'replay'))
    elif 'boc' in inp:
        d = bytes.fromhex(inp['boc'])
        ctx.case(('replay', d))
        corr(ctx, d, lib_parse(d), 'replay')


# ----------------------------------------------------------------------------- round 10 (st-nfif): SPEC texts of the maximal-records class
SPEC['manifest']['text'] += (' MAXIMAL RECORDS (sampled, every run): for every encoder freedom that lengthens one cell record (stored hashes none / '
                             'that cell / all, level mask 0..7, reference width 1..4) the ordinary cell with the largest possible record (1023 data bits, 4 references) '
                             'and its neighbours one step down in each dimension, as root or under a small parent - in the positive stream and in the grid the '
                             'failing-input search evaluates after a broken source obligation.')
SPEC['rule'] += ('; maximal records: masks 0..7 x size 1..4 x stored hashes (all / big cell / none) x (1023|1017|1016 bits, 4|3 refs, one interior) = 672 bags per run')
