"""C09, keys that are well-formed in TWO key forms at once (gen/twoform.py): every key is filed under its DECLARED reading only.

`HashMap.set` reads a `str` key as a bit string (`int(key, 2)`), a `bytes` key as a big-endian unsigned integer, a text with
`hash_key=True` as sha256 of its utf-8 bytes, an `Address` object as the 267-bit MsgAddressInt.  The inputs here are also
well-formed under ANOTHER reading of the same Python type: 48-character numerals (plain, signed, with blanks / underscore /
0b) that base64-decode to 34 bytes + their CRC-16 (what `Address(text)` takes for a user-friendly address), `wc:hex` raw-address
texts written with binary digits, friendly / raw address texts as hashed texts, bytes keys that are the 32 / 33 / 34 / 36 bytes of
an address or the ASCII of any of the texts.  Expectation (computed here): accepted iff the declared reading denotes 0 <= k < 2^n,
then stored under exactly k - and serialize + parse gives the map back; otherwise refused, map unchanged.

Failure keys `twoform:*`; replay kind `twoform` (one key, one width).  The keys the model's tokens can spell (pure bit strings,
bytes, hashed texts) also go through C09.run_case (all parse routes + Lean model)."""
import hashlib

from ..gen import twoform as T


def _call(f):
    try:
        return ('ok', f())
    except Exception as e:      # every exception == refused
        return ('err', type(e).__name__)


def denotes(reading, key):
    """the integer the key denotes under its declared reading (None: not a key in that reading)"""
    if reading == 'str':
        try:
            return int(key, 2)
        except ValueError:
            return None
    if reading == 'bytes':
        return int.from_bytes(key, 'big')
    if reading == 'hashed':
        return int.from_bytes(hashlib.sha256(key.encode()).digest(), 'big')
    raise ValueError(reading)


def judge(ctx, n, reading, key, style, others):
    from pytoniq_core.boc.hashmap.hashmap import HashMap
    val = denotes(reading, key)
    good = val is not None and 0 <= val < (1 << n)
    hm = HashMap(n).with_uint_values(8)
    for i, o in enumerate(others):
        hm.set_int_key(o, (i + 1) % 256)
    before = dict(hm.map)
    st, _ = _call(lambda: hm.set(key, 7, hash_key=(reading == 'hashed')))
    shown = key.hex() if isinstance(key, bytes) else key
    inp = {'kind': 'twoform', 'n': n, 'reading': reading, 'key': shown, 'style': style, 'others': [str(o) for o in others],
           'denotes': None if val is None else str(val)}
    ctx.case(('twoform', n, reading, shown, tuple(others)), nontrivial=True, sample=inp)
    ctx.count(f'twoform:{reading}:{style}:{"fits" if good else "bad"}')
    want = {**before, val: 7} if good else before
    if good and st != 'ok':
        ctx.fail(f'twoform:good-rejected:{reading}', f'the {reading} key {shown!r} denotes {val}, which fits width {n}, and was rejected', inp, 'exception', 'accepted')
        return
    if good and dict(hm.map) != want:
        ctx.fail(f'twoform:misfiled:{reading}', f'the {reading} key {shown!r} denotes {val} but the map now holds {sorted(hm.map)[:6]}', inp,
                 repr(sorted(hm.map))[:300], repr(sorted(want))[:300])
        return
    if not good and st == 'ok':
        ctx.fail(f'twoform:bad-accepted:{reading}', f'the {reading} key {shown!r} ' + ('is no key in that reading' if val is None else f'= {val} does not fit width {n}')
                 + f' and was accepted; stored keys now {sorted(hm.map)[:6]}', inp, 'accepted', 'refused')
        return
    if not good and dict(hm.map) != before:
        ctx.fail(f'twoform:bad-mutated:{reading}', 'a refused key changed the map', inp, repr(sorted(hm.map))[:300], repr(sorted(before))[:300])
        return
    if not want:
        return
    st, cell = _call(hm.serialize)
    if st != 'ok' and n > 1000:
        return              # label + value may exceed one cell: capacity is C09.run_case's question
    if st != 'ok' or cell is None:
        ctx.fail(f'twoform:roundtrip:{reading}', 'serialize() failed on a small map of fitting keys', inp, cell, 'cell')
        return
    from pytoniq_core.boc.builder import Builder
    vd = lambda s: s.load_uint(8)
    for nm, f in (('HashMap.parse', lambda: HashMap.parse(cell.begin_parse(), n, None, vd)),
                  ('load_dict', lambda: Builder().store_dict(cell).end_cell().begin_parse().load_dict(n, value_deserializer=vd))):
        st, got = _call(f)
        if st != 'ok' or list(got.items()) != sorted(want.items()):
            ctx.fail(f'twoform:roundtrip:{reading}', f'{nm}(serialize(m)) is not the map in key order', inp, repr(got)[:300], repr(sorted(want.items()))[:300])
            return


def two_form_keys(ctx, run_case=None):
    rng = ctx.rng
    strings = T.two_form_strings(rng, per_style=ctx.n(3, 12))
    raws = T.raw_address_lookalikes(rng)
    friendly = [('friendly', T.friendly(tag, wc, h, us)) for tag, wc, h, us in
                [(0x11, 0, rng.randbytes(32), True), (0x51, -1, rng.randbytes(32), True), (0x91, 0, bytes(32), False), (0x11, 127, b'\xff' * 32, True)]]

    def others(n):
        return sorted({rng.randrange(0, 1 << n) for _ in range(rng.randrange(0, 3))})

    # --- str reading
    for style, s in strings + friendly + raws:
        val = denotes('str', s)
        widths = {48, 267, rng.choice([268, 300, 512, 1000]), rng.choice([49, 64, 256])}
        if val is not None and val >= 0:
            widths |= {max(1, val.bit_length()), max(1, val.bit_length() - 1)}
        for n in sorted(widths):
            judge(ctx, n, 'str', s, style, others(n))
    # --- hashed reading: the text is hashed whatever it looks like
    for style, s in strings[::2] + friendly + raws[::5] + [('bits', '0101'), ('bits', '1' * 256)]:
        for n in (256, rng.choice([255, 128, 267, 300])):
            judge(ctx, n, 'hashed', s, style, others(n))
    # --- bytes reading: big-endian integer whatever the length / content suggests
    import base64
    byts = []
    for style, s in strings[::2] + friendly:
        byts.append((style + ':ascii', s.encode()))                      # the text as bytes (48 -> 384 bits)
        raw = base64.urlsafe_b64decode(s)
        byts += [(style + ':raw36', raw), (style + ':raw34', raw[:34]), (style + ':wc+hash', raw[1:34]), (style + ':hash', raw[2:34])]
    byts += [('bits:ascii', b'0101'), ('bits:ascii', b'1' * 8), ('raw:ascii', raws[0][1].encode())]
    for style, b in byts:
        nb = len(b) * 8
        v = int.from_bytes(b, 'big')
        for n in sorted({nb, max(1, v.bit_length()), max(1, v.bit_length() - 1), rng.choice([256, 267, 288, 300, 1000])}):
            if n <= 1023:
                judge(ctx, n, 'bytes', b, style, others(n))
    # --- the same keys through the full case runner (all parse routes, Lean model) where its tokens can spell them
    if run_case is not None:
        t = 0
        for style, s in strings:
            if style != 'bits48':
                continue
            for n in (48, 267, rng.choice([49, 64, 300, 1023])):
                t += 1
                k2 = rng.getrandbits(min(n, 48))
                ins = [(f'i:{k2}', '3'), (f's:{s}', '5'), (f's:{format(rng.getrandbits(48), "048b")}', '9')]
                rng.shuffle(ins)
                run_case(ctx, n, 'u6', ins, (), f'twoform{t}')
            run_case(ctx, 256, 'u6', [(f'h:{s.encode().hex()}', '1'), ('i:5', '2')], (), f'twoform-h{t}')
            run_case(ctx, 384, 'u6', [(f'y:{s.encode().hex()}', '1'), ('i:5', '2')], (), f'twoform-y{t}')
            raw = base64.urlsafe_b64decode(s)
            run_case(ctx, 288, 'u6', [(f'y:{raw.hex()}', '1'), (f'y:{raw[2:34].hex()}', '2')], (), f'twoform-y36{t}')


def replay_case(ctx, inp):
    key = inp['key']
    if inp['reading'] == 'bytes':
        key = bytes.fromhex(key)
    judge(ctx, inp['n'], inp['reading'], key, inp.get('style', 'replay'), [int(o) for o in inp.get('others', [])])
