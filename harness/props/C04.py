"""C04: every serialisation the library emits conforms to the TON bag-of-cells wire format.

Oracle (the property itself): the bytes `Cell.to_boc` EMITS are fed to two independent strict readers --
the Lean spec `Spec.Boc.strictRun` (driver op bocstrict) and its Python twin harness/boc_strict.py -- which must
accept and decode to exactly the DAG the library holds (hash, bits, type and references of every distinct cell).
Correspondence: the Lean emitter model (`Model.PCell.toBoc`, driver op bocemitall) produces the same bytes.
"""
import re

from ..gen import cells as G
from ..gen import bocdags as D
from .. import boc_strict as S
from ..translate import arith, bocemit

SPEC = dict(
    translators=[('cell.py to_boc widths->Generated/BocWidths.lean', arith.regenerator('BocWidths')),
                 (bocemit.TIE_NAME, bocemit.regenerate_tied)],
    lean_targets=['TonVerif.Proofs.SrcBocWidths', 'TonVerif.Proofs.SrcBocEmit', 'TonVerif.Proofs.SrcOrderAny', 'TonVerif.Proofs.SrcBocAny'],
    manifest=dict(
        category='proof',
        text='Lean proves THE PROPERTY for all inputs (c04_conforms): for every spec-valid tree of cells (ordinary, pruned, library, Merkle proof/update; any nesting and sharing; C02 TreeWF) whose exotic '
             'cells carry their type byte, under a local no-collision hypothesis on the hashes of the cells at hand and within the format\'s own limits (< 2^32 cells, < 2^63 payload bytes), for each of the 6 '
             'valid option sets: the model of Cell.order returns a valid order (root first, each distinct cell once, references strictly forward), the model of Cell.to_boc succeeds, and an independent strict '
             'reader transcribed from boc.tlb + the reference node\'s checks (flags, widths, counts, index = cumulative end offsets doubled with cache bits, CRC-32C over the whole prefix, record framing, '
             'completion tags, forward references, level bits of d1 = computed level mask, no duplicate cell, no trailing bytes) ACCEPTS the bytes and denotes exactly the same tree. '
             'Also for ALL record lists / ANY valid order: c04_conforms_flat (byte-level layer), and the named clause lemmas widths_sufficient(_emit), refs_forward, each_once(_records), '
             'index_cumulative, crc_covers_prefix, completion_tag; order_valid / order_total for the model of Cell.order (terminates with the driver\'s fuel). '
             'Every run additionally executes the Lean strict reader AND an independent Python strict reader on the bytes the LIBRARY really emits for generated DAGs x 6 option sets and compares the decoded '
             'DAG with the one the library holds; the emitter model is tied to the code byte-for-byte on the same inputs. '
             'TIE TO THE SOURCE (whole emitter): Cell.serialize, Cell.order and Cell.to_boc are REGENERATED from cell.py on every run (harness/translate/bocemit.py, pydict.py -> '
             'Generated/BocEmitSrc.lean; a constructed Cell = PCell, dicts / sets of cells = insertion-ordered association lists keyed by __hash__, while stack: with an iteration budget) and Lean '
             'proves for ALL cell objects, option sets and budgets: Cell.serialize and the layout part of Cell.to_boc equal the (order agnostic) hand model (c04_src_serialize, c04_src_to_boc_any); the '
             'regenerated Cell.order returns a VALID ORDER - root first, every distinct cell once, references strictly forward - by an invariant of its own while loop, for whichever order it pushes the '
             'references in (c04_src_order_valid_any), and terminates within 1+n+e iterations (c04_src_order_total, C19 c19_src_order_linear); composed with c04_conforms_any_order: c04_src_conforms_any_order / '
             'c04_src_conforms(_total): the strict reader accepts the bytes of the REGENERATED emitter and decodes them to the same DAG. Separately (Properties/C04Model.lean, built and audited by the '
             'translator step, not a lake target of the check): the regenerated traversal EQUALS the hand model PCell.order / PCell.toBoc (c04_src_order, c04_src_to_boc). A change of any line of these '
             'methods breaks a proof obligation; the check then compares regenerated vs hand model in Lean on boundary DAGs and judges the differing ones first. Exception, sound by construction: if ONLY '
             'the model equality of the traversal breaks while every theorem of Properties/C04.lean about the regenerated code still builds and audits (the source switched to another valid visiting '
             'order), the run reports traversal tie = valid-order-only (evidence + NOTE line) and the byte-for-byte correspondence is taken modulo a valid order (counter order-differs-from-model-but-valid).',
        level_note='Trusted: Lean kernel (propext, Classical.choice, Quot.sound); Spec/Boc.lean (+ Spec/Cell.lean, Spec/Crc.lean) as the transcription of boc.tlb, tvm.pdf 3.1.4 and the reference-node checks; '
                   'Model/BocEmit.lean: Cell.order/serialize/to_boc are proved equal to the functions regenerated from the source (trusted instead: the translator pydict.py/pyobj.py/pybytes.py, '
                   'its declared interface in bocemit.py - PCell reading of a Cell, _descriptors/_data_bytes as stored by __init__, dict keys by __hash__/__eq__, order returns the dict it fills, '
                   'crc32c = Model.crc32c - and PyDict.lean, validated against the library on every change); additionally the SAMPLED byte-for-byte correspondence '
                   '(every generated DAG x 6 option sets per run, incl. 127/128/254-257/65536 cells, payload 126..65536 bytes, depth-1023 chains, exotic cells, maximal sharing; thorough: 65535/65537/70000 cells); '
                   'Python dict/set semantics modelled by hash map/set + key list; SHA-256 is a parameter in the theorems, with a LOCAL no-collision hypothesis; theorem domain: spec-valid cells whose exotic '
                   'cells carry their type byte, < 2^32 cells, < 2^63 payload bytes; 4-byte offset widths (> 16 MB of cell data) are never sampled; the Python harness.',
        technique='Lean 4 proof (hand model proved equal to the emitter regenerated from the source on every run; independent strict-reader spec) + the strict readers run on the library\'s real output + byte-for-byte correspondence',
    ),
    design_ref='DESIGN.md §6 C04',
    rule='DAGs: hand cases, random ordinary DAGs with content duplicates, connected DAGs 2..700 cells, twin sub-DAGs, exotic trees, lattices (maximal sharing), '
         'chains to depth 1023, exactly 127/128/254..257 cells, payload exactly 126..129/254..257/32767/32768/65535/65536 bytes, one 3000-cell DAG '
         '(thorough: 65535/65536/65537/70000 cells); each x 6 option sets; distinct = distinct (dag, root, option set); non-trivial = more than one cell or non-empty data',
    trusted_base=['Spec/Boc.lean transcribes boc.tlb serialized_boc#b5ee9c72 + the reference node\'s checks (independent of the library\'s parser)',
                  'Model/BocEmit.lean: Cell.serialize / the layout of Cell.to_boc are proved equal to the functions regenerated from cell.py on every run; the regenerated Cell.order is proved to return a valid order by its own loop invariant (c04_src_order_valid_any) and, separately, equal to the hand traversal (Properties/C04Model.lean) (trusted: translator pydict.py / pyobj.py / pybytes.py, the declared interface in bocemit.py, PyDict.lean)',
                  'harness/boc_strict.py: the same strict reader in Python (replays do not depend on the driver)',
                  'SHA-256 is an abstract parameter H in all theorems; the driver uses lean/TonVerif/Sha256.lean'],
    assumptions=['correspondence is sampled differential testing of model vs library (in addition to the source tie of the emitter)',
                 'Python dict = insertion-ordered map keyed by Cell.__hash__/__eq__ (modelled by a hash set/map over pyHash + key list)',
                 'strict reader rejects stored-hash (h=1) and absent cells, which the emitter never writes'],
)

OPT_NAME = {o: '%d%d%d' % o for o in D.OPTS}


def _norm(why):
    return re.sub(r'[^a-z ]+', '', re.sub(r'\d+', '', why.lower()))[:48].strip().replace(' ', '-')


class Batch:
    """deferred driver requests with callbacks"""

    def __init__(self, ctx, limit_bytes=8_000_000):
        self.ctx = ctx
        self.items = []
        self.size = 0
        self.limit = limit_bytes

    def add(self, line, cb):
        if not self.ctx.driver_ok:
            return
        self.items.append((line, cb))
        self.size += len(line)
        if self.size > self.limit:
            self.flush()

    def flush(self):
        if not self.items:
            return
        items, self.items, self.size = self.items, [], 0
        outs = self.ctx.model.run([x[0] for x in items])
        for (line, cb), o in zip(items, outs):
            cb(o)


def emit_all(ctx, rootc, inp, opts):
    out = {}
    for o in opts:
        try:
            out[o] = rootc.to_boc(bool(o[0]), bool(o[1]), bool(o[2]))
        except Exception as e:
            ctx.fail(f'emit-raises:{OPT_NAME[o]}:{type(e).__name__}', f'to_boc{o} raised {type(e).__name__}: {e}', dict(inp, opts=list(o)), repr(e), 'bytes')
    return out


def check_case(ctx, batch, tag, nodes, root, big=False, opts=D.OPTS):
    if root is None:
        root = len(nodes) - 1
    libs = G.lib_build(nodes)
    rootc = libs[root]
    if rootc is None:
        ctx.count('unconstructible-root')
        return
    exp = S.expected_dag(rootc)
    small = sum(len(n[1]) + 8 for n in nodes) < 40000
    inp = {'tag': tag, 'dag': [list(n) for n in nodes] if small else f'<{len(nodes)} nodes, regenerate from tag and seed>', 'root': root}
    bocs = emit_all(ctx, rootc, inp, opts)
    ctx.count('cells<%d' % (1 << len(exp).bit_length()))
    listing0 = None
    for o, b in bocs.items():
        nt = len(exp) > 1 or len(nodes[root][1]) > 0
        ctx.case((tag, root, o, b[:64], len(b)), nontrivial=nt,
                 sample={'tag': tag, 'cells': len(exp), 'opts': OPT_NAME[o], 'boc_len': len(b), 'boc_head': b[:24].hex()})
        finp = dict(inp, opts=list(o), boc=b.hex() if len(b) < 3000 else f'<{len(b)} bytes>')
        # (a1) independent Python strict reader on the library's bytes
        try:
            if big and listing0 is not None:
                # big bags: byte-level layer per option set; the semantic layer depends only on the records (same for all option sets)
                lst = S.strict_parse(b, semantic=False)
                same = ([(r['d1'], r['bits'], r['refs']) for r in lst['recs']] == [(r['d1'], r['bits'], r['refs']) for r in listing0['recs']]
                        and lst['roots'] == listing0['roots'])
                why = None if same else 'records differ between option sets'
                for r, r0 in zip(lst['recs'], listing0['recs']):
                    r['hash'] = r0['hash']
            else:
                lst = S.strict_parse(b)
                why = S.compare(lst, exp, rootc.hash)
            ctx.count(f'size_bytes:{lst["size"]}')
            ctx.count(f'off_bytes:{lst["off"]}:cache={int(o[2])}')
        except S.Reject as e:
            lst, why = None, 'rejected: ' + str(e)
        if why:
            ctx.fail(f'nonconforming:{OPT_NAME[o]}:{_norm(why)}', f'strict reader (Python) on to_boc{o} output: {why}', finp, why, 'accepted, same DAG')
            continue
        if listing0 is None:
            listing0 = lst

        # (a2) the Lean strict reader on the library's bytes
        def on_strict(ans, o=o, finp=finp, lst=lst, full=True):
            got = S.parse_lean_listing(ans)
            if got is None:
                ctx.fail(f'nonconforming-lean:{OPT_NAME[o]}', f'Lean strict reader rejects the to_boc{o} output (Python twin accepts)', finp, ans[:200], 'accepted')
                return
            if full:
                why2 = S.compare(got, exp, rootc.hash)
            else:
                why2 = None if ([(r['d1'], r['bits'], r['refs']) for r in got['recs']] == [(r['d1'], r['bits'], r['refs']) for r in lst['recs']]
                                and got['roots'] == lst['roots']) else 'flat listing differs from the Python reader'
            if why2:
                ctx.fail(f'nonconforming-lean:{OPT_NAME[o]}:{_norm(why2)}', f'Lean strict reader on to_boc{o} output: {why2}', finp, why2, 'same DAG')
        # the semantic layer depends only on the records, which are identical for all option sets (checked through the flat listing)
        if (o != (1, 1, 1) and (big or o != (0, 0, 0))) or big == 'flat':
            batch.add('bocflat ' + b.hex(), lambda ans, f=on_strict: f(ans, full=False))
        else:
            batch.add('bocstrict ' + b.hex(), on_strict)
    # (b) correspondence: model bytes == library bytes, all six option sets from one ordering
    if len(bocs) == len(D.OPTS) == len(opts):
        line = 'bocemitall ' + G.dag_line(nodes)[len('celldag '):] + f' {root}'

        def on_emit(ans, bocs=bocs, inp=inp, nodes=nodes, listing0=listing0, libs=libs):
            want = 'ok ' + ' '.join(bocs[o].hex() for o in D.OPTS)
            if ans == want:
                return
            # The library may use another traversal order: every VALID order conforms (c04_conforms_any_order), and validity of
            # the library's order is what the strict readers just checked.  Recover its order and compare the byte layout for it.
            if listing0 is not None and ctx.driver_ok:
                by_hash = {}
                for i, c in enumerate(libs):
                    if c is not None:
                        by_hash.setdefault(c.hash, i)
                order = [by_hash.get(r['hash']) for r in listing0['recs']]
                if None not in order:
                    ans2 = ctx.model.run(['bocemitord ' + G.dag_line(nodes)[len('celldag '):] + ' ' + '.'.join(map(str, order))])[0]
                    if ans2 == want:
                        ctx.count('order-differs-from-model-but-valid')
                        return
            k = next((i for i, (x, y) in enumerate(zip(ans, want)) if x != y), min(len(ans), len(want)))
            ctx.corr_broken(f'model bytes != library bytes on {tag} (first difference at char {k}: model …{ans[max(0, k - 20):k + 40]} library …{want[max(0, k - 20):k + 40]}); input {str(inp)[:300]}')
            ctx.count('corr_mismatch')
        batch.add(line, on_emit)


def src_search(ctx):
    """a source obligation of the emitter broke: Lean compares regenerated vs hand model on boundary DAGs; the differing DAGs are
    judged first (strict readers on the library's bytes), then the rest of the grid"""
    cases = bocemit.validation_dags()
    found, _ = bocemit.diff_inputs(ctx, [c for c in cases if len(c[1]) <= bocemit.BIG])
    first = [(t, n, r) for t, n, r, _ in found]
    rest = [c for c in cases if c[0] not in {t for t, _, _ in first}]
    batch = Batch(ctx)
    for tag, nodes, root in first + rest:
        check_case(ctx, batch, 'src-' + tag, nodes, root)
        batch.flush()
        if len(ctx.failures) >= 3:
            break
    return bool(ctx.failures)


def run(ctx):
    if ctx.search and src_search(ctx):
        return
    import resource
    try:
        soft, hard = resource.getrlimit(resource.RLIMIT_STACK)          # deep List recursion in the driver on 70k-cell bags
        want = 1 << 32
        resource.setrlimit(resource.RLIMIT_STACK, (want if hard == resource.RLIM_INFINITY else min(want, hard), hard))
    except Exception:
        pass
    batch = Batch(ctx)
    import gc
    for tag, nodes, root, big in D.cases(ctx):
        check_case(ctx, batch, tag, nodes, root, big)
        ctx.count('dags')
        if big:
            batch.flush()
            gc.collect()
    batch.flush()
    # rooted at inner nodes of one DAG (root index != last)
    nodes = D.connected_dag(ctx.rng, 40)
    for r in range(0, 40, 3):
        check_case(ctx, batch, f'inner{r}', nodes, r)
    batch.flush()
    if bocemit.valid_order_only(ctx):
        # the traversal's MODEL EQUALITY (Properties/C04Model.lean) is broken, the property theorems about the regenerated emitter are
        # proved (core built and audited Properties/C04.lean): not a broken obligation.  The byte-for-byte correspondence above
        # already compares modulo a valid order; a mismatch there is a broken correspondence as always.
        bocemit.note_valid_order_only(ctx)


def replay(ctx, payload):
    inp = payload.get('input') or {}
    if isinstance(inp.get('dag'), list):
        nodes = [(k, b, tuple(r)) for k, b, r in inp['dag']]
        batch = Batch(ctx)
        opts = [tuple(inp['opts'])] if inp.get('opts') else D.OPTS
        check_case(ctx, batch, inp.get('tag', 'replay'), nodes, inp.get('root'), opts=opts)
        batch.flush()
