"""C07, depth limit at EVERY level of a cell: a builder whose references include a pruned branch (or a cell above one)
yields no cell whose depth at any level exceeds 1023.  A pruned branch of mask m records the depth of the subtree it stands
for at each level below its own; the parent's depth at that level is 1 + the recorded one.  Failure key `depth:level:<route>`.
Called from C07.run (library only; the model side of the same inputs is C02's `pruned-depth-*` family)."""
from ..gen import cells as G


def depth_at_levels(ctx):
    rng = ctx.rng
    for mask in range(1, 8):
        n = G.popcount(mask)
        for pos in range(n):
            for dep in (1021, 1022, 1023, 1024, 65535):
                depths = [rng.randrange(0, 900) for _ in range(n)]
                depths[pos] = dep
                pb = G.pruned_bits(mask, [rng.randbytes(32) for _ in range(n)], depths)
                # pruned <- ordinary <- ordinary <- ordinary : the spec decides per node
                nodes = [(G.PRUNED, pb, ()), (G.ORD, '1', (0,)), (G.ORD, '', (1,)), (G.ORD, '0', (2, 0))]
                spec = G.spec_dag(nodes)
                for route in ('builder', 'ctor', 'plain'):
                    libs = G.lib_build(nodes, route)
                    for i, c in enumerate(libs):
                        s = spec[i]
                        ctx.case(('depth-level', mask, pos, dep, route, i), nontrivial=True)
                        inp = {'dag': [list(x) for x in nodes[:i + 1]], 'route': route, 'mask': mask, 'level_index': pos, 'recorded_depth': dep}
                        if c is None:
                            if s is not None and s.valid:
                                ctx.fail(f'depth:level-refused:{route}', f'a cell whose depth is <= 1023 at every level was refused (node {i})', inp,
                                         'exception', 'cell')
                            continue
                        got = [c.get_depth(l) for l in range(4)]
                        if nodes[i][0] == G.PRUNED:
                            continue        # a pruned branch only RECORDS depths (any 16-bit value is representable); the limit is on computed depths
                        if max(got) > 1023 or (s is not None and not s.valid and s.why == 'depth>1023'):
                            ctx.fail(f'depth:level:{route}', f'a cell of depth {max(got)} (> 1023 at one of its levels) was produced (node {i})', inp,
                                     got, 'exception')
                            ctx.count('depth-level:accepted-too-deep')
                        ctx.count('depth-level:cells')
