"""C10 (d): dictionaries EMBEDDED in a larger constructor.

A spec-valid `Hashmap n X` / `HashmapE` / `HashmapAug` / `HashmapAugE` is a FIELD: the cell that holds it carries further bits
and references before and after it (gen/dictfields.py).  The container is read field by field from ONE slice, every dictionary
through one of the library's entry points; each must return exactly the leaves (extras) of the non-pruned part, leave the slice
standing exactly behind the dictionary (bits and references), and the following fields must read back.  Prunings at every edge,
for the reference forms including the root reference itself; several dictionaries in one cell.

Failure keys: `embed-raised:<reader>`, `embed-result:<reader>`, `embed-consumed:<reader>`, `embed-next-field:<reader>`,
`embed-peek:<reader>`.  Replay kind `embed`.  The hand model is asked (`hmparse`) for every dictionary on the slice as it stands
in front of it (remaining bits, remaining references).
"""
import itertools

from ..gen import cells as G
from ..gen import maps as M
from ..gen import dictfields as DF
from . import C09

call, is_err = C09.call, C09.is_err

READERS = {
    'hme': ['load_dict', 'load_dict:vd', 'preload_dict+load_dict', 'manual:HashMap.parse', 'manual:parse_hashmap'],
    'hm': ['load_hashmap:vd', 'HashMap.parse:vd', 'parse_hashmap', 'load_hashmap'],
    'aug': ['load_hashmap_aug', 'parse_hashmap_aug'],
    'auge': ['load_hashmap_aug_e'],
}


def _lib():
    from pytoniq_core.boc.hashmap.hashmap import HashMap
    from pytoniq_core.boc.hashmap.parse import parse_hashmap, parse_hashmap_aug
    from pytoniq_core.boc.cell import Cell
    return HashMap, parse_hashmap, parse_hashmap_aug, Cell


def read_dict(cs, f, reader):
    """one dictionary field through `reader`; -> None | [[key, value bits, [ref hashes]]...] | (that, [extras]); values always
    decoded by the X deserialiser (handed to the entry point, or applied afterwards to the slices it returned, in key order)"""
    HashMap, parse_hashmap, parse_hashmap_aug, _ = _lib()
    n, w, vr, yb = f['n'], f['w'], f['vr'], f.get('ybits', 0)

    def vd(s):
        return [s.load_bits(w).to01() if w else '', [s.load_ref().hash.hex() for _ in range(vr)]]

    def yd(s):
        return s.load_uint(yb)

    def post(d, keyf=lambda k: k):
        if d is None:
            return None
        out = []
        for k, v in d.items():
            x = vd(v)
            if v is not cs and (v.remaining_bits or v.remaining_refs):
                raise AssertionError('value slice not exactly X')
            out.append([keyf(k)] + x)
        return out

    def done(d):
        return None if d is None else [[k] + v for k, v in d.items()]

    if reader == 'load_dict':
        return post(cs.load_dict(n))
    if reader == 'load_dict:vd':
        return done(cs.load_dict(n, value_deserializer=vd))
    if reader == 'preload_dict+load_dict':
        b0, r0 = cs.remaining_bits, cs.remaining_refs
        a = done(cs.preload_dict(n, value_deserializer=vd))
        if (cs.remaining_bits, cs.remaining_refs) != (b0, r0):
            return ('peek-moved', [cs.remaining_bits, cs.remaining_refs])
        b = done(cs.load_dict(n, value_deserializer=vd))
        if a != b:
            return ('peek-differs', a, b)
        return b
    if reader == 'manual:HashMap.parse':
        if not cs.load_bit():
            return None
        return done(HashMap.parse(cs.load_ref().begin_parse(), n, None, vd))
    if reader == 'manual:parse_hashmap':
        if not cs.load_bit():
            return None
        c = cs.load_ref()
        if c.type_ != -1:
            return None
        return post(parse_hashmap(c.begin_parse(), n), lambda k: int(k, 2))
    if reader == 'load_hashmap:vd':
        return done(cs.load_hashmap(n, value_deserializer=vd))
    if reader == 'HashMap.parse:vd':
        return done(HashMap.parse(cs, n, None, vd))
    if reader == 'parse_hashmap':
        return post(parse_hashmap(cs, n), lambda k: int(k, 2))
    if reader == 'load_hashmap':
        return post(cs.load_hashmap(n))
    if reader in ('load_hashmap_aug', 'parse_hashmap_aug', 'load_hashmap_aug_e'):
        if reader == 'load_hashmap_aug':
            r = cs.load_hashmap_aug(n, vd, yd)
        elif reader == 'parse_hashmap_aug':
            r = parse_hashmap_aug(cs, n, vd, yd)
        else:
            r = cs.load_hashmap_aug_e(n, vd, yd)
        if r is None:
            return None
        return [done(r[0]), list(r[1])]
    raise ValueError(reader)


def expected(f, lay, cells):
    items = [[int(k, 2), b, [cells[i].hash.hex() for i in r]] for k, b, r in lay['leaves']]
    if f['form'] in ('hm', 'hme'):
        if lay['empty'] or lay['root_pruned']:
            return None         # hme_empty$0 -> None; a non-ordinary root -> None (HashMap.parse)
        return items
    if lay['root_pruned']:
        return None
    return [items, list(lay['extras'])]


def leaf_tok(bits, refs, cells):
    return f"{bits or '-'}/{'.'.join(cells[i].hash.hex() for i in refs) or '-'}"


def embed_case(ctx, fields, readers, base, tag):
    """fields: see gen/dictfields; readers: one reader name per dict field (in order)"""
    _, _, _, Cell = _lib()
    inp = {'kind': 'embed', 'fields': fields, 'readers': list(readers), 'base': [list(b) for b in base], 'tag': tag}
    db, cont, layout = DF.build(fields, base)
    if not db.ok(cont):
        ctx.count('embed:does-not-fit')
        return
    cells = G.lib_build(db.nodes, 'ctor')
    rc = cells[cont]
    shape = tuple((f['t'] if f['t'] != 'dict' else f['form']) for f in fields)
    ctx.case(('embed', repr(fields), tuple(readers)), nontrivial=any(l.get('leaves') for l in layout),
             sample={'fields': [f if f['t'] != 'dict' else {k: v for k, v in f.items() if k != 'tokens'} for f in fields][:5], 'readers': list(readers)})
    if rc is None:
        ctx.fail('embed-cell', 'a spec-valid cell holding a dictionary field could not be constructed', inp, 'exception', 'cell')
        return
    if db.infos[cont].mask:
        # pruned branches inside: the container is what a Merkle proof references
        mp = call(lambda: Cell(__import__('bitarray').bitarray(G.mproof_bits(db.infos[cont])), [rc], 3))
        if is_err(mp):
            ctx.fail('embed-merkle', 'Merkle proof cell around the pruned container could not be built', inp, mp, 'cell')
            return
        rc = mp.refs[0]
    cs = rc.begin_parse()
    total_bits, total_refs = len(db.nodes[cont][1]), len(db.nodes[cont][2])
    cbits, crefs = db.nodes[cont][1], db.nodes[cont][2]
    ri = iter(readers)
    prev = None             # (reader, field index) of the last dictionary read: a wrong position shows in the NEXT field
    extra_nodes = []
    for i, (f, lay) in enumerate(zip(fields, layout)):
        b0, r0 = lay['at']
        if f['t'] == 'bits':
            got = call(lambda: cs.load_bits(len(f['bits'])).to01() if f['bits'] else '')
            ok = got == f['bits']
            want = f['bits']
        elif f['t'] == 'ref':
            got = call(lambda: cs.load_ref().hash.hex())
            want = cells[f['cell']].hash.hex()
            ok = got == want
        else:
            reader = next(ri)
            form = f['form']
            ctx.count(f'embed:{form}:{reader}')
            after_refs = total_refs - r0 - lay['refs']
            ctx.count(f'embed:refs-before={min(r0, 2)}:after={min(after_refs, 2)}')
            ctx.count('embed:root=' + ('empty' if lay['empty'] else 'pruned' if lay['root_pruned'] else
                                       'leaf' if (f['tokens'][0][0] == 'L') else 'fork'))
            if not lay['empty'] and 'P' in f['tokens']:
                ctx.count('embed:pruned-inside')
            want = expected(f, lay, cells)
            got = call(lambda: read_dict(cs, f, reader))
            if is_err(got):
                ctx.fail(f'embed-raised:{reader}', f'{reader} raised {got[1]} on a spec-valid {form} dictionary that is field {i} of a cell with '
                         f'{r0} reference(s) / {b0} bit(s) before and {after_refs} reference(s) / {total_bits - b0 - lay["bits"]} bit(s) after it',
                         inp, got, want)
                return
            if isinstance(got, tuple):
                ctx.fail(f'embed-peek:{reader}', 'preload_dict moved the slice or disagrees with load_dict', inp, got, want)
                return
            if got != want:
                ctx.fail(f'embed-result:{reader}', f'{reader} did not return exactly the leaves (extras) of the non-pruned part of dictionary field {i}',
                         inp, got, want)
                return
            pos = (cs.remaining_bits, cs.remaining_refs)
            wpos = (total_bits - b0 - lay['bits'], total_refs - r0 - lay['refs'])
            if pos != wpos:
                ctx.fail(f'embed-consumed:{reader}', f'after {reader} the slice does not stand exactly behind dictionary field {i} '
                         f'(it occupies {lay["bits"]} bit(s) and {lay["refs"]} reference(s))', inp, list(pos), list(wpos))
                return
            # the hand model on the slice as it stood in front of the dictionary
            node = len(db.nodes) + len(extra_nodes)
            extra_nodes.append((G.ORD, cbits[b0:], tuple(crefs[r0:])))
            model_line(ctx, f, lay, node, db, extra_nodes, cells, cbits[b0 + lay['bits']:], crefs[r0 + lay['refs']:], tag)
            prev = (reader, i)
            continue
        if is_err(got) or not ok:
            who = prev[0] if prev else 'none'
            ctx.fail(f'embed-next-field:{who}', f'field {i} ({f["t"]}) does not read back' + (f' after {prev[0]} read dictionary field {prev[1]}' if prev else ''),
                     inp, got, want)
            return
    if cs.remaining_bits or cs.remaining_refs:
        ctx.fail('embed-consumed:end', 'bits / references left unread after the last field', inp, [cs.remaining_bits, cs.remaining_refs], [0, 0])


def model_line(ctx, f, lay, node, db, extra_nodes, cells, rest_bits, rest_refs, tag):
    """`hmparse` on the node (ORD, remaining bits, remaining refs) - the slice in front of the dictionary - with the default
    deserialisers: values are the slices behind the leaf labels (for an inline root LEAF: everything that follows)"""
    form, n, yb = f['form'], f['n'], f.get('ybits', 0)
    dag = G.dag_line(db.nodes + extra_nodes)[8:]
    inline_leaf = form in ('hm', 'aug') and f['tokens'][0][0] == 'L'

    def tok(b, r):
        if inline_leaf:
            return f"{(b + rest_bits) or '-'}/{'.'.join(cells[i].hash.hex() for i in tuple(r) + tuple(rest_refs)) or '-'}"
        return leaf_tok(b, r, cells)
    items = ';'.join(f'{int(k, 2)}={tok(b, r)}' for k, b, r in lay['leaves']) or '-'
    if form == 'hm':
        want, mode = 'ok ' + items, 'h'
    elif form == 'hme':
        want, mode = ('ok none' if lay['empty'] or lay['root_pruned'] else 'ok ' + items), 'ld'
    elif form == 'aug':
        want, mode = 'ok ' + items + ' ' + ('.'.join(map(str, lay['extras'])) or '-'), f'aug:{yb}'
    else:
        mode = f'auge:{yb}'
        if lay['empty']:
            want = 'ok - ' + str(lay['extras'][0])
        elif lay['root_pruned']:
            want = 'ok none'
        else:
            want = 'ok ' + items + ' ' + ('.'.join(map(str, lay['extras'])) or '-')
    ctx.expect_model(f'hmparse {dag} {node} {n} {mode}', want, tag + ':' + form)


# ----------------------------------------------------------------------------- generation

def dict_field(rng, form, nbase, root=None, n=None, refs_room=4):
    """a random dictionary field description; root in {None, 'leaf', 'fork', 'empty', 'pruned'}"""
    n = n or rng.choice([1, 2, 3, 4, 8, 16, 32])
    yb = rng.choice([1, 3, 8]) if form in ('aug', 'auge') else 0
    w = rng.choice([0, 1, 4, 8, 32])
    vr_max = 2
    if form in ('hm', 'aug') and root == 'leaf':
        vr_max = max(0, min(2, refs_room))
    vr = rng.choice([0, 0] + list(range(1, vr_max + 1))) if nbase else 0
    f = {'t': 'dict', 'form': form, 'n': n, 'w': w, 'vr': vr}
    if yb:
        f['ybits'] = yb
    if form == 'auge':
        f['top_extra'] = G.rand_bits(rng, yb)
    if root == 'empty':
        f['empty'] = True
        return f
    size = 1 if root == 'leaf' else (rng.choice([2, 2, 3, 4, 6]) if root in ('fork', 'pruned') else None)
    if size and size > (1 << n):
        size = 1 << n
    t = None
    for _ in range(8):
        t = DF.rand_tree(rng, n, w, vr, yb, nbase, size, canonical=rng.random() < 0.2)
        if t is not None:
            break
    if t is None:
        return None
    if root == 'pruned':
        t['pruned'] = True
    f['_tree'] = t
    return f


def finish(f):
    """tokens from the annotated tree (after prunings were marked)"""
    t = f.pop('_tree', None)
    if t is not None:
        f['tokens'] = DF.tree_tokens(t)
    return f


def pad_bits(rng):
    return G.rand_bits(rng, rng.choice([0, 1, 3, 8, 16, 32, 61]))


def embed_cases(ctx):
    rng = ctx.rng
    base = C09.BASE
    nb = len(base)
    t = 0

    def emit(fields, readers=None):
        nonlocal t
        t += 1
        fields = [finish(dict(f)) for f in fields]
        if sum(DF.field_refs(f) for f in fields) > 4:
            ctx.count('embed:too-many-refs')
            return
        ds = [f for f in fields if f['t'] == 'dict']
        if readers is None:
            readers = [rng.choice(READERS[f['form']]) for f in ds]
        embed_case(ctx, fields, readers, base, f'embed{t}')

    def around(f, k_pre, k_post):
        pre = [{'t': 'bits', 'bits': pad_bits(rng)}] + [{'t': 'ref', 'cell': rng.randrange(nb)} for _ in range(k_pre)]
        if rng.random() < 0.5:
            pre.append({'t': 'bits', 'bits': pad_bits(rng)})
        post = []
        if rng.random() < 0.5:
            post.append({'t': 'bits', 'bits': pad_bits(rng)})
        post += [{'t': 'ref', 'cell': rng.randrange(nb)} for _ in range(k_post)]
        post.append({'t': 'bits', 'bits': pad_bits(rng)})
        return [x for x in pre if x['t'] != 'bits' or x['bits']] + [f] + [x for x in post if x['t'] != 'bits' or x['bits']]

    # (1) one dictionary, every form x root shape x k references before x k references after x every reader
    for form in ('hm', 'hme', 'aug', 'auge'):
        roots = ['leaf', 'fork'] + (['empty', 'pruned'] if form in ('hme', 'auge') else [])
        for root in roots:
            for k_pre in (0, 1, 2):
                for k_post in (0, 1, 2):
                    for reader in READERS[form]:
                        f = dict_field(rng, form, nb, root, refs_room=4 - k_pre - k_post)
                        if f is None:
                            continue
                        emit(around(f, k_pre, k_post), [reader])
    # (2) one dictionary of 3-5 keys, a pruned branch at EVERY edge in turn (reference forms: also the root reference itself),
    #     references before and after
    for form in ('hm', 'hme', 'aug', 'auge'):
        for rep in range(ctx.n(3, 12)):
            f = dict_field(rng, form, nb, 'fork', n=rng.choice([2, 3, 4, 8, 16]))
            if f is None:
                continue
            tree = f['_tree']
            for path in DF.edges(tree):
                if not path and form in ('hm', 'aug'):
                    continue
                DF.clear_pruned(tree)
                DF.prune_at(tree, path)
                for reader in READERS[form]:
                    k_pre, k_post = rng.choice([(0, 1), (1, 1), (0, 2), (1, 0), (0, 0)])
                    emit(around(dict(f, _tree=tree), k_pre, k_post), [reader])
            DF.clear_pruned(tree)
    # (3) several fields in one cell: 2-4 dictionaries of any form (empty / pruned at the root / pruned inside / whole),
    #     references and bits in between, random readers
    for _ in range(ctx.n(500, 5000)):
        fields, room = [], 4
        if rng.random() < 0.6:
            fields.append({'t': 'bits', 'bits': pad_bits(rng) or '1'})
        for j in range(rng.choice([2, 2, 3, 3, 4])):
            if room <= 0:
                break
            form = rng.choice(['hme', 'hme', 'hme', 'auge', 'hm', 'aug'])
            if form in ('hm', 'aug'):
                root = rng.choice(['leaf', 'fork']) if room >= 2 else 'leaf'
            else:
                root = rng.choice(['fork', 'fork', 'leaf', 'empty', 'pruned', 'pruned'])
            f = dict_field(rng, form, nb, root, refs_room=room - 1)
            if f is None:
                continue
            if root in ('fork',) and rng.random() < 0.4:
                M.mark_pruned(rng, f['_tree'], 0.3)
            need = 0 if root == 'empty' else (1 if form in ('hme', 'auge') else (2 if root == 'fork' else f['vr']))
            if need > room:
                continue
            room -= need
            fields.append(f)
            if room and rng.random() < 0.35:
                fields.append({'t': 'ref', 'cell': rng.randrange(nb)})
                room -= 1
            if rng.random() < 0.4:
                fields.append({'t': 'bits', 'bits': pad_bits(rng) or '0'})
        if any(f['t'] == 'dict' for f in fields):
            emit(fields)


def replay_case(ctx, inp):
    embed_case(ctx, inp['fields'], inp['readers'], [(k, b, tuple(r)) for k, b, r in inp.get('base', [])], inp.get('tag', 'replay'))
