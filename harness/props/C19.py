"""C19: work is bounded by the size of the input; every parser terminates.

Theorems (Properties/C19.lean) bound the step counts of the cost model (Model/Cost.lean).  The tie to the real
library is MEASURED: harness/workmeter.py counts Python line events inside pytoniq_core during one public call and
the check requires  lines <= A*modelSteps + B  with the model's step count for the same input, plus a wall-clock cap.
"""
import os
import time

from ..gen import cells as G
from ..workmeter import measure
from ..translate import arith2


def _regen_tl_cost_table():
    from ..translate import tl_cost
    return tl_cost.regenerate()

def _regen_boc_parser():
    from ..translate import boccells
    return boccells.regenerate()

def _regen_boc_emitter():
    from ..translate import bocemit
    return bocemit.regenerate_tied()

def _emit_tie_name():
    from ..translate import bocemit
    return bocemit.TIE_NAME

def _regen_dict_cnt():
    from ..translate import hashmapcnt
    return hashmapcnt.regenerate()

def _regen_boc_cnt():
    from ..translate import boccnt
    return boccnt.regenerate()

def _regen_ctor_cnt():
    from ..translate import ctorcnt
    return ctorcnt.regenerate()

def _regen_emit_cnt():
    from ..translate import emitcnt
    return emitcnt.regenerate()


def _regen_tl_parser():
    from ..translate import tlengine
    return tlengine.regenerate()


SPEC = dict(
    manifest=dict(
        category='proof',
        text='PARTIAL (the theorems are about a cost MODEL; the tie to the real cost is measured). Lean proves, for the step-counting '
             'model of the code as written (Model/Cost.lean), for EVERY input: (1) the iterative Cell.order does <= 1+n+e loop iterations on '
             'any node list with n cells and e references (shared sub-DAGs are expanded once: visited-set potential argument; the bound is '
             'attained); to_boc <= 5(n+e)+1+bytes steps. (2) Constructing/hashing: Cell.__init__ runs once per distinct cell and reads the '
             'referenced cells\' cached masks/depths/hashes, <= 4n+9e loop iterations and <= 4*(descriptor+data bytes)+136(n+e) bytes fed to '
             'SHA-256 for <= 4 hashes per cell (c19_build_linear; hashWork = 4(n+e) exactly). (3) The BoC parser: all loop iterations <= '
             '3*len+5, the three outer loops <= len+1: every loop driven by cells_num/roots_num/index counts is cut by a length check. '
             '(4) TL, c19_tl_total: for every schema table whose ids have 4 bytes and whose BARE references (fields parsed without a '
             'constructor id) form no cycle (NoBareCycle tbl R, decidable; proved by kernel evaluation for the bundled 829-row table, '
             'which is regenerated from the .tl files on every run: R = 4), every byte string, boxed or bare start: the deserialize model '
             'with depth fuel (len/4+1)(R+2) never runs out of fuel and makes <= K(tbl)*(len+1)^2 steps -- a function of the input LENGTH '
             'and a table constant only, never of a declared vector or bytes length (the vector loop is bounded through the guard of the '
             'F16 repair, the bytes re-parse loop through j advancing). The square is real (a vector of a field-less bare type iterates '
             'without consuming; example family 176/751/3101 steps for 48/88/168 bytes) and harmless (a few hundred bytes = ~10^4 steps). '
             'The side condition is necessary: a table "a x:a = A" recurses for ever on the empty input (c19_tl_bare_cycle_diverges; in '
             'Python RecursionError); not reachable with the bundled schemas. K(tbl) = 1+tlA(maxFields, R+2) is a crude worst case over '
             'all tables of that shape. (5) DICTIONARIES ARE OUTPUT-BOUNDED, NOT INPUT-BOUNDED: a parse that returns makes exactly '
             '4*(entries+stops)-2 calls (entries = keys in the result, stops = edges ending in a pruned/library cell) and <= (1+B) times '
             'as many steps with the unary-label loop (B = max bits per cell) (c19_dict_output, c19_dict_total); always <= 2 calls per node '
             'of the tree UNFOLDED from the root; and, since deserialize_hml refuses a label longer than the remaining key ({n <= m} of '
             'hashmap.tlb; repaired defect: the remaining key went negative, never met a leaf, and shared forks below were walked 2^depth '
             'times for an empty result), the remaining key length is never negative, the recursion is at most key_length+1 deep on ANY '
             'cell graph (even a cyclic node list) and makes <= 2^(key_length+2)-2 calls (c19_dict_depth_le_keylen, c19_dict_label_fits). '
             'The bag can be exponentially smaller than the unfolded tree: ~250 bytes whose 30 forks reference '
             'the same child twice are a legitimate 2^30-entry dictionary, and over a pruned/exotic bottom cell the same 2^30 steps return an '
             'EMPTY result (stops = 2^30). For load_dict the sentence "a few-hundred-byte input cannot run long" therefore does NOT hold; the '
             'property is read as work <= c*(output entries + pruned edges) for dictionaries (not repaired: an eager dict-returning API '
             'must materialise the unfolded tree). The tie to the real cost is a measured inequality lines <= A*steps+B (Python line events '
             'counted by sys.monitoring inside pytoniq_core during one call, constants calibrated once with ~4x slack, design/C19.md) on '
             'adversarial families (2-refs-to-same-child chains to length 1000, depth-1023 chains, level-3 cells, diamonds, huge count '
             'fields over short bodies, TL vectors declaring up to 2^32-1 elements, bytes re-parse towers, dictionaries with bogus labels '
             'and maximal sharing, labels longer than the remaining key - every constructor, at the root and below forks, over 2^14 shared '
             'paths: must be refused at once) plus a 2 s wall-clock cap per call; also compared: cell order, len(to_boc), number of sha256 objects and '
             'bytes hashed while constructing a DAG (= one per hashed level per DISTINCT cell), dictionary entries returned = entries '
             'counted by the model, a model parse that raises must raise in the library, side conditions of c19_tl_total on every table sent to the driver. C-level costs (bytes slicing '
             'cells_data[i:], hashing, bitarray) are visible only through the line-count proxy and the wall-clock cap. One piece of the TL '
             'model is tied to the source by proof rather than measurement: the vector-length guard added by fix 110bf4a '
             '(`length > len(data) - i`, Python ints) and the bytes-field header / skip arithmetic of TlSchemas.deserialize are re-translated from '
             'tl/generator.py on every run (Generated/TlFraming.lean) and proved, for every input and offset, to be what Tl.fieldStep of the cost '
             'SOURCE TIE of the BoC parser (c19_src_parse, c19_src_loop_iterations): the three loops of Boc.deserialize, deserialize_cell and the header parser are regenerated from '
             'deserialize.py on every run as Py.loop? folds over range(cells_num), reversed(range(cells_num)), root_list (one body execution per element at most) and proved equal to '
             'Model/BocParse.lean, whose recursions Model/Cost.lean transcribes as counters; that the COUNTERS of bocCost equal the iteration counts of the regenerated loops is not proved. '
             'model computes (c19_src_tl_vector_guard, c19_src_tl_bytes_skip). '
             'SOURCE TIE of the EMITTER loops: Cell.order / to_boc / serialize are regenerated from cell.py on every run (Generated/BocEmitSrc.lean); c19_src_order_linear: on EVERY DAG of cell '
             'objects (n distinct cells, e references, any sharing; local no-collision hypothesis) the REGENERATED while stack: loop ends within 1+n+e iterations (budget 1+n+e+1 suffices, '
             'c19_src_while_iterations reads the budget) and returns a valid order - a potential argument over the regenerated loop itself (Proofs/SrcOrderAny.lean), for either push order of the '
             'references; c19_src_serialize_layout: with that budget the regenerated to_boc is the lookup + layout of exactly n keys carrying e references and the steps counted per loop '
             '(while, re-insertion, comprehension, serialize + references, index, CRC bytes) are <= 5(n+e)+1+len(output); the for-loops are counted by the lengths of the lists they iterate (read off '
             'the proved equality with the layout model), not by an instrumented translation. '
             'SOURCE TIE of the dictionary parser (c19_src_dict_erase, c19_src_dict_depth_le_keylen, c19_src_dict_output): the text pyrec.py regenerates from parse.py for parse / deserialize_hashmap_node '
             'is put, by a visible textual transformation (harness/translate/hashmapcnt.py), into a counting monad - one tick per function entry, a flag at the fuel-exhaustion line (Generated/HashmapCnt.lean); '
             'Lean proves for all inputs that this copy computes exactly the regenerated functions (so the transformation is not trusted for values), that for EVERY cell tree, int key length k and fuel >= 2k+2 the '
             'fuel-exhaustion line is never reached (recursion depth <= k+1 levels: of the code as written, not of the cost model), and that on the tree unfolded from any well-formed cost-model graph its call count IS dictCalls of the cost model, with the same '
             'returned / raised outcome - so c19_dict_output (4(entries+stops)-2 calls) and c19_dict_depth_le_keylen (<= 2^(n+2)-2 calls) are statements about parse.py. The tick placement is validated on every change: calls counted by Lean = calls CPython makes '
             '(counting wrappers) on 271 cells. '
             'SOURCE TIE of the BoC parser\'s loop counters (c19_src_boc_erase, c19_src_boc_counters, c19_src_boc_parse): the text regenerated from deserialize.py for deserialize_cell / deserialize is put, by a visible '
             'textual transformation (harness/translate/boccnt.py), into an iteration-counting writer - every Py.loop? becomes a Py.loopW? k that ticks counter k once per iteration started, ticks kept when the run raises '
             '(Generated/BocCnt.lean). Lean proves for EVERY byte string and constructor callback: the copy computes exactly the regenerated Boc.deserialize; its counters never exceed bocCost\'s loop1 / refs1 / loop2 / refs2 / loop3 '
             'and are EQUAL to them when the parse returns (they can be smaller when the parse raises for a reason the cost model does not follow); nothing else ticks but the completion-tag search (<= 7 per cell); hence the three '
             'loops of the code as written start <= len+1 iterations and all five <= 3*len+5. The tick placement is validated against CPython (first-body-line events of the six for statements = the ticks Lean counts) on 262 bags per change. '
             'Proving the bridge found the cost model stale: bocGuarded still had the header pre-check 1+5*size_bytes of before fix 36d5bc1 (the library has 1+3*size_bytes), so bocCost was 0 on accepted bags of 6+3s..6+5s-1 bytes; corrected. '
             'SOURCE TIE of the constructor\'s hash work (c19_src_ctor_erase, c19_src_hash_work, c19_src_build_linear): the text regenerated from cell.py for Cell.__init__ / resolve_mask / calculate_hashes is put, by the same '
             'transformation (harness/translate/ctorcnt.py), into the iteration-counting writer (every List.foldlM becomes Py.foldW? k; Generated/CellCtorCnt.lean). Lean proves for EVERY call: the copy computes exactly the regenerated '
             'constructor; the loops of resolve_mask + calculate_hashes start <= ctorSteps(lv, d) = d + lv(1+2d) iterations with lv = bit_length(level mask)+1 and d = len(refs) (the cost model\'s count, now about the code as written); '
             'for a cell that is not a pruned branch whose children have level <= 3 (closed under the constructor: resolve_mask_le) the level loop starts <= 4 iterations, each touching every reference once per inner loop: <= 4+9d per cell, '
             '<= 4n+9e for n constructor calls carrying e references. The constructor reads the children only through r.mask / get_depth / get_hash (loop-free list lookups). Tick placement validated against CPython on 94 DAGs per change. '
             'For a pruned branch (c19_src_level_loop_pruned) the level mask is the second data byte (not bounded by 7 by the constructor): <= 9 level iterations, no reference loop runs; with no hypothesis but "masks fit a byte", which the constructor '
             'itself guarantees for every cell type (c19_src_mask_byte), every call is <= 9+19d and n calls <= 9n+19e (c19_src_build_linear_any). '
             'SOURCE TIE of the emitter\'s loops (c19_src_emit_erase, c19_src_serialize_poly - no longer partial): Cell.serialize / order / to_boc regenerated from cell.py with every List.foldlM / Py.while? a counting loop (harness/translate/emitcnt.py, '
             'Generated/BocEmitCnt.lean; ticks validated against CPython loop-body events on 54 DAGs). For every DAG of n distinct cells carrying e references and every option set, with the budget 1+n+e+1: ALL loops as written (while stack, its reference-push loop, '
             'the re-insertion loop, the loop over ordered_cells with the reference loop of serialize inside, the index loop) start <= 5n+4e+6 iterations; with the enumerate comprehension (n) and the Python-level CRC (one per output byte) <= 6(n+e)+6+len(output). '
             'Proof by a potential argument on the counting while (push-loop ticks + stack before <= stack after + 1 per iteration; post_order grows by <= 1), a fold invariant for serialized_cells_len, and the permutation argument of c19_src_serialize_layout. '
             'The header comprehensions and the CRC loop (bocCost.hdr / crc), the unary-loop iterations (dictParse steps), the number of bytes fed to SHA-256 (buildBytes) and the TL counters remain cost model + measurement. '
             'TL PARSER ON THE SOURCE: TlSchemas.deserialize is regenerated from tl/generator.py on every run (Generated/TlEngine.lean, shared with C14) and proved equal to the C14 hand model for all inputs; c19_src_tl_total (Properties/C19Tl.lean) proves that for every table with distinct field names and no cycle of bare references and EVERY byte string the regenerated code run with recursion depth (len/4+1)(R+2) and len+2 iterations of its while loop returns what it returns with any larger budgets - no loop or recursion of the code as written runs beyond a bound in the input length (each while iteration consumes >= 1 content byte or breaks; the vector loop is bounded by the guard); the step COUNT stays the cost model\'s (c19_tl_total).',
        level_note='Trusted: Lean kernel (propext, Classical.choice, Quot.sound); Model/Cost.lean as a hand transcription of the loops of '
                   'cell.py (order, to_boc, __init__/calculate_hashes), deserialize.py, hashmap/parse.py, tl/generator.py (upper-bound '
                   'convention: validity failures that only cut work short are not modelled); harness/translate/tl_cost.py + TlEnv (the bundled '
                   'schema table in the cost model\'s syntax, same object the measured TL cases use); the measured tie lines <= A*steps+B holds '
                   'on the sampled inputs only; the line count is a proxy for cost (C-level work invisible); harness/workmeter.py and the Python '
                   'harness.',
        technique='Lean 4 proof about a step-counting model + measured work inequality (sys.monitoring line counts) against the library '
                  '+ source-regenerated TL guard / framing arithmetic + source-regenerated, call-counting copy of the dictionary parse recursion proved to make the calls the cost model counts',
    ),
    translators=[('bundled tl schemas->Generated/TlCostTable.lean', _regen_tl_cost_table),
                 ('tl/generator.py bytes framing + vector guard->Generated/TlFraming.lean', arith2.regenerator('TlFraming')),
                 ('deserialize.py deserialize_boc_header, deserialize_cell, deserialize->Generated/BocHeader.lean, BocCells.lean', _regen_boc_parser),
                 (_emit_tie_name(), _regen_boc_emitter),
                 ('hashmap/parse.py parse + deserialize_hashmap_node->Generated/HashmapCnt.lean (calls counted)', _regen_dict_cnt),
                 ('deserialize.py deserialize_cell, deserialize->Generated/BocCnt.lean (loop iterations counted)', _regen_boc_cnt),
                 ('tl/generator.py TlSchemas.deserialize->Generated/TlEngine.lean (c19_src_tl_total, Properties/C19Tl.lean)', _regen_tl_parser),
                 ('cell.py Cell.__init__, resolve_mask, calculate_hashes->Generated/CellCtorCnt.lean (loop iterations counted)', _regen_ctor_cnt),
                 ('cell.py Cell.serialize, order, to_boc->Generated/BocEmitCnt.lean (loop iterations counted)', _regen_emit_cnt)],
    property_modules=['C19Tl'],
    lean_targets=['TonVerif.Proofs.SrcBocDeser', 'TonVerif.Proofs.SrcOrderAny', 'TonVerif.Proofs.SrcBocAny', 'TonVerif.Proofs.SrcBocCnt', 'TonVerif.Proofs.SrcTlParser', 'TonVerif.Proofs.SrcCtorCnt', 'TonVerif.Proofs.SrcEmitCnt'],
    design_ref='DESIGN.md §6 C19',
    rule='one case = one public call on one adversarial input with its model step count; families: double/triple-ref chains 10..1000, '
         'depth-1023 chains, diamonds, wide sharing, random DAGs (order, to_boc x flag sets, from_boc, construction); BoC byte strings '
         'with huge cells_num/roots_num/index/size fields, truncations and byte mutations of valid bags; dictionaries (valid, bogus '
         'label lengths, labels longer than the remaining key, maximal sharing, exotic/short leaves); TL byte strings (valid-ish, truncated, vectors declaring up to 2^32-1, '
         'bytes re-parse towers); distinct = distinct (op, input); non-trivial = model steps > 3',
    trusted_base=['Model/Cost.lean mirrors the loop structure of Cell.order/to_boc, Boc.deserialize(_boc_header/_cell), hashmap.parse, '
                  'TlSchemas.deserialize by hand (cost only, upper-bound convention)',
                  'harness/workmeter.py: Python line events inside pytoniq_core are the unit of measured work',
                  'harness/translate/boccnt.py + lean/TonVerif/PyW.lean: which loop of the counting copy of the BoC parser ticks which counter (visible in Generated/BocCnt.lean; validated against CPython line events); ',
                  'harness/translate/hashmapcnt.py + lean/TonVerif/PyCnt.lean: where the ticks of the instrumented dictionary recursion are (one per entry of parse / deserialize_hashmap_node; validated against CPython call counts); pyrec.py / hashmapsrc.py / PyHm.lean as for C10',
                  'constants A,B per operation fixed in harness/props/C19.py (calibrated once, ~4x slack)',
                  'harness/translate/pyarith.py + arith.py/arith2.py and lean/TonVerif/PyBytes.lean + PyBytes2.lean for the c19_src_* theorems (the vector-length guard of '
                  'fix 110bf4a and the bytes-field skip arithmetic of TlSchemas.deserialize, regenerated from the source on every run and proved to be what '
                  'Tl.fieldStep of the cost model computes: c19_src_tl_vector_guard, c19_src_tl_bytes_skip)'],
    assumptions=['line events are a proxy of cost: C-level work (slicing, sha256, bitarray) is not counted',
                 'the tie is a sampled inequality, not a proof about CPython',
                 'TL: the table has no cycle of bare references (NoBareCycle; proved for the bundled table, checked by the driver for every '
                 'table of the measured cases); user-supplied cyclic tables end in RecursionError',
                 'dictionaries: work is bounded by the unfolded tree = result entries + pruned edges, not by the size of the bag'],
)

# ----------------------------------------------------------------------------- calibrated constants  (design/C19.md)
# lines <= A*steps + B ; measured worst ratios on the clean tree are ~A/4
K = {
    'order':   (30, 100),     # steps = while iterations + post-order loop          measured worst 7.5 lines/step
    'toboc':   (22, 150),     # steps = toBoc.steps                                  measured worst 5.4
    'build':   (60, 100),     # steps = hashWork (4*(1+deg) per cell)                measured worst 15.2
    'fromboc': (210, 400),    # steps = bocCost.total (per cell: constructor+hashing) measured worst 52.3, base 46
    'dict':    (150, 450),    # steps = dictParse steps (calls + unary iterations)   measured worst 36.9, base 113
    'tl':      (60, 250),     # steps = Tl.deser steps (calls + field/loop iterations) measured worst 14.3, base 52
}
WALL_CAP = 2.0
CALIBRATE = bool(os.environ.get('C19_CALIBRATE'))
_worst = {}

F16_KEY = 'tl-f16:liteServer.signatureSet:vector-length-2^22-over-0-bytes'


def budget(op, steps):
    a, b = K[op]
    return a * steps + b


def judge(ctx, op, steps, m, inp, what):
    """m = Meter of one library call, steps = the model's step count for the same input."""
    lim = budget(op, steps)
    ctx.case((op, repr(inp)[:4000]), nontrivial=steps > 3, sample={'op': op, 'steps': steps, 'lines': m.lines, 'input': _short_inp(inp)})
    ctx.count(f'op:{op}')
    if CALIBRATE:
        a, b = K[op]
        r = (m.lines - b / 4) / max(steps, 1)
        w = _worst.setdefault(op, [0, 0, None])
        if r > w[0]:
            w[0], w[2] = r, (steps, m.lines)
        if steps <= 3 and m.lines > w[1]:
            w[1] = m.lines
    if getattr(m, 'memory', False):
        ctx.fail(f'{op}:memory', f'{what}: the call tried to allocate more than 1 GiB (an allocation sized by a field of the input, not by its length)',
                 inp, 'MemoryError under a 1 GiB cap', 'memory proportional to the input')
        return False
    if m.aborted == 'time':
        ctx.fail(f'{op}:time', f'{what}: call did not finish within {WALL_CAP}s + 25us/line (lines so far {m.lines}, model steps {steps})', inp,
                 f'{m.seconds:.2f}s, {m.lines} lines', f'<= {WALL_CAP}s')
        return False
    if m.aborted == 'lines' or m.lines > lim:
        ctx.fail(f'{op}:lines', f'{what}: work exceeds the model bound: lines > {K[op][0]}*steps+{K[op][1]} (steps={steps})', inp,
                 f'>= {m.lines} lines', f'<= {lim} lines')
        return False
    return True


def _short_inp(inp):
    s = repr(inp)
    return s if len(s) < 300 else s[:300] + '...'


def metered(op, steps, fn):
    return measure(fn, max_lines=budget(op, steps), max_seconds=WALL_CAP)


# ----------------------------------------------------------------------------- DAG families

def ubits(i, extra=0):
    """distinct data per node (cells are distinct objects iff their hashes differ)"""
    return format(i, '020b') + '1' * extra


def fam_chain(depth, width):
    nodes = [(G.ORD, ubits(0), ())]
    for i in range(depth):
        nodes.append((G.ORD, ubits(i + 1, i % 9), tuple([i] * width)))
    return nodes


def fam_diamonds(k):
    """k stacked diamonds: top -> (l, r) -> bottom"""
    nodes = [(G.ORD, ubits(0), ())]
    for i in range(k):
        b = len(nodes) - 1
        nodes.append((G.ORD, ubits(len(nodes)), (b,)))
        nodes.append((G.ORD, ubits(len(nodes)), (b,)))
        nodes.append((G.ORD, ubits(len(nodes)), (len(nodes) - 2, len(nodes) - 1)))
    return nodes


def fam_wide(layers, width):
    """every node of a layer references 4 nodes of the previous layer (wide sharing)"""
    nodes = [(G.ORD, ubits(i), ()) for i in range(width)]
    prev = list(range(width))
    for _ in range(layers):
        cur = []
        for j in range(width):
            refs = tuple(prev[(j + t) % width] for t in range(4))
            nodes.append((G.ORD, ubits(len(nodes)), refs))
            cur.append(len(nodes) - 1)
        prev = cur
    nodes.append((G.ORD, ubits(len(nodes)), tuple(prev[:4])))
    return nodes


def fam_random(rng, n):
    nodes = []
    for i in range(n):
        k = 0 if i == 0 else rng.choice([1, 2, 2, 3, 4, 4])
        refs = []
        for _ in range(k):
            refs.append(i - 1 if rng.random() < 0.5 else rng.randrange(i))
        if i > 0 and i - 1 not in refs:
            refs[0] = i - 1           # keeps every node reachable from the last one
        if len(refs) > 1 and rng.random() < 0.3:
            refs[-1] = refs[0]
        nodes.append((G.ORD, ubits(i, rng.randrange(0, 64)), tuple(refs)))
    return nodes


def fam_levels(depth, width):
    """a pruned branch of level 3 at the bottom: every cell above has level mask 7, so its constructor computes 4 hashes"""
    pr = format(1, '08b') + format(7, '08b') + ''.join(format(i + 1, '0256b') for i in range(3)) + ''.join(format(i, '016b') for i in range(3))
    nodes = [(G.PRUNED, pr, ())]
    for i in range(depth):
        nodes.append((G.ORD, ubits(i + 1, i % 9), tuple([i] * width)))
    return nodes


class _ShaCount:
    """stands in for the `hashlib` module inside pytoniq_core.boc.cell: counts sha256 objects and the bytes fed to them"""

    def __init__(self):
        import hashlib
        self._h = hashlib
        self.calls = 0
        self.bytes = 0

    def sha256(self, data=b''):
        outer = self
        outer.calls += 1
        outer.bytes += len(data)
        h = self._h.sha256(data)

        class W:
            def update(self, d):
                outer.bytes += len(d)
                h.update(d)

            def digest(self):
                return h.digest()

            def hexdigest(self):
                return h.hexdigest()
        return W()

    def __getattr__(self, k):
        return getattr(self._h, k)


def check_build_hashing(ctx, nodes, arg, inp, tag):
    """c19_build_linear on the library: constructing the DAG (children first, one constructor call per distinct cell) creates
    exactly sum(lv) sha256 objects and feeds them at most buildBytes bytes -- children's hashes are read from their cache,
    never recomputed per path."""
    import pytoniq_core.boc.cell as cellmod
    cnt = _ShaCount()
    saved = cellmod.hashlib
    cellmod.hashlib = cnt
    try:
        cells = G.lib_build(nodes, 'ctor')
    finally:
        cellmod.hashlib = saved
    if any(c is None for c in cells):
        return
    lvs = [1 if c.type_ == G.PRUNED else bin(c.level_mask.mask).count('1') + 1 for c in cells]
    a = ctx.model.run([f"costbuild {arg} {'.'.join(map(str, lvs))}"])[0].split()
    steps, nbytes, cbytes, n, e, hw, ok4 = (int(x) for x in a[1:8])
    ctx.case(('build-sha', repr(inp)[:4000]), nontrivial=n > 1, sample={'op': 'build-sha', 'sha_calls': cnt.calls, 'sha_bytes': cnt.bytes,
                                                                       'model_bytes': nbytes, 'n': n, 'e': e})
    ctx.count('op:build-sha')
    ctx.count(f'build-sha:max-levels={max(lvs)}')
    if ok4 != 1 or hw != 4 * (n + e) or steps > 4 * n + 9 * e or nbytes > 4 * cbytes + 136 * (n + e):
        ctx.corr_broken(f'cost model: build numbers of {tag} contradict c19_build_linear / c19_hash_work_closed: {a}')
    if cnt.calls != sum(lvs) or cnt.calls > 4 * n:
        ctx.fail('build:sha-calls', f'constructing {n} distinct cells created {cnt.calls} sha256 objects, expected one per hashed level '
                                    f'= {sum(lvs)} (<= 4 per cell): hashes of referenced cells are recomputed', inp, cnt.calls, sum(lvs))
    elif cnt.bytes > nbytes:
        ctx.fail('build:sha-bytes', f'constructing {n} distinct cells hashed {cnt.bytes} bytes > model bound {nbytes} '
                                    f'(levels*(max(size,34)+34*refs) per cell)', inp, cnt.bytes, f'<= {nbytes}')


def dag_arg(nodes):
    return '|'.join(f"{2 + (len(b) + 7) // 8},{'.'.join(map(str, r)) or '-'}" for _, b, r in nodes)


def check_dag(ctx, nodes, tag, flagsets=('000', '111')):
    inp = {'family': tag, 'dag': [list(n) for n in nodes] if len(nodes) <= 300 else f'{len(nodes)} nodes: regenerate from the family name {tag}'}
    arg = dag_arg(nodes)
    reqs = [f'costorder {arg}'] + [f'costboc {arg} {fl}' for fl in flagsets]
    ans = ctx.model.run(reqs)
    o = ans[0].split()
    steps_w, postlen, done, post = int(o[1]), int(o[2]), o[3], o[4]
    if done != '1':
        ctx.corr_broken(f'cost model: order loop did not finish within 1+n+e fuel on {tag}')
    hash_work = int(ans[1].split()[5])
    # construction (hashing): every distinct cell once, from cached child hashes
    from pytoniq_core.boc.cell import Cell
    box = {}

    def build():
        box['cells'] = G.lib_build(nodes, 'ctor')
    m = metered('build', hash_work, build)
    if not judge(ctx, 'build', hash_work, m, inp, 'constructing/hashing the DAG'):
        return
    check_build_hashing(ctx, nodes, arg, inp, tag)
    cells = box['cells']
    root = cells[-1]
    if root is None:
        ctx.corr_broken(f'C19 generator produced an unconstructible DAG {tag}')
        return
    idx = {c.hash: i for i, c in enumerate(cells)}
    # order
    st = steps_w + postlen
    m = metered('order', st, lambda: root.order())
    if not judge(ctx, 'order', st, m, inp, 'Cell.order'):
        return
    if m.exc is not None or m.result is None:
        ctx.fail('order:raised', f'Cell.order raised {type(m.exc).__name__} on a valid DAG', inp, repr(m.exc), 'an order')
        return
    got = '.'.join(str(idx[c.hash]) for c in m.result)
    if got != post:
        from ..translate import bocemit
        if bocemit.valid_order_only(ctx) and sorted(got.split('.')) == sorted(post.split('.')):
            # the source visits the references in another order than the cost model; c19_src_order_linear is proved about the
            # regenerated loop for either order and the step counts (n, e) do not depend on it
            ctx.count('order-differs-from-cost-model-same-cells')
        else:
            ctx.corr_broken(f'cost model order != library order on {tag}: model {post[:80]} library {got[:80]}')
    # to_boc
    bocs = {}
    for fl, a in zip(flagsets, ans[1:]):
        f = a.split()
        steps, nbytes = int(f[1]), int(f[2])
        hi, hc, hb = fl[0] == '1', fl[1] == '1', fl[2] == '1'
        m = metered('toboc', steps, lambda: root.to_boc(hi, hc, hb))
        if not judge(ctx, 'toboc', steps, m, {**inp, 'flags': fl}, f'Cell.to_boc({hi},{hc},{hb})'):
            return
        if m.exc is not None:
            ctx.fail('toboc:raised', f'to_boc raised {type(m.exc).__name__} on a valid DAG', {**inp, 'flags': fl}, repr(m.exc), 'bytes')
            return
        if len(m.result) != nbytes:
            ctx.corr_broken(f'cost model bytes {nbytes} != len(to_boc) {len(m.result)} on {tag} flags {fl}')
        bocs[fl] = m.result
    # from_boc
    for fl, boc in bocs.items():
        check_boc_bytes(ctx, boc, f'{tag}/boc{fl}', inp_extra={'family': tag, 'flags': fl})


def check_unshared(ctx, depth, tag, shape):
    """a bag written by a serialiser that does NOT deduplicate: every level of a 2-refs chain is present as two separate,
    byte-identical records (legal to parse; 2*depth+1 records).  Parsing yields equal-but-distinct Cell objects; what is then
    done with them - order, to_boc, ==, hash, set membership - must cost what the deduplicated chain costs (cells are
    compared by hash), not one visit per path."""
    from pytoniq_core.boc.cell import Cell
    from . import C05
    nodes = fam_chain(depth, 2) + [(G.ORD, '', (depth, depth))]       # the deduplicated DAG: what the library may be charged for
    spec = G.spec_dag(nodes)

    def rec(lvl, refs):
        kind, bits, _ = nodes[lvl]
        return dict(kind=kind, bits=bits, refs=refs, mask=0, hashes=[spec[lvl].H[0]], depths=[spec[lvl].D[0]])
    if shape == 'ladder':
        # two copies of every level, each referencing both copies of the level below
        recs = [rec(depth + 1, [1, 2])]
        for lvl in range(depth, -1, -1):
            below = 3 + 2 * (depth - lvl)
            for _copy in range(2):
                recs.append(rec(lvl, [below, below + 1] if lvl > 0 else []))
    else:
        # the whole chain written twice; inside a copy every cell references its child twice (the same record)
        recs = [rec(depth + 1, [1, 2 + depth])]
        for c in range(2):
            first = 1 + c * (depth + 1)
            for k in range(depth + 1):
                recs.append(rec(depth - k, [first + k + 1] * 2 if k < depth else []))
    n = len(recs)
    size = 1 if n < 256 else 2
    tot = sum(len(C05.enc_record(r, size, False)) for r in recs)
    fr = dict(magic='g', size=size, off=max(1, (tot.bit_length() + 7) // 8), idx=False, crc=False, cache=False, store=[], cflags=[])
    bs = C05.py_encode(recs, [0], fr)
    inp = {'family': tag, 'boc': bs.hex() if len(bs) < 4000 else f'{len(bs)} bytes: unshared 2-refs chain of depth {depth}'}
    m = check_boc_bytes(ctx, bs, tag, inp_extra={'family': tag})
    if m.exc is not None or m.aborted or not m.result:
        ctx.count('unshared:not-parsed')
        return
    root = m.result[0]
    arg = dag_arg(nodes)
    ans = ctx.model.run([f'costorder {arg}', f'costboc {arg} 000'])
    o = ans[0].split()
    st = int(o[1]) + int(o[2])
    steps_boc = int(ans[1].split()[1])
    twin_a, twin_b = (root.refs[0], root.refs[1]) if len(root.refs) == 2 else (root, root)
    for op, steps, fn, what in (('order', st, lambda: root.order(), 'Cell.order on a parsed non-deduplicated bag'),
                                ('toboc', steps_boc, lambda: root.to_boc(False, False, False), 'Cell.to_boc on a parsed non-deduplicated bag'),
                                ('order', st, lambda: (twin_a == twin_b, hash(twin_a) == hash(twin_b), twin_b in {twin_a}, {twin_a: 1}.get(twin_b)),
                                 '== / hash / set and dict lookup on equal-but-distinct cells')):
        mm = metered(op, steps, fn)
        if not judge(ctx, op, steps, mm, {**inp, 'op': what}, what):
            return
        if mm.exc is not None:
            ctx.fail(f'{op}:raised', f'{what} raised {type(mm.exc).__name__}', inp, repr(mm.exc), 'a result')
            return
    ctx.count('unshared:ok')


def check_boc_batch(ctx, items, inp_extra=None):
    """items: list of (tag, bytes): Cell.from_boc on each, against bocCost.total"""
    from pytoniq_core.boc.cell import Cell
    if not items:
        return []
    answers = ctx.model.run([f'costbocparse {bs.hex() or "-"}' for _, bs in items])
    out = []
    for (tag, bs), a in zip(items, answers):
        total = int(a.split()[1])
        inp = {'boc': bs.hex() if len(bs) <= 20000 else f'{len(bs)} bytes: {tag}', 'tag': tag, **(inp_extra or {})}
        m = metered('fromboc', total, lambda: Cell.from_boc(bs))
        ctx.count('fromboc:' + ('ok' if m.exc is None and not m.aborted else 'raises'))
        ctx.count('fromboc-family:' + tag.split('/')[0])
        judge(ctx, 'fromboc', total, m, inp, 'Cell.from_boc')
        out.append(m)
    return out


def check_boc_bytes(ctx, bs, tag, inp_extra=None):
    return check_boc_batch(ctx, [(tag, bs)], inp_extra)[0]


# ----------------------------------------------------------------------------- BoC byte strings

def be(v, w):
    return (v % (1 << (8 * w))).to_bytes(w, 'big') if w else b''


def boc_header(sb, ob, cells, roots, absent, tot, flags=0, magic=b'\xb5\xee\x9c\x72'):
    if magic == b'\xb5\xee\x9c\x72':
        out = magic + bytes([flags | sb, ob])
    else:
        out = magic + bytes([sb, ob])
    return out + be(cells, sb) + be(roots, sb) + be(absent, sb) + be(tot, ob)


def adversarial_bocs(rng, n):
    """byte strings whose count fields are huge compared with the bytes that follow"""
    out = []
    leaf = bytes([0, 2, 0xaa])               # one cell, 8 data bits
    big = lambda w: (1 << (8 * w)) - 1
    for sb in (1, 2, 3, 4, 7):
        for ob in (1, 2, 4, 8):
            for flags in (0, 128, 64, 128 + 64, 32 + 128):
                body = leaf * rng.randrange(0, 40)
                out.append(('cells_num-max', boc_header(sb, ob, big(sb), 1, 0, len(body), flags) + be(0, sb) + body))
                out.append(('roots_num-max', boc_header(sb, ob, 1, big(sb), 0, len(body), flags) + body))
                out.append(('roots-eat-body', boc_header(sb, ob, 1, len(body) // sb, 0, 0, flags) + body))
                out.append(('idx-eat-body', boc_header(sb, ob, len(body) // ob, 1, 0, 0, flags | 128) + be(0, sb) + body))
                out.append(('tot-max', boc_header(sb, ob, 1, 1, 0, big(ob), flags) + be(0, sb) + body))
                cells = rng.randrange(1, 300)
                out.append(('cells_num>body', boc_header(sb, ob, cells, 1, 0, len(body), flags) + be(0, sb) + body))
    for magic in (b'\x68\xff\x65\xf3', b'\xac\xc3\xa7\x28'):
        for sb in (0, 1, 2, 50, 255):
            body = leaf * rng.randrange(0, 60)
            out.append(('legacy', magic + bytes([sb, 2]) + be(rng.randrange(1 << 16), sb) + be(1, sb) + be(0, sb) + be(len(body), 2) + body))
            out.append(('legacy-idx', magic + bytes([sb, 1]) + be(len(body), sb) + be(1, sb) + be(0, sb) + be(0, 1) + body))
    out.append(('sb0', boc_header(0, 0, 0, 0, 0, 0) + bytes(200)))
    out.append(('ob0-idx', boc_header(2, 0, 65535, 1, 0, 0, 128) + bytes(300)))
    out.append(('ob0', boc_header(2, 0, 65535, 0, 0, 0, 0) + bytes(300)))
    # refs-heavy cells: 4 refs each, 1 byte index
    body = b''.join(bytes([4, 0, min(i + 1, 99), min(i + 1, 99), min(i + 1, 99), min(i + 1, 99)]) for i in range(99)) + bytes([0, 0])
    out.append(('refs-heavy', boc_header(1, 2, 100, 1, 0, len(body)) + b'\x00' + body))
    body = bytes([7, 0] + [1] * 7) * 40 + bytes([0, 0])
    out.append(('7refs', boc_header(1, 2, 41, 1, 0, len(body)) + b'\x00' + body))
    rng.shuffle(out)
    out = out[:n]
    # always present: zero-width offset field (off_bytes = 0) under the index flag / the legacy magics with a huge cell count --
    # the index loop must be cut by the input length, never run cells_num times
    for sb in (2, 3, 4, 7):
        out.append(('ob0-idx-big', boc_header(sb, 0, big(sb), 1, 0, 0, 128) + bytes(rng.randrange(0, 64))))
        out.append(('ob0-idx-big', boc_header(sb, 0, big(sb) >> 1, 1, 0, 0, 128 + 32) + be(0, sb) + bytes(rng.randrange(0, 64))))
    for magic in (b'\x68\xff\x65\xf3', b'\xac\xc3\xa7\x28'):
        for sb in (3, 4, 8):
            out.append(('legacy-ob0-big', magic + bytes([sb, 0]) + be(big(sb), sb) + be(1, sb) + be(0, sb) + bytes(rng.randrange(0, 64))))
    return out


def mutate_bytes(rng, bs):
    b = bytearray(bs)
    r = rng.random()
    if r < 0.35 and len(b) > 6:
        for _ in range(rng.randrange(1, 4)):
            b[rng.randrange(4, min(len(b), 24))] = rng.choice([0, 1, 2, 0x7f, 0x80, 0xff, rng.randrange(256)])
    elif r < 0.55:
        b = b[:rng.randrange(len(b) + 1)]
    elif r < 0.7:
        b += bytes(rng.randrange(1, 40))
    else:
        for _ in range(rng.randrange(1, 6)):
            b[rng.randrange(len(b))] = rng.randrange(256)
    return bytes(b)


# ----------------------------------------------------------------------------- dictionaries

def dd_arg(nodes):
    return '|'.join(f"{b or '-'},{'.'.join(map(str, k)) or '-'},{1 if o else 0}" for b, k, o in nodes)


def dd_build(nodes):
    """nodes: (bits, kids, ordinary) ; exotic bottom = library cell (kind 2)"""
    from pytoniq_core.boc.cell import Cell
    from pytoniq_core.boc.tvm_bitarray import TvmBitarray
    from bitarray import bitarray
    out = []
    for bits, kids, ordinary in nodes:
        out.append(Cell(TvmBitarray(1023, bitarray(bits)), [out[k] for k in kids], -1 if ordinary else 2))
    return out


def label_short(s):
    return '0' + '1' * len(s) + '0' + s


def label_long(s, m):
    return '10' + format(len(s), f'0{max(m.bit_length(), 1)}b') + s


def label_same(bit, n, m):
    return '11' + bit + format(n, f'0{max(m.bit_length(), 1)}b')


def cell_to_ddag(root):
    """library cell tree -> DDag nodes (deduplicated by hash)"""
    nodes, idx = [], {}

    def go(c):
        if c.hash in idx:
            return idx[c.hash]
        kids = [go(r) for r in c.refs]
        nodes.append((c.bits.to01(), tuple(kids), c.type_ == -1))
        idx[c.hash] = len(nodes) - 1
        return idx[c.hash]
    go(root)
    return nodes


def fam_dict_shared(depth, key_len, bottom, label='short'):
    """maximal sharing: every fork references the same child twice; total unfolded size 2^depth"""
    m = key_len - depth          # bits left at the leaves
    if bottom == 'exotic':
        nodes = [(G.bytes_to_bits(bytes([2]) + bytes(32)), (), False)]
    elif bottom == 'short':
        nodes = [('0', (), True)]           # label parse runs out of bits
    else:
        lab = label_short('1' * m) if m >= 0 else '00'
        nodes = [(lab + '10101010', (), True)]
    for d in range(depth):
        lab = '00' if label == 'short' else ('100' if label == 'long0' else '00')
        nodes.append((lab, (d, d), True))
    return nodes


def fam_dict_bogus(rng, depth, key_len):
    """a chain (some forks shared) whose upper `good` edges carry empty labels and whose other labels announce arbitrary lengths,
    mostly larger than the remaining key: since the {n <= m} repair the first such label raises (before it the remaining key went
    negative and the parse walked on to the bottom of the bag)"""
    good = rng.choice([0, 0, 1, 2, rng.randrange(0, max(1, min(depth, key_len)))])
    nodes = [('00', (), True)]
    for d in range(depth):
        mode = rng.randrange(3)
        over = rng.randrange(1, 40)
        if depth - 1 - d < good:
            lab = '00'
        elif mode == 0:
            lab = '0' + '1' * over + '0' + '1' * over
        elif mode == 1:
            lab = '10' + format(over, f'0{max(key_len.bit_length(), 1)}b') + '0' * over
        else:
            lab = '111' + '1' * max(key_len.bit_length(), 1)
        kids = (d, d) if (depth <= 10 and rng.random() < 0.5) else (d,)     # shared forks unfold to 2^depth: keep them shallow
        nodes.append((lab, kids, True))
    return nodes


def over_label(kind, n, m):
    """bit pattern of an `HmLabel` constructor announcing n bits although only m remain (n > m, n < 2^bit_length(m) for long/same:
    a `#<= m` field with m = 2^k - 1 cannot announce more than m)"""
    assert kind == 's' or m < n < (1 << m.bit_length()), (kind, n, m)
    if kind == 's':
        return '0' + '1' * n + '0' + '1' * n
    if kind == 'l':
        return '10' + format(n, f'0{max(m.bit_length(), 1)}b') + '1' * n
    return '11' + '0' + format(n, f'0{max(m.bit_length(), 1)}b')


def fam_dict_overlong(depth, key_len, kind, below):
    """shared forks over an exotic bottom (as `shared-forks-pruned-bottom`) under an edge whose label is longer than the key
    remaining there; below = 0: that edge is the root, below = j: it hangs (twice) under j ordinary forks with empty labels"""
    nodes = fam_dict_shared(depth, key_len, 'exotic')
    m = key_len - below
    nodes.append((over_label(kind, m + 1, m), (depth, depth), True))
    for j in range(below):
        nodes.append(('00', (depth + 1 + j, depth + 1 + j), True))
    return nodes


def check_dict(ctx, nodes, key_len, tag):
    from pytoniq_core.boc.hashmap.hashmap import HashMap
    a = ctx.model.run([f'costdict {dd_arg(nodes)} {key_len}'])[0].split()
    res, calls, tsize = a[1], a[2], int(a[3])
    if res == 'oof':
        ctx.corr_broken(f'dict cost model out of fuel on {tag}')
        return
    steps = int(res.split('.')[1])
    ncalls = int(calls.split('.')[1])
    if ncalls > 2 * tsize:
        ctx.corr_broken(f'dict model: calls {ncalls} > 2*treeSize {2 * tsize} on {tag} (contradicts c19_dict_parse)')
    entries, stops = int(a[4]), int(a[5])
    if calls.startswith('done') and ncalls + 2 != 4 * (entries + stops):
        ctx.corr_broken(f'dict model: calls {ncalls} != 4*(entries {entries} + stops {stops}) - 2 on {tag} (contradicts c19_dict_output)')
    inp = {'dict': [list(n) for n in nodes], 'key_len': key_len, 'tag': tag}
    try:
        cells = dd_build(nodes)
    except Exception as e:
        ctx.corr_broken(f'C19 dict generator: cells not constructible on {tag}: {e!r}')
        return
    root = cells[-1]
    if root.type_ != -1:
        steps = 0
    m = metered('dict', steps, lambda: HashMap.parse(root.begin_parse(), key_len))
    ctx.count('dict:' + ('ok' if m.exc is None else type(m.exc).__name__))
    ctx.count('dict-model:' + res.split('.')[0])
    if not tag.startswith('shared') and not tag.startswith('bogus'):
        # dictionaries without shared forks: the input bound of the property as written
        nbytes = len(root.to_boc())
        if m.lines > 400 * nbytes + 20000:
            ctx.fail('dict-input-bound:other', f'HashMap.parse work is not bounded by the input size on a dictionary without shared forks ({tag})',
                     inp, f'{m.lines} lines', f'<= {400 * nbytes + 20000} (400 per input byte + 20000)')
    if judge(ctx, 'dict', steps, m, inp, 'HashMap.parse'):
        lib_raised = m.exc is not None
        # output-bounded reading (c19_dict_output): the entries the model counts are the entries the library returns
        if res.startswith('done') and not lib_raised and isinstance(m.result, dict) and key_len != 0 and root.type_ == -1:
            ctx.count('dict:entries-compared')
            if len(m.result) != entries:
                ctx.corr_broken(f'dict model: {entries} entries (dictOut) but the library returned {len(m.result)} on {tag}')
        if res.startswith('done') and lib_raised and not isinstance(m.exc, RecursionError):
            ctx.count('dict:model-done-lib-raised')
        if res.startswith('raised') and not lib_raised and root.type_ == -1:
            ctx.count('dict:model-raised-lib-returned')
            ctx.corr_broken(f'dict cost model: the model parse raises but HashMap.parse returned {_short_inp(m.result)} on {tag} (key length {key_len})')
    return m


def dict_input_bound(ctx):
    """The property as WRITTEN for dictionaries: work bounded by the length of the input.  The library (and the model, which
    mirrors it) unfold shared forks once per path, so two families break that reading - recorded in known_findings.json, one key
    each; every other dictionary in this run is additionally held to the input bound (`dict-input-bound:other`).  A third family
    (a label longer than the remaining key above shared forks) was repaired: such a label must be REFUSED AT ONCE
    (c19_dict_depth_le_keylen, c10_label_too_long_rejected) - all three constructors, at the root and below forks."""
    from pytoniq_core.boc.hashmap.hashmap import HashMap
    depth = 14
    fams = [('shared-forks-entries', fam_dict_shared(depth, depth + 2, 'leaf'), depth + 2,
             f'a {depth + 1}-cell dictionary whose forks reference the same child twice, read with key length {depth + 2}: 2^{depth} genuine entries', False),
            ('shared-forks-pruned-bottom', fam_dict_shared(depth, depth + 2, 'exotic'), depth + 2,
             f'the same forks over ONE non-ordinary (pruned / library) bottom cell: 2^{depth} visits, EMPTY result', False)]
    for kind in 'msl':
        for below in (0, 1, 2):
            fams.append(('shared-forks-label-longer-than-key', fam_dict_overlong(depth, depth + 6, kind, below), depth + 6,
                         f'a label longer than the remaining key ({dict(s="hml_short", l="hml_long", m="hml_same")[kind]}, {below} fork(s) below the '
                         f'root, n = remaining key + 1) over 2^{depth} shared paths: the label violates {{n <= m}} and must be refused at once', True))
    for key, nodes, key_len, what, must_raise in fams:
        cells = dd_build(nodes)
        root = cells[-1]
        nbytes = len(root.to_boc())
        lim = 400 * nbytes + 20000
        m = measure(lambda: HashMap.parse(root.begin_parse(), key_len), max_lines=lim, max_seconds=WALL_CAP)
        ctx.case(('dict-input-bound', key, dd_arg(nodes)), sample={'op': 'dict-input-bound', 'family': key, 'bytes': nbytes, 'lines': m.lines})
        ctx.count('dict-input-bound:' + key)
        inp = {'dict': [list(n) for n in nodes], 'key_len': key_len, 'tag': 'input-bound:' + key, 'bytes': nbytes}
        if m.aborted or m.lines > lim:
            ctx.fail('dict-input-bound:' + key, f'HashMap.parse does work exponential in the input size: {what}', inp,
                     f'> {lim} lines ({m.lines} when stopped)', f'<= 400 lines per input byte + 20000 = {lim}')
        elif must_raise and m.exc is None:
            ctx.fail('dict-input-bound:' + key, f'HashMap.parse returned instead of refusing: {what}', inp,
                     f'returned {_short_inp(m.result)} after {m.lines} lines', 'an exception at the over-long label')
    # the same edges through the cost model and the measured tie (smaller unfoldings: a reverted repair costs 2^8 visits, not 2^14)
    for kind in 'msl':
        for below in (0, 1, 3):
            check_dict(ctx, fam_dict_overlong(8, 12, kind, below), 12, f'overlong-{kind}-{below}')      # remaining 12, 11, 9


def valid_dict_cell(rng, key_len, n):
    from pytoniq_core.boc.hashmap.hashmap import HashMap
    from pytoniq_core.boc.builder import Builder
    hm = HashMap(key_len, value_serializer=lambda src, dest: dest.store_uint(src, 16))
    mode = rng.randrange(3)
    for _ in range(n):
        if mode == 0:
            k = rng.getrandbits(key_len)
        elif mode == 1:
            k = rng.getrandbits(min(key_len, 6))                    # long common prefixes
        else:
            k = ((1 << key_len) - 1) ^ rng.getrandbits(min(key_len, 5))
        hm.set_int_key(k, rng.getrandbits(16))
    return hm.serialize()


# ----------------------------------------------------------------------------- TL

SYNTH_TL = [
    'c19.leaf a:int = c19.Leaf;',
    'c19.pair a:int b:long = c19.Pair;',
    'c19.empty = c19.Empty;',
    'c19.blob data:bytes = c19.Blob;',
    'c19.twoblobs x:bytes y:bytes = c19.Blob;',
    'c19.vecpair v:(vector c19.pair) = c19.Vec;',
    'c19.vecboxed v:(vector c19.Blob) = c19.Vec;',
    'c19.vecint v:(vector int) = c19.Vec;',
    'c19.vecempty v:(vector c19.empty) = c19.Vec;',
    'c19.vecvec v:(vector c19.vecpair) = c19.Vec;',
    'c19.nest p:c19.pair q:c19.Blob w:c19.vecpair = c19.Nest;',
    'c19.flagged flags:# a:flags.0?int b:flags.1?bytes c:flags.2?(vector c19.pair) d:flags.31?long = c19.Flagged;',
    'c19.deep a:c19.nest b:c19.nest c:bytes = c19.Deep;',
    'c19.str s:string n:int = c19.Str;',
]
REAL_TL = ['tonNode.blockIdExt', 'tonNode.blockId', 'tonNode.zeroStateIdExt', 'liteServer.signature', 'liteServer.signatureSet',
           'liteServer.transactionId', 'liteServer.blockTransactions', 'liteServer.transactionList', 'liteServer.blockLinkBack',
           'liteServer.blockLinkForward', 'liteServer.partialBlockProof', 'liteServer.libraryEntry', 'liteServer.libraryResult',
           'liteServer.shardBlockLink', 'liteServer.shardBlockProof', 'liteServer.masterchainInfo', 'liteServer.accountState',
           'liteServer.getConfigParams', 'liteServer.getLibraries', 'liteServer.error', 'liteServer.query', 'adnl.message.query',
           'adnl.message.answer', 'adnl.message.part', 'adnl.packetContents', 'adnl.id.short', 'pub.ed25519', 'adnl.address.udp',
           'adnl.addressList', 'adnl.node', 'adnl.nodes', 'overlay.node', 'overlay.nodes', 'dht.node', 'dht.nodes',
           'liteServer.nonfinal.validatorGroupInfo', 'liteServer.nonfinal.validatorGroups', 'liteServer.nonfinal.candidateInfo',
           'liteServer.nonfinal.candidate', 'liteServer.nonfinal.candidateId', 'testVectorBytes', 'catchain.block.dep',
           'catchain.block.data', 'catchain.block', 'catchain.block.id']


class TlEnv:
    """a TlSchemas instance of the library + the same table in the cost model's syntax"""

    def __init__(self, full=False):
        from pytoniq_core.tl.generator import TlGenerator, TlSchemas, TlRegistrator
        default = TlGenerator.with_default_schemas().generate()
        reg = TlRegistrator()
        if full:
            lst = [s for s in default.list if not s.is_empty()]
        else:
            lst = [reg.register(t) for t in SYNTH_TL]
            for name in REAL_TL:
                s = default.get_by_name(name)
                if s is not None:
                    lst.append(s)
        self.schemas = TlSchemas(lst)
        # behaviour probes (the model mirrors the code that exists; two pending repairs on fix/tl change what is parsed):
        #  * vectors of base types parsed element-wise through a one-field pseudo schema {'_': subtype}
        #  * `#` fields read unsigned
        probe = TlSchemas([reg.register('c19.pvec v:(vector int) = c19.P;'), reg.register('c19.pflag flags:# = c19.P;')])
        try:
            r, _ = probe.deserialize(probe.get_by_name('c19.pvec').little_id() + (2).to_bytes(4, 'little') + bytes(8))
            self.base_vec = r.get('v') == [0, 0]
        except Exception:
            self.base_vec = False
        try:
            r, _ = probe.deserialize(probe.get_by_name('c19.pflag').little_id() + b'\xff\xff\xff\xff')
            self.nat_unsigned = r.get('flags', -1) > 0
        except Exception:
            self.nat_unsigned = False
        self.pseudo = {}            # base type -> index of its one-field pseudo schema (appended to the table)
        # the library resolves by id / name through dicts (last registration wins): table index = that schema
        self.lst = lst
        self.index = {id(s): i for i, s in enumerate(lst)}
        rows = [self.schema_str(s) for s in lst]
        for t, i in sorted(self.pseudo.items(), key=lambda kv: kv[1]):
            k = self.schemas.base_types[t]
            rows.append('ffffffffff:' + (f'f{k}' if k else ('b1' if t in ('bytes', 'string') else 'f0')))
        self.table = '|'.join(rows)

    def sid(self, name):
        s = self.schemas.get_by_name(name)
        return None if s is None else self.index[id(s)]

    def schema_str(self, s):
        S = self.schemas
        wire = s.little_id().hex() if S.id_map.get(s.id) is s else 'ffffffffff'   # shadowed duplicates are unreachable by id
        fs = []
        for field, t in s.args.items():
            cond = ''
            if '?' in t:
                cond = 'c%d?' % int(t[t.find('.') + 1: t.find('?')])
                t = t.split('?')[-1]
            if t in S.base_types:
                k = S.base_types[t]
                if k:
                    ty = (('U' if (t == '#' and self.nat_unsigned) else 'F') if field in ('mode', 'flags') else 'f') + str(k)
                elif t in ('bytes', 'string'):
                    auto = not (s.name in S.untouchables and field in S.untouchables[s.name])
                    ty = 'b1' if auto else 'b0'
                else:
                    ty = 'f0'
            elif t.startswith('('):
                if 'vector' in t:
                    st = t.split()[1][:-1]
                    sub = self.sid(st)
                    if self.base_vec and st in S.base_types:
                        if st not in self.pseudo:
                            self.pseudo[st] = len(self.lst) + len(self.pseudo)
                        sub = self.pseudo[st]
                    ty = 'vx' if sub is None else f'v{sub}'
                else:
                    ty = 'f0'
            else:
                sub = self.sid(t)
                ty = 'sx' if sub is None else f's{sub}'
            fs.append(cond + ty)
        return wire + ':' + (';'.join(fs) or '-')

    # --- generation of plausible byte strings guided by the schemas
    def gen_boxed(self, rng, depth, cands=None):
        s = rng.choice(cands or self.lst)
        return s.little_id() + self.gen_fields(rng, s, depth)

    def gen_bytes_field(self, rng, content):
        n = len(content)
        out = (bytes([n]) if n <= 253 else b'\xfe' + n.to_bytes(3, 'little')) + content
        return out + bytes(-len(out) % 4)

    def gen_fields(self, rng, s, depth):
        S = self.schemas
        out = b''
        if depth < -12:                 # a table with a bare cycle: do not follow it for ever
            return out
        for field, t in s.args.items():
            if '?' in t:
                t = t.split('?')[-1]
                if rng.random() < 0.3:
                    continue
            if t in S.base_types:
                k = S.base_types[t]
                if k:
                    if field in ('mode', 'flags'):
                        out += rng.choice([0, 1, 3, 7, 0xffffffff, 0x80000000, rng.getrandbits(32)]).to_bytes(4, 'little')
                    else:
                        out += rng.randbytes(k)
                elif t in ('bytes', 'string'):
                    r = rng.random()
                    if depth <= 0 or r < 0.3:
                        content = rng.randbytes(rng.randrange(0, 12))
                    elif r < 0.7:
                        content = self.gen_boxed(rng, depth - 1)
                    else:
                        content = b''.join(self.gen_boxed(rng, depth - 1) for _ in range(rng.randrange(2, 5)))
                    out += self.gen_bytes_field(rng, content)
            elif t.startswith('(') and 'vector' in t:
                sub = S.get_by_name(t.split()[1][:-1])
                n = rng.randrange(0, 4) if depth > 0 else 0
                out += n.to_bytes(4, 'little')
                for _ in range(n):
                    out += self.gen_fields(rng, sub, depth - 1) if sub else self.gen_boxed(rng, depth - 1)
            elif not t.startswith('('):
                sub = S.get_by_name(t)
                out += self.gen_fields(rng, sub, depth - 1) if sub else (self.gen_boxed(rng, depth - 1) if depth > 0 else rng.randbytes(4))
        return out

    def tower(self, rng, levels):
        """nested `bytes` re-parse tower: blob(blob(blob(...))) with trailing junk objects at every level"""
        blob = self.schemas.get_by_name('c19.blob')
        leaf = self.schemas.get_by_name('c19.leaf')
        cur = leaf.little_id() + b'\x01\x00\x00\x00'
        for _ in range(levels):
            content = cur + b''.join(leaf.little_id() + rng.randbytes(4) for _ in range(rng.randrange(0, 3)))
            cur = blob.little_id() + self.gen_bytes_field(rng, content)
        return cur


def check_tl_side(ctx, env, tag):
    """the table sent to the driver must satisfy the hypotheses of c19_tl_total (Ids4, NoBareCycle R) and the driver's
    depth fuel (len/4+2)(|tbl|+2) must dominate tlFuel R len = (len/4+1)(R+2), i.e. R <= |tbl|"""
    if getattr(env, 'side', None) is not None:
        return env.side
    a = ctx.model.run([f'costtlside {env.table}'])[0].split()
    env.side = a
    rows = env.table.count('|') + 1
    if a[0] == 'ok' and a[2] == 'none':
        check_bare_cycle(ctx, env, tag)
    if a[0] != 'ok' or a[1] != '1' or a[2] == 'none' or int(a[2]) > rows:
        ctx.corr_broken(f'TL table of {tag} violates the side conditions of c19_tl_total (ids4={a[1:2]}, bare depth={a[2:3]}): '
                        f'a bare-reference cycle makes deserialize recurse without consuming input')
    else:
        ctx.count(f'tl-table:{tag}:rows={rows},bareDepth={a[2]},maxFields={a[3]}')
    return a


def check_bare_cycle(ctx, env, tag):
    """NoBareCycle on the library itself: a schema that (transitively) contains itself as a bare field makes the bare parse
    of the EMPTY input recurse without consuming anything (c19_tl_bare_cycle_diverges) -- a concrete failing input."""
    rows = env.table.split('|')
    g = []
    for r in rows:
        fs = r.split(':')[1]
        g.append([int(f.split('?')[-1][1:]) for f in ([] if fs == '-' else fs.split(';'))
                  if f.split('?')[-1][0] in 'sv' and f.split('?')[-1][1:] != 'x'])
    state = {}

    def on_cycle(v):
        stack = [(v, iter(g[v]))]
        state[v] = 1
        while stack:
            u, it = stack[-1]
            nxt = next(it, None)
            if nxt is None:
                state[u] = 2
                stack.pop()
            elif nxt < len(g) and state.get(nxt) == 1:
                return nxt
            elif nxt < len(g) and nxt not in state:
                state[nxt] = 1
                stack.append((nxt, iter(g[nxt])))
        return None
    for v in range(min(len(g), len(env.lst))):
        if v in state:
            continue
        c = on_cycle(v)
        if c is not None and c < len(env.lst):
            sch = env.lst[c]
            m = metered('tl', 3, lambda: env.schemas.deserialize(b'', False, sch.args))
            ctx.case(('tl-bare-cycle', sch.name), sample={'op': 'tl-bare-cycle', 'schema': sch.name, 'lines': m.lines})
            if m.aborted or isinstance(m.exc, RecursionError) or m.lines > budget('tl', 3):
                ctx.fail(f'tl:bare-cycle:{sch.name}', f'schema {sch.name} contains itself through bare fields: deserialize(b"", False, args) '
                         f'recurses without consuming input ({m.lines} lines, {type(m.exc).__name__ if m.exc else m.aborted})',
                         {'tl': '', 'mode': sch.name, 'tag': tag}, f'>= {m.lines} lines', f'<= {budget("tl", 3)} lines')
            return True
    return False


def check_tl(ctx, env, items, tag, f16_fixed=True):
    """items: list of (bytes, mode) ; mode None = boxed, or a schema name (bare).
    f16_fixed=False: the library still has the unguarded vector loop (known finding F16); inputs on which the MODEL's
    vector-length guard fires are the same defect and are skipped (counted), every other input is checked."""
    reqs = []
    for bs, mode in items:
        reqs.append(('x' if mode is None else str(env.sid(mode))) + ':' + (bs.hex() or '-'))
    check_tl_side(ctx, env, tag)
    ans = ctx.model.run([f'costtl {env.table} ' + ','.join(reqs)])[0]
    assert ans.startswith('ok '), ans[:200]
    outs = ans[3:].split(',')
    res = []
    for (bs, mode), o in zip(items, outs):
        f = o.split('.')
        if f[0] == 'oof':
            ctx.corr_broken(f'TL cost model out of fuel on {tag}: {bs.hex()[:200]} (contradicts c19_tl_fuel)')
            continue
        steps = int(f[-1])
        if f[0] == 'guard' and not f16_fixed:
            ctx.count('tl:skipped-vector-guard-input(F16 unrepaired)')
            continue
        inp = {'tl': bs.hex(), 'mode': mode or 'boxed', 'tag': tag}
        if mode is None:
            fn = lambda: env.schemas.deserialize(bs)
        else:
            sch = env.schemas.get_by_name(mode)
            fn = lambda: env.schemas.deserialize(bs, False, sch.args)
        m = metered('tl', steps, fn)
        ctx.count('tl:' + ('ok' if m.exc is None else type(m.exc).__name__))
        ctx.count('tl-model:' + f[0])
        judge(ctx, 'tl', steps, m, inp, 'TlSchemas.deserialize')
        res.append((m, steps))
    return res


def f16_probe(ctx, env):
    """the unrepaired vector loop: liteServer.signatureSet declaring 2^22 signatures over 0 bytes (DESIGN §7 F16).
    Returns True iff the library bounds the loop (repair present)."""
    s = env.schemas.get_by_name('liteServer.signatureSet')
    bs = s.little_id() + bytes(8) + (1 << 22).to_bytes(4, 'little')
    a = ctx.model.run([f'costtl {env.table} x:{bs.hex()}'])[0][3:].split('.')
    steps = int(a[-1])
    if a[0] != 'guard':
        ctx.corr_broken('TL cost model: the vector-length guard does not fire on the canonical F16 input')
    m = metered('tl', steps, lambda: env.schemas.deserialize(bs))
    ctx.case(('tl-f16', bs.hex()), sample={'op': 'tl-f16', 'steps': steps, 'lines': m.lines})
    if m.aborted or m.lines > budget('tl', steps):
        ctx.fail(F16_KEY, 'TL vector loop trusts the declared length: liteServer.signatureSet with vector length 2^22 over 0 bytes '
                          'iterates 4 194 304 times (~30 s); repaired on fix/tl (bb2706a), not yet merged',
                 {'tl': bs.hex(), 'mode': 'boxed', 'schema': 'liteServer.signatureSet'}, f'>= {m.lines} lines', f'<= {budget("tl", steps)} lines')
        return False
    return True


def tl_vector_family(rng, env, n):
    """vectors whose declared length is far beyond the remaining bytes"""
    S = env.schemas
    out = []
    vec_schemas = [s for s in env.lst if any('vector' in t for t in s.args.values())]
    for _ in range(n):
        s = rng.choice(vec_schemas)
        body = b''
        for field, t in s.args.items():
            if '?' in t:
                t = t.split('?')[-1]
            if 'vector' in t:
                declared = rng.choice([(1 << 32) - 1, 1 << 31, 1 << 22, 1 << 16, 1000, 255, rng.getrandbits(32)])
                body += declared.to_bytes(4, 'little') + rng.randbytes(rng.choice([0, 0, 4, 8, 40, 200]))
                break
            k = S.base_types.get(t)
            if k:
                body += (b'\xff\xff\xff\xff' if field in ('mode', 'flags') else rng.randbytes(k))
            elif t in ('bytes', 'string'):
                body += b'\x00\x00\x00\x00'
            else:
                sub = S.get_by_name(t)
                body += env.gen_fields(rng, sub, 0) if sub else rng.randbytes(4)
        out.append((s.little_id() + body, None))
    return out


# ----------------------------------------------------------------------------- run

def src_search(ctx):
    """Search mode only: logs the points where the regenerated TL guard / framing arithmetic (Generated/TlFraming.lean) differs from the
    cost model's, then runs the TL families first: the canonical F16 input, vectors declaring far more elements than bytes remain,
    well-formed and damaged objects.  True = a concrete failing input was found."""
    arith2.search_points(ctx, ['TlFraming'])
    n0 = len(ctx.failures)
    # the emitter's loops (c19_src_order_linear / c19_src_serialize_poly): Lean compares the regenerated Cell.order / to_boc with the
    # hand model on boundary DAGs; the differing DAGs are measured first (work of order / to_boc against the cost model)
    try:
        from ..translate import bocemit
        cases = [c for c in bocemit.validation_dags() if len(c[1]) <= bocemit.BIG]
        found, _ = bocemit.diff_inputs(ctx, cases)
        first = [(t, n, r) for t, n, r, _ in found]
        for tag, nodes, root in (first + [c for c in cases if c[0] not in {t for t, _, _ in first}])[:25]:
            if root == len(nodes) - 1 and all(k == G.ORD for k, _, _ in nodes):
                check_dag(ctx, [(k, b, tuple(r)) for k, b, r in nodes], 'src-' + tag)
            if len(ctx.failures) > n0:
                return True
    except Exception as e:
        if type(e).__name__ == 'MachineryError':
            raise
        ctx.notes.append(f'emitter source-diff search failed: {type(e).__name__}: {e}')
    rng = ctx.rng
    env = TlEnv()
    fixed = f16_probe(ctx, env)
    if fixed:
        check_tl(ctx, env, tl_vector_family(rng, env, 200), 'tl-vector')
        items = []
        for t in range(150):
            bs = env.gen_boxed(rng, rng.randrange(0, 5))
            items += [(bs, None), (mutate_bytes(rng, bs), None), (bs[:rng.randrange(len(bs) + 1)], None)]
        check_tl(ctx, env, items, 'tl', f16_fixed=fixed)
    return len(ctx.failures) > n0


def dict_calls_case(ctx, t, n, tag):
    """property-level oracle on one cell tree (nested (type, bits, refs)): a `parse` that RETURNS on a tree of ordinary cells must have made
    exactly 4*entries - 2 calls of parse + deserialize_hashmap_node (entries = keys of the result; output-bounded work), and never more than
    2^(n+2) - 2; calls are counted on the real functions by wrappers."""
    from ..translate import hashmapcnt, hashmapsrc
    from pytoniq_core.boc.hashmap import parse as P
    inp = {'kind': 'dict-calls', 'cell': _jsonable(t), 'n': n, 'tag': tag}
    res = hashmapcnt.py_calls([(t, n)])[0]
    status, calls = res.split()
    calls = int(calls)
    ctx.case(('dict-calls', repr(t), n), nontrivial=calls > 3, sample=inp)

    def all_ordinary(x):
        return x[0] == -1 and all(all_ordinary(r) for r in x[2])
    if calls + 2 > 2 ** (n + 2):
        ctx.fail('dict-calls:exceeds-2^(n+2)', 'the dictionary parser made more calls than any tree of this key length allows', inp, calls, f'<= {2 ** (n + 2) - 2}')
    elif status == 'ok' and all_ordinary(t) and n >= 1:
        try:
            entries = len(P.parse_hashmap(hashmapsrc._py_slice(t), n))
        except Exception:
            return
        if calls != 4 * entries - 2:
            ctx.fail('dict-calls:not-output-bounded', 'parse + deserialize_hashmap_node calls of a returning parse differ from 4*entries - 2', inp, calls, 4 * entries - 2)


def _jsonable(t):
    return [t[0], t[1], [_jsonable(r) for r in t[2]]]


def _tupled(t):
    return (t[0], t[1], tuple(_tupled(r) for r in t[2]))


def dict_src_search(ctx):
    """Search mode only (a c19_src_dict_* obligation broke): the call counts of the real functions on the translator's validation cells,
    judged by the output bound.  True = a concrete failing input was found."""
    from ..translate import hashmapcnt
    n0 = len(ctx.failures)
    try:
        for i, (t, n) in enumerate(hashmapcnt.validation_inputs()):
            if n <= 40:
                dict_calls_case(ctx, t, n, f'src-dict{i}')
    except Exception as e:
        ctx.notes.append(f'dictionary call-count search failed: {type(e).__name__}: {e}')
    return len(ctx.failures) > n0


def boc_iters_case(ctx, data, tag, ticks=None):
    """property-level oracle on one byte string, on the REAL code: iterations started by the `for` loops of Boc.deserialize / deserialize_cell
    (first-body-line events, harness/translate/boccnt.py) must satisfy the bounds of c19_src_boc_parse: the three outer loops <= len + 1, the five
    loops <= 3*len + 5, the completion-tag search <= 7 per cell."""
    from ..translate import boccnt
    if ticks is None:
        ticks = boccnt.py_ticks([data], budget=lambda n: 40 * n + 2000)[0]
    t = [int(x) for x in ticks.split()[1:]]
    if len(t) != 6:
        return
    inp = {'kind': 'boc-iters', 'boc': bytes(data).hex(), 'tag': tag}
    ctx.case(('boc-iters', bytes(data).hex()), nontrivial=t[5] > 0, sample=inp)
    n = len(data)
    if ticks.startswith('cut') and t[5] + t[3] + t[2] <= n + 1 and sum(t) - t[1] <= 3 * n + 5:
        ctx.fail('boc-iters:time', 'Boc.deserialize did not finish within 3 s on a short input (work outside the counted loops)', inp, ticks, 'returns or raises at once')
    elif t[5] + t[3] + t[2] > n + 1:
        ctx.fail('boc-iters:outer-loops-exceed-len+1', 'the three loops of Boc.deserialize started more iterations than len(data) + 1', inp, t[5] + t[3] + t[2], f'<= {n + 1}')
    elif t[5] + t[0] + t[3] + t[4] + t[2] > 3 * n + 5:
        ctx.fail('boc-iters:loops-exceed-3len+5', 'the loops of Boc.deserialize / deserialize_cell started more iterations than 3*len(data) + 5', inp, sum(t) - t[1], f'<= {3 * n + 5}')
    elif t[1] > 7 * t[5]:
        ctx.fail('boc-iters:tag-search', 'the completion-tag search ran more than 7 iterations per cell', inp, t[1], f'<= {7 * t[5]}')


def boc_iters_inputs(rng, big):
    """adversarial count fields over few bytes (the families the length checks must cut), plus the translator's validation bags"""
    from ..translate import boccnt, bocheader
    out = [('val', d) for d in boccnt.validation_inputs()]
    for size in (1, 2, 3):
        top = 256 ** size - 1
        for cells, roots, body in ((top, 1, b''), (top, top, b''), (top, 0, bytes(2)), (top, 1, bytes(40)), (3, top, bytes(6)),
                                   (top, 1, bytes([7, 0]) * 5), (top, 1, bytes([0, 0]) * (200 if big else 30))):
            for kind in ('g', 'gi'):
                try:
                    rl = [0] * min(roots, 3)
                    out.append((f'adv-{size}-{cells}-{roots}', bocheader.make_header('g', size | (0x80 if kind == 'gi' else 0), size, 2, cells, len(rl) if roots <= 3 else roots, 0, len(body), rl, None, body)))
                except Exception:
                    pass
    return out


def boc_iters_check(ctx, big=False):
    from ..translate import boccnt
    n0 = len(ctx.failures)
    try:
        inputs = boc_iters_inputs(ctx.rng, big)
        ticks = boccnt.py_ticks([d for _, d in inputs], budget=lambda n: 40 * n + 2000)
        for (tag, d), t in zip(inputs, ticks):
            boc_iters_case(ctx, d, tag, t)
    except Exception as e:
        ctx.notes.append(f'BoC loop-iteration check failed: {type(e).__name__}: {e}')
    return len(ctx.failures) > n0


def run(ctx):
    rng = ctx.rng
    t0 = time.time()
    if ctx.search and (boc_iters_check(ctx, big=True) or dict_src_search(ctx) or src_search(ctx)):
        return
    boc_iters_check(ctx)
    # ---- DAG shapes
    lens = [10, 20, 50, 100, 300, 1000] if not ctx.thorough else [10, 20, 21, 30, 50, 100, 200, 300, 500, 700, 1000]
    for d in lens:
        for w in (2,) if not ctx.thorough else (2, 3, 4):
            check_dag(ctx, fam_chain(d, w), f'chain{d}x{w}')
    check_dag(ctx, fam_chain(rng.randrange(11, 999), rng.choice([2, 3, 4])), 'chain-rand', flagsets=('100', '010', '001'))
    check_dag(ctx, fam_chain(1023, 1), 'chain1023x1', flagsets=('000', '110'))
    check_dag(ctx, fam_chain(1023, 2), 'chain1023x2', flagsets=('000',))
    for k in ((5, 100) if not ctx.thorough else (1, 5, 30, 100, 300)):
        check_dag(ctx, fam_diamonds(k), f'diamonds{k}')
    for layers, width in (((6, 8), (40, 5)) if not ctx.thorough else ((6, 8), (40, 5), (100, 8), (250, 4))):
        check_dag(ctx, fam_wide(layers, width), f'wide{layers}x{width}')
    for d, w in (((50, 2),) if not ctx.thorough else ((50, 1), (50, 2), (300, 2), (100, 4))):
        check_dag(ctx, fam_levels(d, w), f'levels{d}x{w}', flagsets=('000',))
    for t in range(ctx.n(12, 120)):
        check_dag(ctx, fam_random(rng, rng.choice([2, 5, 17, 60, 200])), f'rand{t}', flagsets=(rng.choice(['000', '100', '010', '111', '101']),))
    for d in ((8, 20, 60) if not ctx.thorough else (3, 8, 16, 20, 24, 60, 200, 500)):
        check_unshared(ctx, d, f'unshared-ladder{d}', 'ladder')
        check_unshared(ctx, d, f'unshared-twice{d}', 'twice')
    if CALIBRATE:
        print('after dags', round(time.time() - t0, 1))
    # ---- BoC byte strings
    seeds = []
    from pytoniq_core.boc.cell import Cell
    for nodes in (fam_chain(12, 2), fam_random(rng, 30), fam_diamonds(4)):
        c = G.lib_build(nodes, 'ctor')[-1]
        seeds += [c.to_boc(), c.to_boc(True, True, True), c.to_boc(True, False, False)]
    batch = list(adversarial_bocs(rng, ctx.n(160, 2000)))
    for t in range(ctx.n(250, 4000)):
        batch.append(('mutated', mutate_bytes(rng, rng.choice(seeds))))
    for t in range(ctx.n(40, 400)):
        hdr = rng.choice([b'\xb5\xee\x9c\x72', b'\x68\xff\x65\xf3', b'\xac\xc3\xa7\x28'])
        batch.append(('random-after-magic', hdr + bytes(rng.choice([0, 1, 2, 3, 4, 7, 0x81, 0xc2, 0xff, rng.randrange(256)]) for _ in range(rng.randrange(0, 300)))))
    check_boc_batch(ctx, batch)
    if CALIBRATE:
        print('after bocs', round(time.time() - t0, 1))
    # ---- dictionaries
    for t in range(ctx.n(40, 400)):
        kl = rng.choice([1, 2, 8, 16, 32, 64, 256])
        cell = valid_dict_cell(rng, kl, rng.randrange(1, 40))
        nodes = cell_to_ddag(cell)
        check_dict(ctx, nodes, kl, f'valid{t}')
        if t % 4 == 0:
            check_dict(ctx, nodes, rng.choice([0, 1, kl - 1, kl + 1, 1023]), f'valid-wrong-keylen{t}')
    for depth in ((1, 4, 8, 11) if not ctx.thorough else (1, 2, 4, 8, 10, 11, 12, 13)):
        for bottom in ('leaf', 'exotic', 'short'):
            check_dict(ctx, fam_dict_shared(depth, depth + 3, bottom), depth + 3, f'shared{depth}-{bottom}')
        check_dict(ctx, fam_dict_shared(depth, depth, 'leaf'), depth, f'shared{depth}-exact')
        check_dict(ctx, fam_dict_shared(depth, 2, 'leaf'), 2, f'shared{depth}-key-ends-at-fork')
    for t in range(ctx.n(40, 400)):
        kl = rng.choice([1, 8, 32, 256])
        check_dict(ctx, fam_dict_bogus(rng, rng.choice([1, 5, 30, 200, 900]), kl), kl, f'bogus{t}')
    dict_input_bound(ctx)
    # unary label of maximal length
    check_dict(ctx, [('0' + '1' * 1000 + '0', (), True)], 1023, 'unary1000')
    check_dict(ctx, [('0' + '1' * 1022, (), True)], 1023, 'unary-runs-out')
    if CALIBRATE:
        print('after dicts', round(time.time() - t0, 1))
    # ---- TL
    env = TlEnv()
    fixed = f16_probe(ctx, env)
    items = []
    for t in range(ctx.n(250, 3000)):
        bs = env.gen_boxed(rng, rng.randrange(0, 5))
        items.append((bs, None))
        if t % 3 == 0:
            items.append((mutate_bytes(rng, bs), None))
        if t % 5 == 0:
            items.append((bs[:rng.randrange(len(bs) + 1)], None))
        if t % 7 == 0:
            s = rng.choice(env.lst)
            items.append((env.gen_fields(rng, s, 2), s.name))
    for lv in (1, 5, 20, 60):
        items.append((env.tower(rng, lv), None))
    items += [(b'', None), (b'\x00', None), (bytes(300), None), (b'\xfe' * 300, None)]
    blob = env.schemas.get_by_name('c19.blob')
    items.append((blob.little_id() + b'\xfe\xff\xff\xff' + bytes(200), None))            # bytes field declaring 2^24-1
    items.append((blob.little_id() + b'\xfe\xff\xff\xff' + blob.little_id() * 60, None))
    check_tl(ctx, env, items, 'tl', f16_fixed=fixed)
    if fixed:
        check_tl(ctx, env, tl_vector_family(rng, env, ctx.n(60, 600)), 'tl-vector')
    else:
        ctx.notes.append('TL vector-length family skipped: the canonical F16 input still loops (known finding); it runs once the repair is merged')
    if not ctx.thorough:
        check_tl_side(ctx, TlEnv(full=True), 'tl-full-table')      # the table of c19_tl_bundled_table
    if ctx.thorough:
        envf = TlEnv(full=True)
        check_tl_side(ctx, envf, 'tl-full-table')
        items = [(envf.gen_boxed(rng, rng.randrange(0, 4)), None) for _ in range(300)]
        items += [(mutate_bytes(rng, b), None) for b, _ in items[:100]]
        check_tl(ctx, envf, items, 'tl-full-table', f16_fixed=fixed)
    if CALIBRATE:
        print('after tl', round(time.time() - t0, 1))
        for op, (r, base, at) in sorted(_worst.items()):
            print(f'CALIBRATE {op}: worst (lines-B/4)/steps = {r:.1f} at {at}; max lines at steps<=3: {base}; A={K[op][0]} B={K[op][1]}')


def replay(ctx, payload):
    inp = payload.get('input') or {}
    import re as _re
    mu = _re.match(r'unshared-(ladder|twice)(\d+)$', str(inp.get('family', '')))
    if mu:
        check_unshared(ctx, int(mu.group(2)), inp['family'], mu.group(1))
    elif inp.get('kind') == 'boc-iters':
        boc_iters_case(ctx, bytes.fromhex(inp['boc']), inp.get('tag', 'replay'))
    elif 'boc' in inp and isinstance(inp['boc'], str) and not inp['boc'].endswith(')') and ' bytes' not in inp['boc']:
        check_boc_bytes(ctx, bytes.fromhex(inp['boc']), inp.get('tag', 'replay'))
    elif 'dag' in inp and isinstance(inp['dag'], list):
        check_dag(ctx, [(k, b, tuple(r)) for k, b, r in inp['dag']], inp.get('family', 'replay'))
    elif inp.get('kind') == 'dict-calls':
        dict_calls_case(ctx, _tupled(inp['cell']), inp['n'], inp.get('tag', 'replay'))
    elif 'dict' in inp and isinstance(inp['dict'], list):
        check_dict(ctx, [(b, tuple(k), o) for b, k, o in inp['dict']], inp['key_len'], inp.get('tag', 'replay'))
    elif 'tl' in inp and ' bytes' not in inp['tl']:
        env = TlEnv(full=inp.get('tag') == 'tl-full-table')
        mode = None if inp.get('mode', 'boxed') == 'boxed' else inp['mode']
        check_tl(ctx, env, [(bytes.fromhex(inp['tl']), mode)], inp.get('tag', 'replay'))
    elif 'family' in inp:
        fam = inp['family']
        import re
        m = re.match(r'chain(\d+)x(\d+)$', fam)
        if m:
            check_dag(ctx, fam_chain(int(m.group(1)), int(m.group(2))), fam)
        m = re.match(r'levels(\d+)x(\d+)$', fam)
        if m:
            check_dag(ctx, fam_levels(int(m.group(1)), int(m.group(2))), fam, flagsets=('000',))
        m = re.match(r'diamonds(\d+)$', fam)
        if m:
            check_dag(ctx, fam_diamonds(int(m.group(1))), fam)
        m = re.match(r'wide(\d+)x(\d+)$', fam)
        if m:
            check_dag(ctx, fam_wide(int(m.group(1)), int(m.group(2))), fam)


# ---- c19src2: bytes fed to SHA-256 by the regenerated constructor (Properties/C19Hash.lean, Proofs/SrcCtorBytes.lean) ----
SPEC['property_modules'] = list(SPEC.get('property_modules', [])) + ['C19Hash']
SPEC['lean_targets'] = list(SPEC.get('lean_targets', [])) + ['TonVerif.Proofs.SrcCtorBytes', 'TonVerif.Proofs.SrcHeaderWork']
SPEC['manifest']['text'] += (
    ' SHA-256 BYTES ON THE SOURCE (Properties/C19Hash.lean): c19_src_hash_bytes proves on the regenerated constructor (Generated/CellCtor.lean, tied to the hand '
    'model for all inputs by c02_src_constructor) that the _hashes of every returning Cell.__init__ are sha256 of a list of inputs, at most bit_length(mask)+1 of '
    'them, each at most 2 + max(len(data_bytes), 32) + 34*len(refs) bytes (<= 266 for <= 1023 bits and <= 4 references), in total at most the cost model\'s '
    'ctorBytes, and that stored hashes stay <= 32 bytes (closed under the constructor); c19_src_hash_input_len: a hash function agreeing with sha256 on all '
    'strings of at most that length gives the same constructor result, i.e. nothing longer is ever hashed; c19_src_build_bytes: n calls feed <= 2394*n bytes; '
    'the per-input bound is also evaluated on CPython for every sha256 object of every constructed DAG (build:sha-input-len). '
    'HEADER WORK ON THE SOURCE: c19_src_header_work_partial proves on the regenerated deserialize_boc_header that a returning parse read exactly 3 size fields, '
    'roots_num root indices and cells_num index entries after the length pre-checks (3 + roots + index <= len - 3, size_bytes / offset_bytes >= 1) and ran the '
    'Python CRC loop once over exactly len - 4 bytes; for raising header runs the counts remain the cost model bocCost.hdr / crc.')


# ---- c19src2: the per-input bound of c19_src_hash_bytes on the library (every sha256 object of every constructor call) ----
class _ShaPerObject(_ShaCount):
    """like _ShaCount, additionally the number of bytes each sha256 object received (in creation order)"""

    def __init__(self):
        super().__init__()
        self.per = []

    def sha256(self, data=b''):
        outer = self
        k = len(outer.per)
        outer.per.append(len(data))
        w = super().sha256(data)
        upd = w.update

        def update(d):
            outer.per[k] += len(d)
            upd(d)
        w.update = update
        return w


def check_sha_inputs(ctx, nodes, inp, tag):
    """c19_src_hash_bytes on the library: constructing the DAG children first, cell k creates `levels_k` sha256 objects, each fed at most
    2 + max(len(data_bytes), 32) + 34 * len(refs) bytes (<= 266)."""
    import pytoniq_core.boc.cell as cellmod
    cnt = _ShaPerObject()
    saved = cellmod.hashlib
    cellmod.hashlib = cnt
    try:
        cells = G.lib_build(nodes, 'ctor')
    finally:
        cellmod.hashlib = saved
    if any(c is None for c in cells):
        return
    lvs = [1 if c.type_ == G.PRUNED else bin(c.level_mask.mask).count('1') + 1 for c in cells]
    if len(cnt.per) != sum(lvs):
        return          # reported by check_build_hashing (build:sha-calls)
    ctx.count('op:build-sha-inputs')
    pos = 0
    for k, (c, lv) in enumerate(zip(cells, lvs)):
        bound = 2 + max((len(c.bits) + 7) // 8, 32) + 34 * len(c.refs)
        worst = max(cnt.per[pos:pos + lv])
        pos += lv
        if worst > bound or worst > 266:
            ctx.fail('build:sha-input-len', f'constructing cell {k} of {tag} ({len(c.bits)} bits, {len(c.refs)} refs) fed {worst} bytes to one sha256 object '
                                            f'> 2 + max(data bytes, 32) + 34*refs = {bound} (c19_src_hash_bytes)', inp, worst, f'<= {bound}')
            return


_check_build_hashing_base = check_build_hashing


def check_build_hashing(ctx, nodes, arg, inp, tag):      # noqa: F811  (run() resolves the name at call time)
    _check_build_hashing_base(ctx, nodes, arg, inp, tag)
    check_sha_inputs(ctx, nodes, inp, tag)
