"""C02: exotic cells, level masks, per-level hashes, Merkle pruning invariance."""
from ..gen import cells as G
from ..translate import arith, cellctor
from .C01 import cmp_obs, spec_obs

SPEC = dict(
    manifest=dict(
        category='proof',
        text="Lean proves (Proofs/CellSpec.lean, 750 lines) that for every spec-valid tree with pruned branches of any mask 1..7, library cells, Merkle proofs/updates in any nesting, the model of the constructor succeeds and reports exactly the spec's level mask and per-level hash/depth at every level (loop invariant over calculate_hashes vs. level recursion of the spec); pruning invariance is proved for ALL Merkle depths (Proofs/Prune.lean, c02_prune_invariant_spec / c02_prune_invariant): if t' is t with any set of subtrees replaced by pruned branches of mask (mask s % 2^(d-1)) | 2^(d-1) carrying hashAt/depthAt s l for the significant l < d (d grows by one under every Merkle cell), then for every l < d hash, depth and the mask bits below l of t' are those of t (d = 1: the level-0 hash of every enclosing cell is unchanged), with no assumption on the hash function; validity of the pruned tree is DERIVED (Proofs/PruneWF.lean, c02_prune_valid): for a spec-valid t at Merkle depth d >= 1 whose level mask is below 2^(d-1) (d = 1: a level-0 tree) every pruning t' is spec-valid again (pruned cells have 16+272k <= 832 bits, mask 1..7, no refs; at every level t' is at most as deep as t, so the 1023 depth limit is kept), hence constructible, and the model-level statement c02_prune_invariant / c02_prune_level0 (Cell.info: get_hash/get_depth/level_mask) assumes spec-validity of t only; and it is tested through the library. Tie: correspondence library = model = Lean spec = independent Python spec on generated exotic trees, prunings and malformed cells. The integer arithmetic the model rests on (descriptors, level-mask functions, depth limit, pruned offsets) is additionally REGENERATED from the Python source on every run and proved equal to the model/spec for all inputs (c0x_src_* theorems). The WHOLE constructor is regenerated too: Cell.__init__, resolve_mask (all five cell types and the unknown-type error), the calculate_hashes loop over the levels (significant levels, hash_index / hash_index_offset, the three raise points, previous hash vs cell data, Merkle cells reading their children one level up, depth limit), get_descriptors, get_data_bytes, get_hash / get_depth (pruned-branch slices) and NullCell.__init__ are re-translated into Generated/CellCtor.lean on every run (harness/translate/pyobj.py + cellctor.py; validated against the running library on about 480 cells of every type and mask whenever source or translator change), and Lean proves for ALL cell types, bit strings and child infos that the regenerated constructor equals the hand model Model.construct incl. Cell.hash = the LAST hash, descriptor bytes and padded data (c02_src_constructor, c02_src_calculate_hashes; Proofs/SrcCellCtor.lean). Hence c02_model_eq_spec holds for what the source computes (c02_src_eq_spec) and the pruning theorems inherit an all-input tie. A source change inside the translatable subset breaks this proof; the check then evaluates regenerated constructor vs model on boundary DAGs and hands the differing cells to the oracle; outside the subset the tie is reported lost and the sampled correspondence decides.",
        level_note='Trusted: Lean kernel, Spec/Cell.lean as the TON rule (cross-checked against an independent Python transcription on every run), the source translators pyarith.py / pyobj.py with their declared interface (attribute types, a child cell = its CellInfo, sha256 streaming = hash of the concatenation, built-ins of PyObj.lean; differentially validated against CPython), Model/Cell.lean as a hand transcription of the code (constructor, get_hash, get_depth: proved equal to the regenerated source; get_representation and the rest: sampled correspondence), the harness.',
        technique='Lean 4 refinement proof (hand model) + constructor regenerated from the source and proved equal to the model for all inputs + differential correspondence with the library',
    ),
    translators=[('exotic.py LevelMask->Generated/LevelMask.lean', arith.regenerator('LevelMask')),
                 ('cell.py d1/d2/pruned offsets->Generated/CellArith.lean', arith.regenerator('CellArith')),
                 ('cell.py Cell.__init__/resolve_mask/calculate_hashes/get_hash/get_depth->Generated/CellCtor.lean', cellctor.regenerate)],
    design_ref='DESIGN.md §6 C02',
    rule='trees with pruned branches of all 7 masks, library cells, Merkle proofs/updates nested up to level 3, random pruning sets; '
         'each node compared library vs Lean model vs Lean spec vs Python spec; plus a malformed stream (wrong sizes/tags/ref counts) '
         'for model=code only; distinct = distinct (dag prefix, route); non-trivial = DAG contains an exotic cell',
    trusted_base=['Model/Cell.lean mirrors Cell.__init__/resolve_mask/calculate_hashes/get_hash/get_depth by hand',
                  'Spec/Cell.lean transcribes the TON level-mask / per-level hash rules (DataCell.cpp, tvm.pdf 3.1.6-3.1.7)',
                  'SHA-256 abstract in theorems',
                  'harness/translate/pyarith.py + arith.py (Python int arithmetic -> Lean) and lean/TonVerif/PyInt.lean (meaning of bit_length / bin().count) for the c02_src_* theorems',
                  'harness/translate/pyobj.py + cellctor.py (object programs -> Lean) with the declared interface in cellctor.py and lean/TonVerif/PyObj.lean, PyBytes.lean for c02_src_constructor (design/translators-cell.md)'],
    assumptions=['hashlib.sha256 is SHA-256', 'correspondence is sampled'],
)


def parse_spec_answer(ans):
    out = []
    for part in ans[3:].split('|'):
        if part == 'err':
            out.append(None)
            continue
        mask, hs, ds = part.split(':')
        out.append(dict(mask=int(mask), hashes=[bytes.fromhex(x.replace('-', '')) for x in hs.split('.')], depths=[int(x) for x in ds.split('.')]))
    return out


def check_dag(ctx, nodes, tag, routes=('ctor', 'builder'), boc=True):
    spec = G.spec_dag(nodes)
    inp = {'dag': [list(n) for n in nodes], 'tag': tag}
    model = leanspec = None
    if ctx.driver_ok:
        line = G.dag_line(nodes)
        a, b = ctx.model.run([line, 'spec' + line[4:]])
        model = G.parse_dag_answer(a)
        leanspec = parse_spec_answer(b)
    exotic = any(k != G.ORD for k, _, _ in nodes)
    for route in routes:
        libs = G.lib_build(nodes, route)
        for i, c in enumerate(libs):
            ctx.case((tag, tuple(nodes[:i + 1]), route), nontrivial=exotic)
            kind = nodes[i][0]
            ctx.count(f'kind:{kind}')
            s = spec[i]
            o = G.observe(c) if c is not None else None
            # model vs library: always (valid or not)
            if model is not None:
                if (model[i] is None) != (c is None):
                    ctx.corr_broken(f'constructibility: model={model[i] is not None} lib={c is not None} node {i} route {route}: {inp}')
                elif c is not None and cmp_obs(o, model[i]):
                    ctx.corr_broken(f'model != library {cmp_obs(o, model[i])} node {i} route {route}: {inp}')
            if s is None or not s.valid:
                ctx.count('invalid:' + (s.why if s else 'child'))
                if s is not None and s.why == 'depth>1023' and c is not None:
                    # the depth at SOME level exceeds the limit (e.g. 1 + the depth a pruned branch records for its level 0): no cell
                    ctx.fail(f'depth-limit:{kind}', f'a type-{kind} cell whose depth exceeds 1023 at one of its levels was constructed '
                             f'(route {route}, node {i})', inp, {'depths': o['depths'], 'mask': o['mask']}, 'exception')
                continue
            ctx.count(f'mask:{s.mask}')
            if kind == G.PRUNED:
                ctx.count(f'pruned-mask:{s.mask}')
            so = spec_obs(s)
            if leanspec is not None and (leanspec[i] is None or any(leanspec[i][k] != so[k] for k in ('mask', 'hashes', 'depths'))):
                ctx.corr_broken(f'Lean Spec/Cell.lean != python spec oracle on node {i}: {inp}')
            if c is None:
                ctx.fail(f'unconstructible:{kind}', f'spec-valid cell of type {kind} (mask {s.mask}) cannot be constructed', inp, 'exception', 'cell')
                continue
            bad = [k for k in ('mask', 'hashes', 'depths', 'hash') if o[k] != so[k]]
            if bad:
                ctx.fail(f'level:{kind}:{",".join(bad)}', f'{bad} of a type-{kind} cell differ from the TON cell spec (node {i}, mask {s.mask})',
                         inp, {k: o[k] for k in bad}, {k: so[k] for k in bad})
            if o['repr'] != o['hash']:
                ctx.fail(f'repr:{kind}', 'calculate_representation_hash() != hash', inp, o['repr'], o['hash'])
        # parse route: serialise the root and parse it back (type is read from the first data byte)
        root = libs[-1]
        if boc and root is not None and spec[-1] is not None and spec[-1].valid:
            from pytoniq_core.boc.cell import Cell
            try:
                back = Cell.one_from_boc(root.to_boc())
                ob = G.observe(back)
                if cmp_obs(ob, G.observe(root)) or back.type_ != root.type_:
                    ctx.fail('parse', 'cell parsed from its own BoC differs', inp, ob, G.observe(root))
            except Exception as e:
                ctx.fail('parse', f'spec-valid tree cannot be parsed from its BoC: {type(e).__name__}', inp, repr(e), 'cell')
            ctx.count('boc-parse')
            # ... and a bag of the same tree written by ANOTHER serialiser that stores every cell's hashes/depths inside its record
            # (d1 bit 16; legal, the library's own to_boc never sets it): types, masks and all per-level hashes must come out the same
            if route == routes[0]:
                foreign_parse(ctx, nodes, spec, inp, root)
    return spec


def foreign_parse(ctx, nodes, spec, inp, root):
    from pytoniq_core.boc.cell import Cell
    from . import C05
    top = len(nodes) - 1
    members = sorted(C05.reachable(nodes, [top]), reverse=True)          # parents before children (child-before-parent node lists)
    recs = C05.listing(nodes, spec, members)
    n = len(recs)
    size = 1 if n < 256 else 2
    import copy, random
    true_recs = recs
    for stored in ('all', 'exotic-only', 'bogus'):
        store = [nodes[i][0] != G.ORD for i in members] if stored == 'exotic-only' else [True] * n
        recs = true_recs
        if stored == 'bogus':
            # the records store ARBITRARY hashes / depths (right count and size): the stored values are a cache a reader may skip
            # or verify - the parsed cells must report the hashes of their CONTENT (or the bag must be refused), at every level,
            # also for exotic cells and inside Merkle cells
            rr = random.Random(repr(nodes))
            recs = copy.deepcopy(true_recs)
            for r in recs:
                if rr.random() < 0.7:
                    r['hashes'] = [rr.randbytes(32) if rr.random() < 0.8 else h for h in r['hashes']]
                    r['depths'] = [rr.randrange(0, 1024) if rr.random() < 0.8 else d for d in r['depths']]
            if all(a['hashes'] == b['hashes'] and a['depths'] == b['depths'] for a, b in zip(recs, true_recs)):
                continue
        tot = sum(len(C05.enc_record(r, size, st)) for r, st in zip(recs, store))
        fr = dict(magic='g', size=size, off=max(1, (tot.bit_length() + 7) // 8), idx=False, crc=False, cache=False, store=store, cflags=[])
        data = C05.py_encode(recs, [0], fr)
        ctx.count('boc-foreign-stored-hashes')
        try:
            back = Cell.one_from_boc(data)
        except Exception as e:
            if stored == 'bogus':
                ctx.count('boc-foreign-bogus-refused')
                continue            # refusing a bag whose stored hashes are wrong is allowed
            ctx.fail('parse-foreign', f'a conforming bag with stored hashes ({stored}) of a spec-valid exotic tree is refused: {type(e).__name__}',
                     dict(inp, boc=data.hex()[:4000]), repr(e), 'cell')
            return
        ob, orr = G.observe(back), G.observe(root)
        if cmp_obs(ob, orr) or back.type_ != root.type_ or [r.type_ for r in back.refs] != [r.type_ for r in root.refs]:
            ctx.fail('parse-foreign', f'cell parsed from a conforming bag with stored hashes ({stored}) differs from the constructed one',
                     dict(inp, boc=data.hex()[:4000]), ob, orr)
            return


def prune_invariance(ctx, rng, t):
    """Replace random subtrees by pruned branches (Merkle depth d): hashes at levels < d of every enclosing cell unchanged."""
    db = G.DagBuilder()
    d = rng.choice([1, 1, 2, 3])
    root = G.gen_exotic_tree(rng, db, d, rng.randrange(2, 12))
    if not db.ok(root):
        return
    nodes, infos = db.nodes[:root + 1], db.infos[:root + 1]
    pdb, proot, pruned = G.prune_random(rng, nodes, infos, root, d)
    if not pruned:
        return
    ctx.count(f'prune-level:{d}')
    pn = pdb.nodes[:proot + 1]
    inp = {'dag': [list(n) for n in nodes], 'pruned_dag': [list(n) for n in pn], 'level': d}
    ctx.case(('prune', tuple(nodes), tuple(pn)), sample={'level': d, 'cells': len(nodes), 'pruned': len(pruned)})
    lib_o = G.lib_build(nodes)[-1]
    lib_p = G.lib_build(pn)[-1]
    if lib_o is None or lib_p is None:
        ctx.fail('prune:construct', 'original or pruned tree cannot be constructed', inp, 'exception', 'cells')
        return
    for l in range(d):
        if lib_p.get_hash(l) != lib_o.get_hash(l) or lib_p.get_depth(l) != lib_o.get_depth(l):
            ctx.fail('prune:hash', f'level-{l} hash/depth of the root changed after pruning at Merkle depth {d}', inp,
                     [lib_p.get_hash(l), lib_p.get_depth(l)], [lib_o.get_hash(l), lib_o.get_depth(l)])
    if ctx.driver_ok:
        ma = G.parse_dag_answer(ctx.model.run([G.dag_line(pn)])[0])[-1]
        if ma is None or cmp_obs(G.observe(lib_p), ma):
            ctx.corr_broken(f'model != library on pruned tree {inp}')


def malformed(rng):
    """cells that are NOT spec-valid: wrong sizes, tags, ref counts, unknown kinds"""
    leaf = (G.ORD, G.rand_bits(rng, rng.randrange(0, 20)), ())
    k = rng.choice([G.PRUNED, G.LIB, G.MPROOF, G.MUPDATE, 0, 5, -2, 255])
    n = rng.choice([0, 1, 7, 8, 9, 15, 16, 17, 264, 280, 288, 552, 560, 16 + 272, 16 + 272 * 2, 16 + 272 * 3, 1023])
    bits = G.rand_bits(rng, n)
    if rng.random() < 0.7 and n >= 16:
        bits = format(abs(k) % 256, '08b') + format(rng.choice([0, 1, 2, 3, 4, 5, 6, 7, 8, 9, 255]), '08b') + bits[16:]
    refs = tuple([0] * rng.randrange(0, 5))
    mid = (k, bits, refs)
    return [leaf, mid, (G.ORD, '1', (1,)), (G.MPROOF, G.rand_bits(rng, 280), (2,))]


def pruned_family(ctx, mask, tag):
    """a pruned branch of this mask, alone and under ordinary / Merkle parents"""
    rng = ctx.rng
    n = G.popcount(mask)
    hashes = [rng.randbytes(32) for _ in range(n)]
    depths = [rng.randrange(0, 1000) for _ in range(n)]
    pb = G.pruned_bits(mask, hashes, depths)
    db = G.DagBuilder()
    p = db.add(G.PRUNED, pb)
    o = db.add(G.ORD, '101', (p,))
    o2 = db.add(G.ORD, '', (o, p))
    if db.ok(o2):
        mp = db.add(G.MPROOF, G.mproof_bits(db.infos[o2]), (o2,))
        mu = db.add(G.MUPDATE, G.mupdate_bits(db.infos[o2], db.infos[o]), (o2, o))
        db.add(G.ORD, '1', (mp, mu))
    check_dag(ctx, db.nodes, tag)


def src_ctor_search(ctx):
    """Search mode only: the cells on which the REGENERATED constructor (Generated/CellCtor.lean) and the hand model differ
    (evaluated by Lean on the validation DAGs: every type, every pruned mask under ordinary / Merkle parents, malformed cells,
    depth limits), each handed to the oracle.  True = a concrete failing input was found."""
    n0 = len(ctx.failures)
    found = cellctor.diff_dags(ctx, cellctor.validation_dags())
    found.sort(key=lambda f: sum(len(n[1]) for n in f[1]))
    for tag, nodes, idx in found[:40]:
        check_dag(ctx, nodes[:max(idx) + 1], f'src-ctor-{tag}', routes=('ctor',), boc=False)
        if len(ctx.failures) > n0 + 3:
            break
    return len(ctx.failures) > n0


def stored_depth_siblings(ctx, tag='stored-depth-siblings'):
    """CLASS (round 10): siblings whose 2-byte depths interact byte-wise.  Pruned branches store the depth they answer with, so any
    depth can stand next to any other under one ordinary / Merkle-update parent without building deep trees (gen/cells.py
    stored_depth_siblings: every crossing pair of DEPTH_POINTS, byte-wise independent depths at masks 1-7, 2-4 siblings, such parents
    as siblings again).  Each parent is judged on its own sub-DAG, so a failure replays a handful of cells."""
    nodes, focus = G.stored_depth_siblings(ctx.rng, ctx.n(120, 600))
    spec = G.spec_dag(nodes)
    for t, i in enumerate(focus):
        ds = [spec[j].D[0] for j in nodes[i][2] if spec[j] is not None and spec[j].valid]
        if len(ds) >= 2:
            ctx.count('sibling-depth-bytes:' + G.sibling_relation(ds))
        check_dag(ctx, G.sub_dag(nodes, [i])[0], f'{tag}{t}', routes=('ctor',) if t % 4 else ('ctor', 'builder'), boc=(t % 16 == 0))


def src_search(ctx):
    """Search mode only: the points where a regenerated definition (Generated/LevelMask.lean, CellArith.lean) differs from
    the function it is proved equal to, turned into exotic trees for the oracle.  True = a concrete failing input was found."""
    found = arith.search_points(ctx, ['LevelMask', 'CellArith'])
    if not found:
        return src_ctor_search(ctx)
    n0 = len(ctx.failures)
    masks = set()
    for name in ('lmLevel', 'lmHashIndex', 'lmApply', 'lmIsSignificant'):
        masks |= {pt['m'] for pt in found.get(name) or [] if 1 <= pt['m'] <= 7}
    masks |= {pt['mask'] for pt in found.get('refsDescriptor') or [] if 1 <= pt['mask'] <= 7 and pt['r'] <= 4}
    for name in ('prunedHashLo', 'prunedHashHi', 'prunedDepthOff', 'prunedDepthLo', 'prunedDepthHi'):
        if found.get(name):
            masks |= set(range(1, 8))
    exotic_lens = {16 + 272 * k for k in (1, 2, 3)} | {264, 280, 552}
    for pt in found.get('bitsDescriptor') or []:
        if pt['b'] in exotic_lens:
            masks |= {1, 3, 7}
        elif pt['b'] <= 1023:
            check_dag(ctx, [(G.ORD, G.rand_bits(ctx.rng, pt['b']), ())], f'src-d2-len{pt["b"]}', routes=('ctor',), boc=False)
    if any(pt['exotic'] and pt['mask'] == 0 for pt in found.get('refsDescriptor') or []):
        masks.add(1)        # the family contains Merkle cells (exotic, and of mask 0 above a level-1 branch)
    for m in sorted(masks):
        pruned_family(ctx, m, f'src-pruned-mask{m}')
    return len(ctx.failures) > n0 or src_ctor_search(ctx)


def run(ctx):
    rng = ctx.rng
    if ctx.search and src_search(ctx):
        return
    # every pruned mask, alone and under ordinary / Merkle parents
    for mask in range(1, 8):
        pruned_family(ctx, mask, f'pruned-mask{mask}')
    for t in range(ctx.n(250, 2500)):
        db = G.DagBuilder()
        G.gen_exotic_tree(rng, db, rng.choice([0, 0, 1, 2, 3]), rng.randrange(1, 14))
        check_dag(ctx, db.nodes, f'exotic{t}', boc=(t % 4 == 0))
    # an ordinary cell and an exotic cell with IDENTICAL bits and references built next to each other (both orders), plus
    # near twins in bit length / reference order: nothing remembered from one may leak into the other
    for t in range(ctx.n(80, 800)):
        check_dag(ctx, G.near_twins(rng, exotic=True), f'twins{t}', boc=(t % 4 == 0))
    for t in range(ctx.n(250, 2500)):
        prune_invariance(ctx, rng, t)
    for t in range(ctx.n(300, 3000)):
        check_dag(ctx, malformed(rng), f'malformed{t}', routes=('ctor',), boc=False)
    # deep pruned depth: stored depth 1023 under an ordinary parent exceeds the limit
    for dep in (1021, 1022, 1023, 65535):
        pb = G.pruned_bits(1, [rng.randbytes(32)], [dep])
        check_dag(ctx, [(G.PRUNED, pb, ()), (G.ORD, '', (0,)), (G.ORD, '', (1,))], f'pruned-depth{dep}', boc=False)
    stored_depth_siblings(ctx)
    # the same at every mask and at every level the mask has: the limit applies to each level's depth, not to the last one
    for mask in range(1, 8):
        n = G.popcount(mask)
        for pos in range(n):
            for dep in (1022, 1023):
                depths = [rng.randrange(0, 900) for _ in range(n)]
                depths[pos] = dep
                pb = G.pruned_bits(mask, [rng.randbytes(32) for _ in range(n)], depths)
                db = G.DagBuilder()
                p = db.add(G.PRUNED, pb)
                o = db.add(G.ORD, '1', (p,))
                o2 = db.add(G.ORD, '', (o,))
                nodes = db.nodes[:o2 + 1]
                if db.ok(o):
                    nodes = nodes + [(G.MPROOF, G.mproof_bits(db.infos[o]), (o,))]
                check_dag(ctx, nodes, f'pruned-depth-m{mask}p{pos}d{dep}', boc=False)


def replay(ctx, payload):
    inp = payload.get('input') or {}
    if 'dag' in inp and 'pruned_dag' not in inp:
        check_dag(ctx, [(k, b, tuple(r)) for k, b, r in inp['dag']], inp.get('tag', 'replay'))
