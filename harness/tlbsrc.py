"""C16 source tie: the regenerated TL-B parsers (harness/translate/tlbparsers.py -> lean/TonVerif/Generated/TlbParsers.lean).

  * `translator_entries()`  one entry per class for SPEC['translators'] (a class outside the subset = that tie `lost`)
  * `validate(ctx)`         TRANSLATOR VALIDATION: the regenerated Lean reader (driver op `tlbsrc`) and the real
                            `T.deserialize` run on the same generated cells must return the same object (class, constructor
                            arguments / attributes, nested objects, cells) and leave the same rest of the slice
  * `theorem_check(ctx)`    the statement of `c16_src_<T>` evaluated in Lean on generated values (`tlbsrcchk`): by the theorem it
                            can never be false; in search mode (a `c16_src_*` proof broke) the values on which it IS false
                            are fed to the property's oracle first (real parser vs encoded value) to get a concrete failing input
"""
import importlib

from .gen import tlbvals as V
from .translate import tlbparsers as TP

# class -> (python module, spec type name known to the driver's `tlbgen`, theorem)
PROVED = {
    'HashUpdate': ('utils', 'HashUpdate'), 'TickTock': ('account', 'TickTock'), 'StorageUsed': ('account', 'StorageUsed'),
    'StorageUsedShort': ('account', 'StorageUsedShort'), 'StorageInfo': ('account', 'StorageInfo'),
    'AccountStatus': ('account', 'AccountStatus'), 'StateInit': ('account', 'StateInit'), 'AccountState': ('account', 'AccountState'),
    'ExtBlkRef': ('block', 'ExtBlkRef'), 'BlkMasterInfo': ('block', 'BlkMasterInfo'), 'KeyExtBlkRef': ('block', 'KeyExtBlkRef'),
    'KeyMaxLt': ('block', 'KeyMaxLt'), 'Counters': ('block', 'Counters'), 'CreatorStats': ('block', 'CreatorStats'),
    'ValidatorInfo': ('block', 'ValidatorInfo'), 'ShardIdent': ('block', 'ShardIdent'), 'GlobalVersion': ('block', 'GlobalVersion'),
    'SplitMergeInfo': ('transaction', 'SplitMergeInfo'), 'SigPubKey': ('config', 'SigPubKey'),
    'AccStatusChange': ('transaction', 'AccStatusChange'), 'ComputeSkipReason': ('transaction', 'ComputeSkipReason'),
    'TrStoragePhase': ('transaction', 'TrStoragePhase'), 'TrComputePhase': ('transaction', 'TrComputePhase'),
    'TrBouncePhase': ('transaction', 'TrBouncePhase'), 'FutureSplitMerge': ('block', 'FutureSplitMerge'),
    'IntermediateAddress': ('transaction', 'IntermediateAddress'), 'ValidatorDescr': ('config', 'ValidatorDescr'),
    'CatchainConfig': ('config', 'CatchainConfig'),
}
# theorem(s) of a class that is not in the driver's class table (extra parameter)
# (ConsensusConfig, BlockInfo: proved in Proofs/SrcTlbParsersBlk.lean, validated / evaluated by harness/tlbsrc_blk.py)
EXTRA_THEOREMS = {'BlkPrevInfo': 'c16_src_BlkPrevInfo0, c16_src_BlkPrevInfo1', 'ConsensusConfig': 'c16_src_ConsensusConfig',
                  'BlockInfo': 'c16_src_BlockInfo'}
# regenerated and checked against the spec value on generated inputs (driver), no theorem
CHECKED_ONLY = {}


def label(cls):
    if cls in PROVED:
        return f'parser {cls} (c16_src_{cls})'
    if cls in EXTRA_THEOREMS:
        return f'parser {cls} ({EXTRA_THEOREMS[cls]})'
    return f'parser {cls} (regenerated; no theorem)'


def live(ctx, table):
    return [c for c in table if (ctx.tie.get(label(c)) or {}).get('status') == 'ok']


def translator_entries():
    out = [('tlb/*.py deserialize -> Generated/TlbParsers.lean', TP.regenerate)]
    for _, cls in TP.CLASSES:
        out.append((label(cls), TP.class_tie(cls)))
    return out


def lib_class(cls):
    mod = dict((c, m) for m, c in TP.CLASSES)[cls]
    return getattr(importlib.import_module(f'pytoniq_core.tlb.{mod}'), cls)


# ----------------------------------------------------------------------------- comparison Lean value <-> Python object

def bits_of(o):
    from bitarray import bitarray
    if isinstance(o, (bytes, bytearray)):
        return ''.join(format(x, '08b') for x in o)
    if isinstance(o, bitarray):
        return o.to01()
    if isinstance(o, str):
        try:
            return ''.join(format(x, '08b') for x in bytes.fromhex(o))
        except ValueError:
            return None
    return None


def mismatch(lean, py, path='', top=True):
    """None if the Lean value (driver JSON) denotes the Python object, else a description of the first difference"""
    from pytoniq_core.boc.cell import Cell
    if lean is None:
        return None if py is None else f'{path}: Lean None, library {type(py).__name__}'
    if isinstance(lean, bool):
        return None if isinstance(py, bool) and py == lean else f'{path}: Lean {lean}, library {py!r}'
    if isinstance(lean, int):
        return None if isinstance(py, int) and not isinstance(py, bool) and py == lean else f'{path}: Lean {lean}, library {py!r}'
    if isinstance(lean, str):
        b = bits_of(py)
        return None if b == lean else f'{path}: Lean bits {lean[:40]}.., library {py!r}'[:200]
    if V.is_cell_json(lean):
        if not isinstance(py, Cell):
            return f'{path}: Lean cell, library {type(py).__name__}'
        return None if V.cell_json_canon(lean) == V.lib_cell_canon(py) else f'{path}: cells differ'
    if isinstance(lean, dict) and '$' in lean:
        name, v = lean['$'], lean['v']
        if name == 'hex':
            return mismatch(v, py, path)
        if v is None:
            return None if isinstance(py, str) and py == name else f'{path}: Lean str {name!r}, library {py!r}'
        if type(py).__name__ != name:
            return f'{path}: Lean object {name}, library {type(py).__name__}'
        for k, x in v.items():
            if not hasattr(py, k):
                if x is None:
                    continue        # a constructor argument None that __init__ does not store for this alternative
                return f'{path}.{k}: the library object has no attribute {k}'
            m = mismatch(x, getattr(py, k), f'{path}.{k}', False)
            if m:
                return m
        return None
    return f'{path}: unexpected Lean value {str(lean)[:60]}'


def _gen(ctx, classes, n):
    import json
    reqs = [(c, ctx.rng.randrange(1 << 30)) for c in classes for _ in range(n)]
    outs = ctx.model.run([f'tlbsrcchk {c} {s}' for c, s in reqs])
    for (c, s), ans in zip(reqs, outs):
        if ans in ('unenc', 'bad-op', 'err') or not ans[:2] in ('0 ', '1 '):
            if ans != 'unenc':
                ctx.corr_broken(f'driver: tlbsrcchk {c} {s} -> {ans[:80]}')
            continue
        g = V.parse_gen_answer(ans[2:])
        if g is not None:
            yield c, s, ans[0] == '1', g


def dag_str(nodes):
    return '|'.join(f"{k},{b or '-'},{'.'.join(map(str, r)) or '-'}" for k, b, r in nodes)


def validate(ctx, n=12):
    """translator validation on generated cells of every class that has a spec type"""
    import json
    ok_classes = live(ctx, list(PROVED) + list(CHECKED_ONLY))
    items = list(_gen(ctx, ok_classes, n))
    lines = [f'tlbsrc {c} {dag_str(g["nodes"])} {len(g["nodes"]) - 1}' for c, s, good, g in items]
    outs = ctx.model.run(lines) if lines else []
    bad = {}
    for (c, s, good, g), ans in zip(items, outs):
        ctx.count('src_validated')
        cells = V.build(g['nodes'])
        sl = cells[-1].begin_parse()
        try:
            obj = lib_class(c).deserialize(sl)
            lib = ('ok', obj, sl.bits.to01(), sl.remaining_refs)
        except Exception as e:
            lib = ('raise', f'{type(e).__name__}: {e}')
        if ans == 'none':
            m = None if lib[0] == 'raise' else 'Lean reader: raises; library: returns'
        elif not ans.startswith('ok '):
            m = f'driver answer {ans[:60]}'
        elif lib[0] == 'raise':
            m = f'Lean reader: returns; library raises {lib[1]}'
        else:
            v, rb, rr = ans[3:].rsplit(' ', 2)
            m = mismatch(json.loads(v), lib[1], c)
            if m is None and (('' if rb == '-' else rb) != lib[2] or int(rr) != lib[3]):
                m = f'rest of the slice: Lean {rb}/{rr}, library {lib[2]}/{lib[3]}'
        if m and c not in bad:
            bad[c] = m
            ctx.corr_broken(f'translator validation: regenerated reader of {c} and {c}.deserialize disagree on seed {s}: {m}')
    ctx.notes.append(f'source tie: translator validation on {len(items)} generated cells of {len(ok_classes)} classes, '
                     f'{len(bad)} disagreements') if hasattr(ctx, 'notes') else None
    return bad


def theorem_check(ctx, check_value, P, n=6):
    """`c16_src_<T>` evaluated on generated values; the values on which it is false go to the property's oracle"""
    n = 150 if ctx.search else n
    classes = live(ctx, list(PROVED) + list(CHECKED_ONLY))
    found = 0
    for c, s, good, g in _gen(ctx, classes, n):
        ctx.count('src_theorem_evaluated')
        if good:
            continue
        ctx.count(f'src_theorem_false:{c}')
        ty = (PROVED.get(c) or CHECKED_ONLY[c])[1]
        if found < 40 and ty in P:
            found += 1
            if check_value(ctx, P, ty, s, g, tag='src'):
                # the real parser agrees with the encoded value although the regenerated reader does not
                ctx.corr_broken(f'c16_src_{c} is false on seed {s} (Lean evaluation) but {c}.deserialize parses that value as encoded')
    return found
