"""Shared machinery of every check: regenerate -> lake build -> axiom audit -> corpus ->
correspondence -> oracle -> verdict / evidence / replay.  See DESIGN.md §2-§3."""
import fcntl
import hashlib
import importlib
import json
import os
import random
import re
import subprocess
import sys
import time
import traceback

from .paths import VERIF, REPO, LEAN, EVIDENCE, REPLAYS, CORPUS


def istr(x):
    """str(int) that survives Python's int->str digit limit (a broken library may hand back huge ints); the limit itself is
    NOT lifted, because the library's own int()/str() conversions (e.g. raw address parsing) are subject to it"""
    try:
        return str(x)
    except ValueError:
        return hex(x)

ALLOWED_AXIOMS = {'propext', 'Classical.choice', 'Quot.sound'}
FORBIDDEN_SRC = re.compile(r'\b(sorry|admit|native_decide|bv_decide|implemented_by|unsafe)\b|^\s*axiom\s|maxHeartbeats\s+0')
TONMODEL = os.path.join(LEAN, '.lake/build/bin/tonmodel')


class MachineryError(Exception):
    """Something in the checking machinery itself failed (exit 2, never a VIOLATION)."""


# --------------------------------------------------------------------------- lean

def _strip_comments(text):
    out = []
    depth = 0
    i = 0
    n = len(text)
    while i < n:
        if text.startswith('/-', i):
            depth += 1
            i += 2
        elif depth and text.startswith('-/', i):
            depth -= 1
            i += 2
        elif depth:
            if text[i] == '\n':
                out.append('\n')
            i += 1
        elif text.startswith('--', i):
            while i < n and text[i] != '\n':
                i += 1
        else:
            out.append(text[i])
            i += 1
    return ''.join(out)


def grep_forbidden():
    hits = []
    for root, _, files in os.walk(LEAN):
        if '.lake' in root:
            continue
        for f in files:
            if f.endswith('.lean') and not f.startswith('.audit_'):
                p = os.path.join(root, f)
                try:
                    body = _strip_comments(open(p).read())
                except FileNotFoundError:      # a temporary file of a concurrently running check
                    continue
                for ln, line in enumerate(body.split('\n'), 1):
                    if FORBIDDEN_SRC.search(line):
                        hits.append(f'{os.path.relpath(p, LEAN)}:{ln}: {line.strip()[:100]}')
    return hits


class Lock:
    def __enter__(self):
        self.f = open(os.path.join(VERIF, '.check.lock'), 'w')
        fcntl.flock(self.f, fcntl.LOCK_EX)
        return self

    def __exit__(self, *a):
        fcntl.flock(self.f, fcntl.LOCK_UN)
        self.f.close()


def lake_build(targets, timeout=3000):
    """Returns (ok, log, first_error)."""
    with Lock():
        p = subprocess.run(['lake', 'build'] + targets, cwd=LEAN, capture_output=True, text=True, timeout=timeout)
    log = p.stdout + p.stderr
    first = None
    if p.returncode != 0:
        m = re.search(r'^(?:error: )?(\S+\.lean:\d+:\d+): error:? (.*)$', log, re.M)
        if m:
            first = f'{m.group(1)} {m.group(2)[:200]}'
        else:
            m = re.search(r'error.*', log)
            first = m.group(0)[:300] if m else log[-300:]
    return p.returncode == 0, log, first


PROPERTY_MODULES = {}      # prop -> extra modules under TonVerif/Properties (SPEC['property_modules']), audited like <prop>.lean


def property_modules(prop):
    return [prop] + [m for m in PROPERTY_MODULES.get(prop, []) if m != prop]


def _module_theorems(mod):
    path = os.path.join(LEAN, 'TonVerif/Properties', f'{mod}.lean')
    body = _strip_comments(open(path).read())
    out = []
    # theorems are qualified by the namespace that is open where they are declared (one level of `namespace X ... end X` blocks)
    ns = []
    for line in body.split('\n'):
        m = re.match(r'^namespace\s+(\S+)', line)
        if m:
            ns.append(m.group(1))
            continue
        m = re.match(r'^end\s+(\S+)\s*$', line)
        if m and ns and ns[-1] == m.group(1):
            ns.pop()
            continue
        m = re.match(r'^(?:protected\s+|private\s+)?theorem\s+([\w\.\']+)', line)
        if m:
            out.append('.'.join(ns + [m.group(1)]))
    return out


def property_theorems(prop):
    out = []
    for mod in property_modules(prop):
        out += _module_theorems(mod)
    return out


def audit_axioms(prop, extra_modules=()):
    """#print axioms on every theorem of Properties/<prop>.lean. Returns (ok, {thm: [axioms]}, problems)."""
    thms = property_theorems(prop)
    if not thms:
        return False, {}, ['no theorems in property file']
    src = ''.join(f'import TonVerif.Properties.{m}\n' for m in property_modules(prop)) + ''.join(f'#print axioms {t}\n' for t in thms)
    tmp = os.path.join(LEAN, f'.audit_{prop}_{os.getpid()}.lean')
    with open(tmp, 'w') as f:
        f.write(src)
    try:
        p = subprocess.run(['lake', 'env', 'lean', tmp], cwd=LEAN, capture_output=True, text=True, timeout=900)
    finally:
        os.unlink(tmp)
    out = p.stdout + p.stderr
    res = {}
    problems = []
    for t in thms:
        m = re.search(r"'" + re.escape(t) + r"' depends on axioms: \[([^\]]*)\]", out, re.S)
        if m:
            ax = [a.strip() for a in m.group(1).replace('\n', ' ').split(',') if a.strip()]
        elif re.search(r"'" + re.escape(t) + r"' does not depend on any axioms", out):
            ax = []
        else:
            problems.append(f'no axiom report for {t}')
            continue
        res[t] = ax
        bad = [a for a in ax if a not in ALLOWED_AXIOMS]
        if bad:
            problems.append(f'{t} depends on {bad}')
    if p.returncode != 0:
        problems.append('audit file failed: ' + out[-300:])
    return not problems, res, problems


def leanchecker(modules):
    p = subprocess.run(['lake', 'env', 'leanchecker'] + modules, cwd=LEAN, capture_output=True, text=True, timeout=3000)
    return p.returncode == 0, (p.stdout + p.stderr)[-500:]


class Model:
    """Batch access to the compiled Lean driver."""

    def __init__(self):
        if not os.path.exists(TONMODEL):
            raise MachineryError('tonmodel not built')
        self.calls = 0

    def run(self, lines, timeout=3000):
        if not lines:
            return []
        data = ('\n'.join(lines) + '\n').encode()
        p = subprocess.run([TONMODEL], input=data, capture_output=True, timeout=timeout)
        out = p.stdout.decode().split('\n')
        if out and out[-1] == '':
            out.pop()
        if p.returncode != 0 or len(out) != len(lines):
            raise MachineryError(f'tonmodel: rc={p.returncode} got {len(out)} answers for {len(lines)} requests; '
                                 f'stderr={p.stderr.decode()[-300:]}')
        self.calls += len(lines)
        return out


# --------------------------------------------------------------------------- context

THOROUGH_SCALE = {'C05': 4, 'C06': 8, 'C07': 8, 'C12': 4, 'C14': 4, 'C17': 3, 'C18': 8, 'C20': 2}

class Ctx:
    def __init__(self, prop, tier, seed, search=False):
        self.prop = prop
        self.tier = tier
        self.seed = seed
        self.rng = random.Random(f'{prop}:{seed}')
        self.search = search            # failing-input search after a broken obligation
        self.evaluations = 0
        self.nontrivial = set()
        self.samples = []
        self.stats = {}
        self.failures = []              # dicts(key, what, input, observed, expected)
        self.known_hit = []
        self.broken = []                # correspondence breaks without a property failure: dict(kind, detail)
        self.notes = []
        self._model = None
        self._pending = []
        self.driver_ok = True
        self.t0 = time.time()
        kf = json.load(open(os.path.join(VERIF, 'known_findings.json')))
        self.known = {f['key']: f for f in kf.get('findings', []) if f['property'] == prop}

    @property
    def thorough(self):
        return self.tier == 'thorough' or self.search

    def n(self, quick, thorough):
        if not self.thorough:
            return quick
        # the thorough TIER (not the failing-input search of a quick run) multiplies its case counts: per-property default
        # chosen so that a thorough run takes minutes, env VERIF_THOROUGH_SCALE on top (a long soak: VERIF_THOROUGH_SCALE=10)
        if self.tier == 'thorough' and not self.search and isinstance(thorough, int):
            k = THOROUGH_SCALE.get(self.prop, 1) * float(os.environ.get('VERIF_THOROUGH_SCALE', '1'))
            return max(thorough, int(thorough * k))
        return thorough

    @property
    def model(self):
        if self._model is None:
            self._model = Model()
        return self._model

    def count(self, key, k=1):
        self.stats[key] = self.stats.get(key, 0) + k

    def case(self, desc, nontrivial=True, sample=None):
        """Register one explored case. desc: hashable/str identifying it (distinctness)."""
        self.evaluations += 1
        if nontrivial:
            h = hashlib.blake2b(repr(desc).encode(), digest_size=8).digest()
            self.nontrivial.add(h)
        if sample is not None and len(self.samples) < 8 and (self.evaluations % 97 == 1 or len(self.samples) < 3):
            self.samples.append(sample)

    def expect_model(self, line, expected, detail):
        """Deferred correspondence check: the driver's answer to `line` must equal `expected` (the library's canonical output)."""
        if not self.driver_ok:
            return
        self._pending.append((line, expected, detail))
        if len(self._pending) >= 20000:
            self.flush_model()

    def flush_model(self):
        if not self._pending:
            return
        pend, self._pending = self._pending, []
        outs = self.model.run([p[0] for p in pend])
        for (line, expected, detail), got in zip(pend, outs):
            if got != expected:
                self.corr_broken(f'model != library: model={got[:300]} library={expected[:300]} request={line[:300]} ({detail})')

    def corr_broken(self, detail):
        """Model and code disagree although the code satisfies the property on this input."""
        if len(self.broken) < 10:
            self.broken.append({'kind': 'correspondence', 'detail': _short(detail, 600)})

    def fail(self, key, what, input, observed=None, expected=None):
        """A concrete input on which the property fails on the real code (or model != code)."""
        if key in self.known:
            if key not in self.known_hit:
                self.known_hit.append(key)
            return
        if len(self.failures) < 50:
            self.failures.append(dict(key=key, what=what, input=input, observed=_short(observed), expected=_short(expected)))


def _short(x, n=2000):
    try:
        s = x if isinstance(x, str) else repr(x)
    except ValueError:
        s = '<unprintable: int too large>'
    return s if len(s) <= n else s[:n] + '...'


def jsonable(x):
    if isinstance(x, (bytes, bytearray)):
        return {'hex': bytes(x).hex()}
    if isinstance(x, dict):
        return {str(k): jsonable(v) for k, v in x.items()}
    if isinstance(x, (list, tuple)):
        return [jsonable(v) for v in x]
    if isinstance(x, (int, str, bool, float)) or x is None:
        if isinstance(x, int) and abs(x) > 2 ** 53:
            return {'int': istr(x)}
        return x
    return repr(x)


# --------------------------------------------------------------------------- runner

def write_replay(prop, payload):
    os.makedirs(REPLAYS, exist_ok=True)
    h = hashlib.sha256(json.dumps(payload, sort_keys=True, default=str).encode()).hexdigest()[:12]
    path = os.path.join(REPLAYS, f'{prop}-{h}.json')
    with open(path, 'w') as f:
        json.dump(payload, f, indent=1, default=str)
    return os.path.relpath(path, VERIF)


class _Watchdog(BaseException):      # not an Exception: the harnesses' own `except Exception` around library calls must not swallow it
    """raised by the alarm handler when one execution of a harness exceeds its wall-clock budget"""

    def __init__(self, stack):
        super().__init__('watchdog')
        self.stack = stack


def _budget(ctx):
    base = int(os.environ.get('VERIF_WATCHDOG_S', '0') or 0)
    if base:
        return base
    return 6 * 3600 if (ctx.tier == 'thorough' or ctx.search) else 1500


def _execute(ctx, mod, prop, replay):
    import signal

    def on_alarm(signum, frame):
        raise _Watchdog(traceback.extract_stack(frame))
    old = signal.signal(signal.SIGALRM, on_alarm)
    signal.setitimer(signal.ITIMER_REAL, _budget(ctx), 5)        # fires again every 5 s should anything swallow it
    try:
        _execute_inner(ctx, mod, prop, replay)
    except _Watchdog as w:
        inside = [f for f in w.stack if os.path.abspath(f.filename).startswith(os.path.abspath(REPO) + os.sep)]
        where = ''.join(traceback.format_list(w.stack[-6:]))
        if ctx.failures:
            ctx.notes.append('run stopped by the watchdog after recording failures: ' + where[-400:])
        elif inside:
            # a library call did not come back within the whole budget of the run: on the unchanged tree every call returns in
            # milliseconds, so the library's behaviour changed (a loop that no longer terminates, exponential work)
            ctx.broken.append({'kind': 'library-call-did-not-return', 'detail': _short(where, 1500)})
            ctx.notes.append('run stopped by the watchdog inside a library call')
        else:
            raise MachineryError('harness exceeded its time budget outside the library:\n' + where)
    finally:
        signal.setitimer(signal.ITIMER_REAL, 0)
        signal.signal(signal.SIGALRM, old)


def _execute_inner(ctx, mod, prop, replay):
    try:
        if replay:
            mod.replay(ctx, json.load(open(replay)))
        else:
            cdir = os.path.join(CORPUS, prop)
            if os.path.isdir(cdir) and hasattr(mod, 'replay'):
                for f in sorted(os.listdir(cdir)):
                    if f.endswith('.json'):
                        mod.replay(ctx, json.load(open(os.path.join(cdir, f))))
                        ctx.count('corpus_cases')
            mod.run(ctx)
        ctx.flush_model()
    except MachineryError:
        raise
    except Exception as e:
        tb = traceback.format_exc()
        if ctx.failures:
            # the harness tripped over a library that already misbehaves: report the failing inputs found so far
            ctx.notes.append('harness aborted after recording failures: ' + tb[-400:])
            return
        frames = traceback.extract_tb(e.__traceback__)
        if frames and os.path.abspath(frames[-1].filename).startswith(os.path.abspath(REPO) + os.sep):
            # the exception was raised INSIDE the library by a call the harness makes unguarded because it cannot fail on the
            # unchanged tree (setting up an input, rendering a value): the library's behaviour changed under the harness. That
            # is a broken correspondence (never an exit 2, which would hide it): the verdict logic goes on to search for a
            # concrete failing input and reports no-failing-input-found with this traceback otherwise.
            ctx.broken.append({'kind': 'library-raised-in-harness', 'detail': _short(tb[-1500:], 1500)})
            ctx.notes.append('run aborted: the library raised inside an unguarded harness call')
            return
        raise MachineryError('harness crashed:\n' + tb)


def run_check(prop, tier, seed, replay=None):
    t0 = time.time()
    mod = importlib.import_module(f'harness.props.{prop}')
    spec = mod.SPEC          # dict: translators=[callables], lean_targets=[...], design_ref, assumptions, trusted_base
    broken = []              # broken obligations / ties: dict(kind, detail)
    tie = {}

    # 1. regenerate translated inputs from /repo
    for name, fn in spec.get('translators', []):
        try:
            changed, info = fn()
            tie[name] = {'status': 'ok', 'changed': changed, 'info': info}
        except Exception as e:  # source left the translatable subset
            tie[name] = {'status': 'lost', 'reason': f'{type(e).__name__}: {e}'}

    # 2. build proofs + driver
    PROPERTY_MODULES[prop] = list(spec.get('property_modules', []))
    targets = [f'TonVerif.Properties.{m}' for m in property_modules(prop)] + ['tonmodel'] + spec.get('lean_targets', [])
    ok, log, first = lake_build(targets)
    build_ok = ok
    if not ok:
        broken.append({'kind': 'lean-build', 'detail': first})
        # the driver may still be buildable without the property file
        ok2, _, _ = lake_build(['tonmodel'])
        driver_ok = ok2
    else:
        driver_ok = True

    # 3. audit
    obligations = 0
    discharged = 0
    axioms = {}
    if build_ok:
        aok, axioms, problems = audit_axioms(prop)
        obligations = len(property_theorems(prop))
        discharged = len([t for t, a in axioms.items() if all(x in ALLOWED_AXIOMS for x in a)])
        if not aok:
            broken.append({'kind': 'axiom-audit', 'detail': '; '.join(problems)[:500]})
        hits = grep_forbidden()
        if hits:
            broken.append({'kind': 'forbidden-source', 'detail': '; '.join(hits)[:500]})
        if tier == 'thorough' and spec.get('leanchecker', True):
            lok, lout = leanchecker([f'TonVerif.Properties.{m}' for m in property_modules(prop)])
            tie['leanchecker'] = {'ok': lok}
            if not lok:
                broken.append({'kind': 'leanchecker', 'detail': lout})
    else:
        try:
            obligations = len(property_theorems(prop))
        except Exception:
            obligations = 1

    lost = [k for k, v in tie.items() if v.get('status') == 'lost']

    # 4-6. corpus, correspondence, oracle (search mode if an obligation broke)
    def execute(search):
        ctx = Ctx(prop, tier, seed, search=search)
        ctx.driver_ok = driver_ok
        ctx.tie = tie
        _execute(ctx, mod, prop, replay)
        return ctx

    ctx = execute(bool(broken))
    if ctx.broken and not ctx.failures and not ctx.search and not replay:
        ctx2 = execute(True)       # failing-input search after a broken correspondence
        ctx2.broken = ctx2.broken or ctx.broken
        ctx = ctx2
    broken += ctx.broken

    # 7. verdict
    violations = []
    ctx.failures.sort(key=lambda f: len(json.dumps(jsonable(f['input']), default=str)))
    distinct_keys = []
    for f in ctx.failures:
        kind = f['key'].split(':')[0]
        if kind in distinct_keys or len(distinct_keys) >= 4:
            continue                       # one replay (the smallest input) per kind of failure
        distinct_keys.append(kind)
        payload = {'property': prop, 'kind': 'failing-input', 'seed': seed, 'tier': tier, **{k: jsonable(v) for k, v in f.items()},
                   'broken_obligations': broken, 'other_failures': len(ctx.failures) - 1,
                   'rerun': f'./check {prop} --replay <this file>'}
        violations.append((write_replay(prop, payload), ''))
    if broken and not ctx.failures:
        payload = {'property': prop, 'kind': 'broken-obligation', 'seed': seed, 'tier': tier, 'broken': broken,
                   'translator_ties': tie,
                   'note': 'a proof obligation / audit no longer checks and the failing-input search found no concrete input'}
        violations.append((write_replay(prop, payload), ' no-failing-input-found'))

    for k in ctx.known_hit:
        print(f'KNOWN-FINDING: property={prop} {ctx.known[k]["what"]}')
    seen = set()
    for path, suffix in violations:
        if path in seen:
            continue
        seen.add(path)
        print(f'VIOLATION property={prop} replay={path}{suffix}')

    wall = time.time() - t0
    thm_names = sorted(axioms.keys())
    evidence = {
        'property_id': prop,
        'tier': tier,
        'seed': seed,
        'level': 'proof',
        'coverage': {
            'obligations': max(obligations, 1),
            'discharged': discharged if build_ok else 0,
            'checker_cmd': f'cd lean && lake build TonVerif.Properties.{prop} tonmodel  # then #print axioms on every theorem of Properties/{prop}.lean'
                           + (' ; lake env leanchecker' if tier == 'thorough' else ''),
            'trusted_base': spec.get('trusted_base', []) + [
                'Lean 4.33 kernel; axioms allowed: propext, Classical.choice, Quot.sound',
                'harness/ (Python generators, canonicalisation, line protocol) and lean/Driver.lean'],
            'theorems': thm_names,
            'axioms_used': sorted({a for v in axioms.values() for a in v}),
            'translator_ties': tie,
            'broken_obligations': broken,
            'evaluations': ctx.evaluations,
            'distinct_nontrivial': len(ctx.nontrivial),
            'rule': spec.get('rule', ''),
            'samples': [jsonable(s) for s in ctx.samples] or ['(no sampled case)'],
            'distribution': ctx.stats,
            'model_requests': ctx._model.calls if ctx._model else 0,
            'known_findings_hit': ctx.known_hit,
            'notes': ctx.notes,
        },
        'assumptions': spec.get('assumptions', []),
        'wall_s': round(wall, 2),
        'violations': len(seen),
    }
    os.makedirs(EVIDENCE, exist_ok=True)
    with open(os.path.join(EVIDENCE, f'{prop}.json'), 'w') as f:
        json.dump(evidence, f, indent=1, default=str)
    status = 'VIOLATED' if seen else 'holds'
    print(f'[{prop}] {status}: theorems {discharged}/{obligations}, cases {ctx.evaluations} '
          f'({len(ctx.nontrivial)} distinct), ties {json.dumps({k: v.get("status", v.get("ok")) for k, v in tie.items()})}, '
          f'{wall:.1f}s')
    return 1 if seen else 0


def main(argv):
    import argparse
    ap = argparse.ArgumentParser()
    ap.add_argument('prop')
    ap.add_argument('--tier', default=os.environ.get('VERIF_TIER', 'quick'), choices=['quick', 'thorough'])
    ap.add_argument('--replay')
    a = ap.parse_args(argv)
    seed = int(os.environ.get('VERIF_SEED', '0') or 0)
    try:
        return run_check(a.prop, a.tier, seed, a.replay)
    except MachineryError as e:
        print(f'[{a.prop}] MACHINERY ERROR (exit 2): {e}', file=sys.stderr)
        return 2
    except subprocess.TimeoutExpired as e:
        print(f'[{a.prop}] TIMEOUT (exit 2): {e}', file=sys.stderr)
        return 2
    except Exception:
        print(f'[{a.prop}] MACHINERY ERROR (exit 2):\n{traceback.format_exc()}', file=sys.stderr)
        return 2
