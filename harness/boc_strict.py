"""An independent STRICT reader of the TON bag-of-cells format in plain Python (no library code).

Written from crypto/tl/boc.tlb (`serialized_boc#b5ee9c72 ...`), tvm.pdf 3.1.4 (cell records) and the checks of
the reference node; it is the Python twin of lean/TonVerif/Spec/Boc.lean so that a replay does not depend on the
Lean driver.  Cell hashes / level masks come from the spec transcription in harness/gen/cells.py (`spec_node`).
"""
from .gen import cells as G


class Reject(Exception):
    pass


def crc32c(data: bytes) -> int:
    c = 0xFFFFFFFF
    for b in data:
        c ^= b
        for _ in range(8):
            c = (c >> 1) ^ 0x82F63B78 if c & 1 else c >> 1
    return c ^ 0xFFFFFFFF


_CRC_TABLE = None


def crc32c_fast(data: bytes) -> int:
    """same function, byte-at-a-time with a table derived from the bitwise definition above"""
    global _CRC_TABLE
    if _CRC_TABLE is None:
        t = []
        for i in range(256):
            c = i
            for _ in range(8):
                c = (c >> 1) ^ 0x82F63B78 if c & 1 else c >> 1
            t.append(c)
        _CRC_TABLE = t
    c = 0xFFFFFFFF
    t = _CRC_TABLE
    for b in data:
        c = (c >> 8) ^ t[(c ^ b) & 0xFF]
    return c ^ 0xFFFFFFFF


class _R:
    def __init__(self, data):
        self.d = data
        self.i = 0

    def take(self, n):
        if self.i + n > len(self.d):
            raise Reject('truncated')
        b = self.d[self.i:self.i + n]
        self.i += n
        return b

    def uint(self, n):
        return int.from_bytes(self.take(n), 'big')


def strict_parse(data: bytes, semantic=True):
    """Returns dict(roots=[idx], recs=[dict(d1, bits, refs, hash)], flags=(idx,crc,cache), size, off) or raises Reject."""
    r = _R(data)
    if r.take(4) != bytes.fromhex('b5ee9c72'):
        raise Reject('magic')
    fl = r.uint(1)
    has_idx, has_crc, has_cache = bool(fl & 128), bool(fl & 64), bool(fl & 32)
    if (fl >> 3) & 3:
        raise Reject('flags != 0')
    size = fl & 7
    if not 1 <= size <= 4:
        raise Reject('size')
    if has_cache and not has_idx:
        raise Reject('cache bits without index')
    off = r.uint(1)
    if not 1 <= off <= 8:
        raise Reject('off_bytes')
    cells, roots, absent = r.uint(size), r.uint(size), r.uint(size)
    if roots < 1:
        raise Reject('roots < 1')
    if absent != 0:
        raise Reject('absent != 0')
    if roots > cells:
        raise Reject('roots > cells')
    tot = r.uint(off)
    root_list = [r.uint(size) for _ in range(roots)]
    if any(x >= cells for x in root_list):
        raise Reject('root index out of range')
    index = [r.uint(off) for _ in range(cells)] if has_idx else None
    cell_data = r.take(tot)
    tail = data[r.i:]
    if has_crc:
        if len(tail) != 4:
            raise Reject('trailing bytes / missing crc')
        if int.from_bytes(tail, 'little') != crc32c_fast(data[:-4]):
            raise Reject('crc32c mismatch')
    elif tail:
        raise Reject('trailing bytes')
    # cell records
    c = _R(cell_data)
    recs = []
    ends = []
    for _ in range(cells):
        d1, d2 = c.uint(1), c.uint(1)
        nrefs = d1 & 7
        if nrefs > 4:
            raise Reject('refs > 4')
        if d1 & 16:
            raise Reject('stored hashes not supported by the strict reader')
        body = c.take((d2 >> 1) + (d2 & 1))
        bits = G.bytes_to_bits(body)
        if d2 & 1:
            if not body or body[-1] & 0x7f == 0:
                raise Reject('completion tag missing / overlong')
            bits = bits[:bits.rindex('1')]
        exotic = bool(d1 & 8)
        if exotic and len(bits) < 8:
            raise Reject('exotic cell without type byte')
        refs = [c.uint(size) for _ in range(nrefs)]
        recs.append(dict(d1=d1, bits=bits, refs=refs, exotic=exotic, hash=None))
        ends.append(c.i)
    if c.i != len(cell_data):
        raise Reject('cell data not filled exactly')
    if has_idx:
        got = [e >> 1 for e in index] if has_cache else index
        if got != ends:
            raise Reject(f'index is not the cumulative end offsets: {index[:6]}.. vs {ends[:6]}..')
    for i, rec in enumerate(recs):
        for j in rec['refs']:
            if not (i < j < cells):
                raise Reject(f'reference {j} of cell {i} not strictly forward / out of range')
    if semantic:
        infos = [None] * cells
        seen = set()
        for i in range(cells - 1, -1, -1):
            rec = recs[i]
            if rec['exotic']:
                kind = int(rec['bits'][:8], 2)
                if kind not in (1, 2, 3, 4):
                    raise Reject('unknown exotic type')
            else:
                kind = G.ORD
            s = G.spec_node(kind, rec['bits'], [infos[j] for j in rec['refs']])
            if not s.valid:
                raise Reject('invalid cell: ' + s.why)
            if s.mask != rec['d1'] >> 5:
                raise Reject(f'level bits of d1 ({rec["d1"] >> 5}) != computed level mask ({s.mask}) in cell {i}')
            infos[i] = s
            rec['hash'] = s.H[3]
            if s.H[3] in seen:
                raise Reject(f'duplicate cell {i}')
            seen.add(s.H[3])
    return dict(roots=root_list, recs=recs, flags=(has_idx, has_crc, has_cache), size=size, off=off)


def parse_lean_listing(ans):
    """answer of the driver ops bocstrict/bocflat -> same dict shape (or None for err)"""
    if not ans.startswith('ok '):
        return None
    _, roots, body = ans.split(' ', 2)
    recs = []
    for part in body.split('|'):
        d1, bits, refs, h = part.split(',')
        d1 = int(d1)
        recs.append(dict(d1=d1, bits='' if bits == '-' else bits, refs=[] if refs == '-' else [int(x) for x in refs.split('.')],
                         exotic=bool(d1 & 8), hash=None if h in ('-', 'x') else bytes.fromhex(h)))
    return dict(roots=[] if roots == '-' else [int(x) for x in roots.split('.')], recs=recs)


def expected_dag(root):
    """the DAG the library holds: {hash: (type, bits01, [ref hashes])} for every distinct cell under `root` (iterative)"""
    out = {}
    stack = [root]
    while stack:
        c = stack.pop()
        if c.hash in out:
            continue
        out[c.hash] = (c.type_, c.bits.to01(), [x.hash for x in c.refs])
        stack.extend(c.refs)
    return out


def compare(listing, exp, root_hash):
    """None if the strict reader's listing denotes exactly the DAG `exp` with the single root `root_hash`, else a reason."""
    recs = listing['recs']
    if len(listing['roots']) != 1:
        return f'{len(listing["roots"])} roots'
    if len(recs) != len(exp):
        return f'{len(recs)} cell records for {len(exp)} distinct cells'
    seen = set()
    for i, rec in enumerate(recs):
        h = rec['hash']
        if h not in exp:
            return f'record {i} is not a cell of the DAG'
        if h in seen:
            return f'cell of record {i} appears twice'
        seen.add(h)
        t, bits, refs = exp[h]
        if rec['bits'] != bits:
            return f'record {i}: data bits differ'
        if rec['exotic'] != (t != -1):
            return f'record {i}: exotic flag differs'
        if rec['exotic'] and int(bits[:8], 2) != t:
            return f'record {i}: exotic type differs'
        if [recs[j]['hash'] for j in rec['refs']] != refs:
            return f'record {i}: references differ'
    if recs[listing['roots'][0]]['hash'] != root_hash:
        return 'root differs'
    return None
