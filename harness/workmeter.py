"""Work meter for C19: counts Python LINE events executed inside `pytoniq_core` during ONE call.

`measure(fn, max_lines, max_seconds)` -> Meter(lines, seconds, aborted, result, exc)

* Python 3.12+: `sys.monitoring` (tool id 4), LINE events; code objects outside the library are
  switched off per location (`DISABLE`) so the overhead is paid only inside the library.
  Fallback (< 3.12): `sys.settrace` with a per-frame local tracer for library frames only.
* Line counts are deterministic for a given input and library source (no timing, no GC dependence).
* Budget: when `lines > max_lines` or the wall clock exceeds `max_seconds + per_line*lines`, the callback raises
  `WorkBudgetExceeded` (a BaseException, so `except Exception` inside the library does not swallow it)
  and keeps raising on every further line until control is back in `measure`.  This keeps a check fast
  even when a mutation makes the library exponential.  C-level work (slicing, hashing, bitarray) is
  invisible to the meter except through the number of lines that trigger it.
"""
import os
import sys
import time


class WorkBudgetExceeded(BaseException):
    pass


class Meter:
    __slots__ = ('lines', 'seconds', 'aborted', 'result', 'exc', 'memory')

    def __init__(self):
        self.lines = 0
        self.seconds = 0.0
        self.aborted = None     # None | 'lines' | 'time'
        self.result = None
        self.exc = None

    def __repr__(self):
        return f'Meter(lines={self.lines}, seconds={self.seconds:.3f}, aborted={self.aborted}, exc={type(self.exc).__name__ if self.exc else None})'


def _lib_prefix():
    import pytoniq_core
    return os.path.dirname(os.path.abspath(pytoniq_core.__file__)) + os.sep


_TOOL = 4
_TIME_EVERY = 2048


def _measure_monitoring(fn, max_lines, max_seconds, per_line):
    mon = sys.monitoring
    prefix = _lib_prefix()
    m = Meter()
    t0 = time.perf_counter()
    state = [0, None]           # lines, aborted
    is_lib = {}

    def on_line(code, line):
        ok = is_lib.get(code)
        if ok is None:
            ok = is_lib[code] = os.path.abspath(code.co_filename).startswith(prefix)
        if not ok:
            return mon.DISABLE
        n = state[0] = state[0] + 1
        if state[1] is not None:
            raise WorkBudgetExceeded(state[1])
        if n > max_lines:
            state[1] = 'lines'
            raise WorkBudgetExceeded('lines')
        if n % _TIME_EVERY == 0 and time.perf_counter() - t0 > max_seconds + per_line * n:
            state[1] = 'time'
            raise WorkBudgetExceeded('time')
        return None

    try:
        mon.use_tool_id(_TOOL, 'c19-workmeter')
    except ValueError:
        mon.free_tool_id(_TOOL)
        mon.use_tool_id(_TOOL, 'c19-workmeter')
    mon.register_callback(_TOOL, mon.events.LINE, on_line)
    mon.restart_events()
    mon.set_events(_TOOL, mon.events.LINE)
    try:
        try:
            m.result = fn()
        except WorkBudgetExceeded as e:
            m.aborted = state[1] or str(e)
        except RecursionError as e:
            m.exc = e
        except Exception as e:       # library exceptions are a normal outcome (terminates by raising)
            m.exc = e
    finally:
        mon.set_events(_TOOL, 0)
        mon.register_callback(_TOOL, mon.events.LINE, None)
        mon.free_tool_id(_TOOL)
    m.lines = state[0]
    m.seconds = time.perf_counter() - t0
    if m.aborted is None and state[1] is not None:
        m.aborted = state[1]      # budget exception was swallowed by a bare `except:` in the library
    if m.aborted is None and m.seconds > max_seconds + per_line * m.lines:
        m.aborted = 'time'
    return m


def _measure_settrace(fn, max_lines, max_seconds, per_line):
    prefix = _lib_prefix()
    m = Meter()
    t0 = time.perf_counter()
    state = [0, None]
    is_lib = {}

    def local(frame, event, arg):
        if event == 'line':
            n = state[0] = state[0] + 1
            if state[1] is not None:
                raise WorkBudgetExceeded(state[1])
            if n > max_lines:
                state[1] = 'lines'
                raise WorkBudgetExceeded('lines')
            if n % _TIME_EVERY == 0 and time.perf_counter() - t0 > max_seconds + per_line * n:
                state[1] = 'time'
                raise WorkBudgetExceeded('time')
        return local

    def glob(frame, event, arg):
        code = frame.f_code
        ok = is_lib.get(code)
        if ok is None:
            ok = is_lib[code] = os.path.abspath(code.co_filename).startswith(prefix)
        return local if ok else None

    old = sys.gettrace()
    sys.settrace(glob)
    try:
        try:
            m.result = fn()
        except WorkBudgetExceeded as e:
            m.aborted = state[1] or str(e)
        except Exception as e:
            m.exc = e
    finally:
        sys.settrace(old)
    m.lines = state[0]
    m.seconds = time.perf_counter() - t0
    if m.aborted is None and state[1] is not None:
        m.aborted = state[1]
    if m.aborted is None and m.seconds > max_seconds + per_line * m.lines:
        m.aborted = 'time'
    return m


def measure(fn, max_lines=10 ** 7, max_seconds=2.0, per_line=25e-6):
    """Run `fn()` once, counting library line events.  Never raises for library exceptions.
    Wall-clock allowance = max_seconds + per_line * (lines executed): the metering overhead itself is a few
    microseconds per line, so big legitimate inputs (a 10 kB bag of 1024 cells = 220 k lines) are not cut on a loaded machine,
    while an input of a few hundred bytes (a few thousand lines at most) still has to finish within ~max_seconds."""
    # memory: while the library call runs, the address space may grow by at most MEM_CAP bytes - an allocation sized by a
    # count field of the input (`[None] * cells_num`) then fails with MemoryError (recorded in m.exc, m.memory = True) instead
    # of taking the whole machine down (line and time budgets do not see one huge C-level allocation)
    import resource
    soft, hard = resource.getrlimit(resource.RLIMIT_AS)
    cur = _vm_size()
    capped = False
    if cur:
        try:
            resource.setrlimit(resource.RLIMIT_AS, (cur + MEM_CAP, hard))
            capped = True
        except (ValueError, OSError):
            pass
    try:
        if hasattr(sys, 'monitoring'):
            m = _measure_monitoring(fn, max_lines, max_seconds, per_line)
        else:
            m = _measure_settrace(fn, max_lines, max_seconds, per_line)
    finally:
        if capped:
            resource.setrlimit(resource.RLIMIT_AS, (soft, hard))
    m.memory = isinstance(m.exc, MemoryError)
    return m


MEM_CAP = 1 << 30


def _vm_size():
    try:
        with open('/proc/self/statm') as f:
            return int(f.read().split()[0]) * os.sysconf('SC_PAGE_SIZE')
    except Exception:
        return 0
