"""Read traces for C16 (trace tie between the library's TL-B parsers and the Lean spec codecs).

Library side: `Tracer` makes every slice the parsers touch a recording slice (`RecSlice`): each primitive read appends an
event (kind, width) to the node of the CELL it reads from; `load_ref` / `preload_ref` link the node of the referenced cell
(created when the parser calls `begin_parse` on it) at its reference position.  The result is a tree: per cell the
ordered bit reads and the ordered reference reads.  Integers / byte strings returned by reads carry the event they came from
(`TInt`, `TBytes`: provenance), so that "which read ended up in which attribute" can be checked as well.

Spec side: the driver prints `Codec.trace v` (Spec/Tlb/Codec.lean; `c16_trace_accounts_for_encoding` proves that the trace is
an exact read script of the encoding).  `parse_spec_trace` turns it into the same tree shape with schema field paths.

`compare` aligns the two per cell by bit offset:
  * a typed spec field (`u` unsigned / `i` signed, width >= 2, `v<l>` VarUInteger) must be read by ONE library read of
    exactly that bit range and the same kind (a VarUInteger also as its two unsigned parts);
  * raw bits (`b`) by one unsigned/raw read of that range or by raw reads tiling it; never a signed read;
  * control bits (tags, Maybe/Either bits, Bool, 1-bit numbers, dictionary labels; adjacent ones merged) by any reads that
    tile the run without crossing its ends;
  * preloads do not consume (a preload followed by a skip of the same width is the typed read);
  * references pair up by position; a reference the spec parses and the library parsed is compared recursively; a reference the
    library keeps as a cell is counted (`unparsed_ref`), as is an unread tail of a referenced cell (`unparsed_tail`).
"""
from pytoniq_core.boc.slice import Slice
from pytoniq_core.boc.cell import Cell


class TInt(int):
    """an int that remembers the read event it came from"""
    def __new__(cls, v, ev):
        o = int.__new__(cls, v)
        o._ev = ev
        return o


class TBytes(bytes):
    def __new__(cls, v, ev):
        o = bytes.__new__(cls, v)
        o._ev = ev
        return o


class PStr(str):
    """canonical bit string of a TBytes (provenance kept through the READERS table)"""
    def __new__(cls, v, ev):
        o = str.__new__(cls, v)
        o._ev = ev
        return o


class Node:
    __slots__ = ('id', 'events', 'children', 'refs_consumed', 'peek', 'rest', 'nbits', 'nrefs')

    def __init__(self, id_, nbits, nrefs, peek=False):
        self.id = id_
        self.events = []          # (kind, width, consuming, ev_id)
        self.children = {}        # ref position -> [Node]
        self.refs_consumed = 0
        self.peek = peek
        self.rest = False         # to_cell(): the remainder was taken as a cell
        self.nbits = nbits
        self.nrefs = nrefs


class Tracer:
    """with Tracer() as t: root = t.root(cell); parser(root) ; t.top is the trace tree of the top cell"""
    current = None

    def __init__(self):
        self.nodes = []
        self.pending = {}
        self.active = False
        self.nev = 0
        self.top = None
        self.ev_node = {}

    def __enter__(self):
        self._orig = Cell.begin_parse
        tracer = self

        def begin_parse(cell):
            if not tracer.active:
                return tracer._orig(cell)
            return tracer.slice_of(cell)
        Cell.begin_parse = begin_parse
        self.active = True
        Tracer.current = self
        return self

    def __exit__(self, *a):
        Cell.begin_parse = self._orig
        self.active = False
        Tracer.current = None
        return False

    def new_node(self, nbits, nrefs, peek=False):
        n = Node(len(self.nodes), nbits, nrefs, peek)
        self.nodes.append(n)
        return n

    def slice_of(self, cell):
        node = self.new_node(len(cell.bits), len(cell.refs))
        link = self.pending.get(id(cell))
        if link is not None:
            parent, pos = link
            parent.children.setdefault(pos, []).append(node)
        return RecSlice(cell.bits.copy(), cell.refs.copy(), cell.type_, node, self)

    def root(self, cell):
        s = self.slice_of(cell)
        self.top = s._n
        return s

    def event(self, node, kind, w, consuming):
        ev = self.nev
        self.nev += 1
        node.events.append((kind, w, consuming, ev))
        self.ev_node[ev] = node
        return ev


class RecSlice(Slice):
    def __init__(self, bits, refs, type_=-1, node=None, tracer=None):
        super().__init__(bits, refs, type_)
        self._n = node
        self._t = tracer
        self._mute = 0
        self._len = len(self.bits)

    # -- bookkeeping
    def _on(self):
        return self._t is not None and self._t.active and not self._mute

    def _sync(self):
        """bits removed behind our back (`del slice.bits[:n]`) are an untyped read"""
        d = self._len - len(self.bits)
        if d > 0:
            self._t.event(self._n, 'b', d, True)
        self._len = len(self.bits)
        if self.ref_offset > self._n.refs_consumed:
            self._n.refs_consumed = self.ref_offset

    def _read(self, kind, w, fn, *a, consuming=True, wrap=None):
        if not self._on():
            return fn(self, *a)
        self._sync()
        self._mute += 1
        try:
            v = fn(self, *a)
        finally:
            self._mute -= 1
        ev = self._t.event(self._n, kind, w, consuming)
        self._len = len(self.bits)
        if wrap is not None:
            try:
                return wrap(v, ev)
            except Exception:
                return v
        return v

    # -- bit reads
    def load_bit(self):
        return self._read('u', 1, Slice.load_bit, wrap=TInt)

    def load_bool(self):
        return self._read('u', 1, Slice.load_bool)

    def preload_bit(self):
        return self._read('u', 1, Slice.preload_bit, consuming=False)

    def preload_bool(self):
        return self._read('u', 1, Slice.preload_bool, consuming=False)

    def skip_bits(self, length):
        self._read('skip', length, Slice.skip_bits, length)
        return self

    def load_bits(self, length):
        return self._read('b', length, Slice.load_bits, length)

    def preload_bits(self, length):
        return self._read('b', length, Slice.preload_bits, length, consuming=False)

    def load_uint(self, length):
        return self._read('u', length, Slice.load_uint, length, wrap=TInt)

    def preload_uint(self, length):
        return self._read('u', length, Slice.preload_uint, length, consuming=False)

    def load_int(self, length):
        return self._read('i', length, Slice.load_int, length, wrap=TInt)

    def preload_int(self, length):
        return self._read('i', length, Slice.preload_int, length, consuming=False)

    def load_bytes(self, length):
        return self._read('b', length * 8, Slice.load_bytes, length, wrap=TBytes)

    def preload_bytes(self, length):
        return self._read('b', length * 8, Slice.preload_bytes, length, consuming=False)

    def _var(self, kind, bit_length, fn, *a):
        if not self._on():
            return fn(self, *a)
        before = len(self.bits)
        self._sync()
        self._mute += 1
        try:
            v = fn(self, *a)
        finally:
            self._mute -= 1
        ev = self._t.event(self._n, f'{kind}{bit_length}', before - len(self.bits), True)
        self._len = len(self.bits)
        return TInt(v, ev)

    def load_var_uint(self, bit_length):
        return self._var('v', bit_length, Slice.load_var_uint, bit_length)

    def load_var_int(self, bit_length):
        return self._var('w', bit_length, Slice.load_var_int, bit_length)

    def load_coins(self):
        return self._var('v', 4, Slice.load_coins)

    def preload_var_uint(self, bit_length):
        return self._read('pv', 0, Slice.preload_var_uint, bit_length, consuming=False)

    def preload_var_int(self, bit_length):
        return self._read('pv', 0, Slice.preload_var_int, bit_length, consuming=False)

    def preload_coins(self):
        return self._read('pv', 0, Slice.preload_coins, consuming=False)

    def preload_address(self):
        return self._read('pa', 0, Slice.preload_address, consuming=False)

    # load_address, load_string, load_snake_*, load_dict, load_hashmap* : the base implementations call the primitives above

    # -- references
    def _link(self, cell, pos):
        self._t.pending[id(cell)] = (self._n, pos)

    def load_ref(self):
        if not self._on():
            return Slice.load_ref(self)
        self._sync()
        pos = self.ref_offset
        cell = Slice.load_ref(self)
        self._n.refs_consumed = self.ref_offset
        self._link(cell, pos)
        return cell

    def preload_ref(self, offset=0):
        cell = Slice.preload_ref(self, offset)
        if self._on():
            self._link(cell, self.ref_offset + offset)
        return cell

    def load_maybe_ref(self):
        if not self._on():
            return Slice.load_maybe_ref(self)
        if self.load_bit():
            return self.load_ref()
        return None

    def preload_maybe_ref(self):
        if not self._on():
            return Slice.preload_maybe_ref(self)
        if self.preload_bool():
            return self.preload_ref()
        return None

    # -- whole-slice operations
    def to_cell(self):
        if self._on():
            self._sync()
            self._n.rest = True
        return Slice.to_cell(self)

    def copy(self):
        if self._t is None or not self._t.active:
            return Slice.copy(self)
        node = self._t.new_node(len(self.bits), self.remaining_refs, peek=True)
        return RecSlice(self.bits.copy(), self.refs[self.ref_offset:], self.type_, node, self._t)

    def finish(self):
        if self._t is not None:
            self._sync()


# ----------------------------------------------------------------------------- spec side

class SNode:
    __slots__ = ('bits', 'refs')

    def __init__(self):
        self.bits = []      # (kind, width, path | None, lenbits)
        self.refs = []      # SNode | None (raw reference)


def parse_spec_trace(tok):
    """driver trace token -> SNode tree of the top cell; paths = schema field names joined by '.', `^[...]` groups and constructor
    names left out; reads inside dictionaries (under a Hashmap edge) have path None"""
    top = SNode()
    stack = [top]
    names = []           # (name, is_edge_frame)
    if tok in ('-', ''):
        return top
    for t in tok.split(','):
        cur = stack[-1]
        c = t[0]
        if c == '<':
            nm = t[1:]
            if nm == 'label' and names:
                names[-1] = (names[-1][0], True)
            names.append((nm, nm == 'label'))
        elif c == '>':
            names.pop()
        elif c == '(':
            n = SNode()
            cur.refs.append(n)
            stack.append(n)
        elif c == ')':
            stack.pop()
        elif c == 'r':
            cur.refs.append(None)
        else:
            in_dict = any(e for _, e in names)
            path = None if in_dict else '.'.join(n for n, _ in names if not n.startswith('$') and not n.startswith('_ref'))
            if c == 'v':
                k, w = t[1:].split('.')
                cur.bits.append(('v', int(w), path, int(k)))
            else:
                cur.bits.append((c, int(t[1:]), path, 0))
    return top


def spec_items(bits):
    """[(start, end, kind, path, lenbits)] with adjacent control reads merged; 1-bit numbers are control bits"""
    out = []
    off = 0
    for kind, w, path, lb in bits:
        if w == 0:
            continue
        k = kind
        if k == 'u' and w == 1:
            k = 'c'
        if k == 'c' and out and out[-1][2] == 'c' and out[-1][1] == off:
            s, e, _, parts, _ = out[-1]
            out[-1] = (s, off + w, 'c', parts + [(off, off + w, path)], 0)
        elif k == 'c':
            out.append((off, off + w, 'c', [(off, off + w, path)], 0))
        else:
            out.append((off, off + w, k, path, lb))
        off += w
    return out, off


def lib_reads(node):
    """consuming reads of a library node as [(start, end, kind, ev)]; preload+skip of the same width = that typed read"""
    out = []
    off = 0
    pend = None
    for kind, w, consuming, ev in node.events:
        if not consuming:
            pend = (kind, w, ev) if kind in ('u', 'i', 'b') else None
            continue
        if kind == 'skip':
            if pend is not None and pend[1] == w:
                kind, ev = pend[0], pend[2]
            else:
                kind = 'b'
        pend = None
        if w == 0:
            continue
        out.append((off, off + w, kind, ev))
        off += w
    return out, off


def compare(spec, lib, where='top', top=True, prov=None, stats=None, out=None, locs=None):
    """-> list of mismatches; fills prov {ev id: (schema path, cell, lo, hi)}, locs {schema path: (cell, lo, hi)} and stats"""
    if out is None:
        out = []
    if prov is None:
        prov = {}
    if locs is None:
        locs = {}
    if stats is None:
        stats = {}

    def bump(k):
        stats[k] = stats.get(k, 0) + 1

    items, stotal = spec_items(spec.bits)
    reads, ltotal = lib_reads(lib)
    if lib.rest:
        # the remainder was taken as a cell: an untyped read of everything left
        if ltotal < lib.nbits:
            reads.append((ltotal, lib.nbits, 'b', -1))
            ltotal = lib.nbits
    if ltotal > stotal:
        out.append(dict(kind='overread', cell=where, spec_bits=stotal, lib_bits=ltotal,
                        detail=f'library reads {ltotal} bits of this cell, the schema value occupies {stotal}'))
    ri = 0
    for s, e, kind, path, lb in items:
        if s >= ltotal:
            bump('unparsed_tail')
            bump('where:tail:' + str(path if kind != 'c' else path[0][2]))
            break
        while ri < len(reads) and reads[ri][1] <= s:
            ri += 1
        ov = []
        j = ri
        while j < len(reads) and reads[j][0] < e:
            ov.append(reads[j])
            j += 1
        pth = path if kind != 'c' else '/'.join(str(p[2]) for p in path)
        desc = dict(cell=where, offset=s, width=e - s, spec_kind=kind, path=pth, spec_bits=stotal, lenbits=lb,
                    lib=[(r[2], r[1] - r[0], r[0]) for r in ov], lo=s, hi=e,
                    lib_lo=min([r[0] for r in ov] + [s]), lib_hi=max([r[1] for r in ov] + [e]))
        if kind == 'c':
            if any(r[0] < s or r[1] > e for r in ov):
                if e > ltotal and not any(r[0] < s for r in ov):
                    bump('unparsed_tail')
                else:
                    out.append(dict(desc, kind='straddle', detail=f'a library read crosses the end of the control bits at {s}..{e}'))
                continue
            for a, b, p in path:
                for r in ov:
                    if (r[0], r[1]) == (a, b) and p is not None:
                        prov[r[3]] = (p, where, a, b)
                        locs[p] = (where, a, b)
            continue
        exact = [r for r in ov if (r[0], r[1]) == (s, e)]
        if kind in ('u', 'i'):
            if len(ov) == 1 and exact and exact[0][2] == kind:
                if path is not None:
                    prov[exact[0][3]] = (path, where, s, e)
                    locs[path] = (where, s, e)
                bump('typed_ok')
            elif len(ov) == 1 and exact:
                out.append(dict(desc, kind='signedness' if {kind, exact[0][2]} == {'u', 'i'} else 'type',
                                detail=f'schema field {path} is {kind}{e - s}, library reads it as {exact[0][2]}{e - s}'))
            elif not ov:
                bump('unparsed_tail')
            else:
                out.append(dict(desc, kind='width', detail=f'schema field {path} is {kind}{e - s} at bit {s}; library reads '
                                                          + ', '.join(f'{r[2]}{r[1] - r[0]}@{r[0]}' for r in ov)))
        elif kind == 'v':
            if len(ov) == 1 and exact and exact[0][2] == f'v{lb}':
                if path is not None:
                    prov[exact[0][3]] = (path, where, s, e)
                    locs[path] = (where, s, e)
                bump('typed_ok')
            elif (len(ov) in (1, 2) and ov[0][0] == s and ov[-1][1] == e and ov[0][1] - ov[0][0] == lb
                  and all(r[2] == 'u' for r in ov)):
                if len(ov) == 2 and path is not None:
                    prov[ov[1][3]] = (path, where, s, e)
                    locs[path] = (where, s, e)
                bump('typed_ok')
            elif len(ov) == 1 and exact and exact[0][2] == f'w{lb}':
                out.append(dict(desc, kind='signedness', detail=f'schema field {path} is VarUInteger {lb}, library reads it as a signed VarInteger'))
            else:
                out.append(dict(desc, kind='width', detail=f'schema field {path} is VarUInteger (prefix {lb} bits, {e - s} bits in all) at bit {s}; '
                                                          'library reads ' + ', '.join(f'{r[2]}{r[1] - r[0]}@{r[0]}' for r in ov)))
        else:   # raw bits
            if len(ov) == 1 and exact and exact[0][2] in ('b', 'u'):
                if path is not None:
                    prov[exact[0][3]] = (path, where, s, e)
                    locs[path] = (where, s, e)
                bump('raw_ok')
            elif ov and all(r[0] >= s and r[1] <= e and r[2] in ('b', 'u') for r in ov) and ov[0][0] == s and (ov[-1][1] == e or ov[-1][1] == ltotal):
                bump('raw_ok')
            elif not ov:
                bump('unparsed_tail')
            else:
                out.append(dict(desc, kind='signedness' if any(r[2] == 'i' for r in ov) else 'width',
                                detail=f'schema bit string {path} ({e - s} bits at {s}); library reads '
                                       + ', '.join(f'{r[2]}{r[1] - r[0]}@{r[0]}' for r in ov)))
    # references
    lrefs = lib.refs_consumed
    if lib.rest:
        lrefs = lib.nrefs
    if lrefs > len(spec.refs):
        out.append(dict(kind='overread_refs', cell=where, detail=f'library takes {lrefs} references of this cell, the schema value has {len(spec.refs)}'))
    for j, sref in enumerate(spec.refs):
        kids = [k for k in lib.children.get(j, []) if not k.peek]
        if sref is None:
            continue
        if not kids:
            bump('unparsed_ref')
            bump('where:ref:' + str(next((b[2] if b[0] != 'c' else None for b in sref.bits if b[2] is not None), None)))
            continue
        for k in kids:
            if not k.events and not k.children and not k.rest:
                bump('unparsed_ref')
                continue
            compare(sref, k, f'{where}/{j}', False, prov, stats, out, locs)
    return out


def node_path_to_dag(nodes, where):
    """'top/1/0' -> index of that cell in the DAG node list (root = last node)"""
    idx = len(nodes) - 1
    for p in where.split('/')[1:]:
        idx = nodes[idx][2][int(p)]
    return idx
