"""Alias-graph observer for C08 (heap model <-> library correspondence) and value-level call evaluator.

* `Pool`       the real Python objects of one history; index = object id of the Lean heap model.
* `observe`    what the library's objects look like right now: which bit array / list object each
               `.bits` / `.refs` attribute points to (by `id`), the contents, `ref_offset`, `type_`, cached hash.
* `ModelView`  the heap model's state, maintained from the deltas the driver prints after every step.
* `compare`    alias graph (bijection between model container ids and Python object identities),
               container contents and per-object meta data must agree.
* `snapshot` / `snap_from_obs`   value snapshots for the library-only frame oracle.
* `apply_call` / `eval_call` / `main`   value-level API calls, evaluated in history, on rebuilt equal-valued
               arguments and in a fresh interpreter in reversed order (history independence).
"""
import json
import sys

_T = None


def T():
    global _T
    if _T is None:
        from pytoniq_core.boc.cell import Cell
        from pytoniq_core.boc.slice import Slice
        from pytoniq_core.boc.builder import Builder
        from pytoniq_core.boc.tvm_bitarray import TvmBitarray
        from bitarray import bitarray
        _T = (Cell, Slice, Builder, bitarray, TvmBitarray)
    return _T


def tag_of(obj):
    Cell, Slice, Builder, bitarray, _ = T()
    if isinstance(obj, Cell):
        return 'c'
    if isinstance(obj, Slice):
        return 's'
    if isinstance(obj, Builder):
        return 'b'
    if isinstance(obj, bitarray):
        return 'ub'
    if isinstance(obj, list):
        return 'ur'
    return None


class Pool:
    """objects of one history; strong references keep every id() unique for the history's lifetime"""

    def __init__(self):
        self.objs = []
        self.tags = []
        self.ids = {}

    def add(self, obj, tag=None):
        i = len(self.objs)
        self.objs.append(obj)
        self.tags.append(tag or tag_of(obj))
        self.ids[id(obj)] = i
        return i

    def find(self, obj):
        return self.ids.get(id(obj))

    def __len__(self):
        return len(self.objs)


# observation entry: (tag, id(bits)|None, id(refs)|None, ref_offset, type_, bits01, refs as pool indexes, hash hex|None)
def _raw(o, name):
    d = getattr(o, '__dict__', None)
    if d is not None:
        for k in (name, '_' + name):
            if k in d:
                return d[k]
    return getattr(o, name)


def observe(pool):
    """-> (entries, unknown) ; unknown = [(object index, cell object)] for Cell objects in a refs list that are not in the pool"""
    out = []
    unknown = []
    ids = pool.ids
    for i, o in enumerate(pool.objs):
        t = pool.tags[i]
        if t == 'ub':
            out.append(('ub', id(o), None, 0, -1, o.to01(), (), None))
            continue
        if t == 'ur':
            refs = o
            bid, bits, off, kind, h = None, '', 0, -1, None
        else:
            # the containers are read from the instance dictionary, NOT through the public properties: an accessor may have side
            # effects (a copy-on-write scheme un-shares on access) and the observation after every step must not repair the state
            # the next step of the history is going to meet
            b = _raw(o, 'bits')
            refs = _raw(o, 'refs')
            bid, bits = id(b), b.to01()
            kind = o.type_
            off = o.ref_offset if t == 's' else 0
            h = o.hash.hex() if t == 'c' else None
        if refs:
            ridx = tuple(ids.get(id(r), -1) for r in refs)
            if -1 in ridx:
                for r in refs:
                    if id(r) not in ids:
                        unknown.append((i, r))
        else:
            ridx = ()
        out.append((t, bid, id(refs), off, kind, bits, ridx, h))
    return out, unknown


def snap_from_obs(obs):
    """value snapshot of every object (no identities): what the frame oracle compares between steps"""
    hs = [e[7] for e in obs]
    out = []
    for e in obs:
        t = e[0]
        if t == 'c':
            out.append(('c', e[7], e[5], tuple(hs[j] if j >= 0 else '?' for j in e[6]), e[4]))
        elif t == 's':
            out.append(('s', e[5], tuple(hs[j] if j >= 0 else '?' for j in e[6][e[3]:]), e[4]))
        elif t == 'b':
            out.append(('b', e[5], tuple(hs[j] if j >= 0 else '?' for j in e[6])))
        elif t == 'ub':
            out.append(('ub', e[5]))
        else:
            out.append(('ur', tuple(hs[j] if j >= 0 else '?' for j in e[6]), len(e[6])))
    return out


def snapshot(obj, deep=True):
    """library-level value snapshot of one object, recomputed from scratch (nothing cached across calls)"""
    t = tag_of(obj)
    if t == 'c':
        try:
            boc = obj.to_boc().hex() if deep else None
        except Exception as e:
            boc = 'x:' + type(e).__name__
        return ('c', obj.hash.hex(), obj.bits.to01(), tuple(r.hash.hex() for r in obj.refs), obj.type_, boc)
    if t == 's':
        return ('s', obj.bits.to01(), tuple(r.hash.hex() for r in obj.refs[obj.ref_offset:]), obj.type_)
    if t == 'b':
        return ('b', obj.bits.to01(), tuple(r.hash.hex() for r in obj.refs))
    if t == 'ub':
        return ('ub', obj.to01(), type(obj).__name__)
    if t == 'ur':
        return ('ur', tuple(getattr(r, 'hash', b'?').hex() for r in obj), len(obj))
    return ('?', repr(obj)[:80])


class ModelView:
    """state of the Lean heap model, rebuilt from the driver's per-step deltas"""

    def __init__(self):
        self.objs = {}   # id -> (tag, bitsId|None, refsId|None, off, kind, hash|None)
        self.B = {}
        self.R = {}

    def apply(self, step):
        out, objs, conts = step.split(' ')
        if objs != '-':
            for e in objs.split(','):
                i, tag, b, r, off, kind, h = e.split(':')
                self.objs[int(i)] = (tag, None if b == '-' else int(b), None if r == '-' else int(r), int(off), int(kind),
                                     None if h == '-' else h)
        if conts != '-':
            for e in conts.split(','):
                k, v = e.split('=')
                if k[0] == 'B':
                    self.B[int(k[1:])] = '' if v == '-' else v
                else:
                    self.R[int(k[1:])] = () if v == '-' else tuple(int(x) for x in v.split('.'))
        return out


def compare(view, obs):
    """-> list of (class, description, [object ids]) ; class in {'alias', 'content', 'meta'}"""
    mism = []
    if len(view.objs) != len(obs):
        mism.append(('meta', f'object count: model {len(view.objs)} library {len(obs)}', []))
    bm2p, bp2m, rm2p, rp2m = {}, {}, {}, {}
    vo = view.objs
    for i, e in enumerate(obs):
        m = vo.get(i)
        if m is None:
            continue
        tag, bid, rid, off, kind, bits, refs, h = e
        mtag, mb, mr, moff, mkind, mh = m
        if tag != mtag:
            mism.append(('meta', f'object {i}: model tag {mtag} library {tag}', [i]))
            continue
        if tag != 'ur':
            q = bm2p.setdefault(mb, (bid, i))
            if q[0] != bid:
                mism.append(('alias', f'bits of objects {q[1]} and {i}: model says ONE container B{mb}, library has two distinct arrays', [q[1], i]))
            q = bp2m.setdefault(bid, (mb, i))
            if q[0] != mb:
                mism.append(('alias', f'bits of objects {q[1]} and {i}: library SHARES one array, model has B{q[0]} and B{mb}', [q[1], i]))
            if view.B.get(mb) != bits:
                mism.append(('content', f'bits of object {i} ({tag}): model B{mb}={view.B.get(mb)!r:.80} library {bits!r:.80}', [i]))
        if tag != 'ub':
            q = rm2p.setdefault(mr, (rid, i))
            if q[0] != rid:
                mism.append(('alias', f'refs of objects {q[1]} and {i}: model says ONE list R{mr}, library has two distinct lists', [q[1], i]))
            q = rp2m.setdefault(rid, (mr, i))
            if q[0] != mr:
                mism.append(('alias', f'refs of objects {q[1]} and {i}: library SHARES one list, model has R{q[0]} and R{mr}', [q[1], i]))
            if view.R.get(mr) != refs:
                mism.append(('content', f'refs of object {i} ({tag}): model R{mr}={view.R.get(mr)} library {refs}', [i]))
        if off != moff or kind != mkind or h != mh:
            mism.append(('meta', f'object {i} ({tag}): model off/kind/hash {moff}/{mkind}/{mh} library {off}/{kind}/{h}', [i]))
    return mism


def shared_with_owner(obs):
    """containers that a Slice/Builder shares with any other object: [(which, [object ids])] - the library must never create one"""
    out = []
    for which, col in (('bits', 1), ('refs', 2)):
        groups = {}
        for i, e in enumerate(obs):
            k = e[col]
            if k is not None:
                groups.setdefault(k, []).append(i)
        for g in groups.values():
            if len(g) > 1 and any(obs[i][0] in ('s', 'b') for i in g):
                out.append((which, g))
    return out


# ----------------------------------------------------------------------------- value-level calls (history independence)

def dag_of(root):
    """-> (nodes child-before-parent, distinct by hash, root last ; the Cell objects in the same order)"""
    nodes, cells, index = [], [], {}

    def go(c):
        h = c.hash
        if h in index:
            return index[h]
        kids = tuple(go(r) for r in c.refs)
        index[h] = len(nodes)
        nodes.append((c.type_, c.bits.to01(), kids))
        cells.append(c)
        return index[h]

    go(root)
    return nodes, cells


def canon(x, depth=0):
    Cell, Slice, Builder, bitarray, _ = T()
    if isinstance(x, Cell):
        return 'c:' + x.hash.hex()
    if isinstance(x, Slice):
        return ['s', x.bits.to01(), [r.hash.hex() for r in x.refs[x.ref_offset:]], x.type_]
    if isinstance(x, Builder):
        return ['b', x.bits.to01(), [r.hash.hex() for r in x.refs]]
    if isinstance(x, bitarray):
        return ['bits', x.to01()]
    if isinstance(x, dict):
        return ['dict'] + sorted(([str(k), canon(v, depth)] for k, v in x.items()), key=lambda kv: kv[0])
    if isinstance(x, (list, tuple)):
        return [canon(v, depth) for v in x]
    if isinstance(x, (bytes, bytearray)):
        return 'hex:' + bytes(x).hex()
    if isinstance(x, bool) or x is None or isinstance(x, str):
        return x
    if isinstance(x, int):
        return str(x)
    if hasattr(x, 'list') and isinstance(getattr(x, 'list'), list):
        return ['tuple', canon(x.list, depth)]
    if hasattr(x, '__dict__') and depth < 3:
        return [type(x).__name__] + sorted(([k, canon(v, depth + 1)] for k, v in vars(x).items()), key=lambda kv: kv[0])
    return type(x).__name__


def boc_flags(k):
    # has_idx, hash_crc32, has_cache_bits, flags (the 2-bit header field; k >= 8 selects a non-zero value)
    return bool(k & 4), bool(k & 2), bool(k & 1), (k >> 3) & 3


def boc_header_flags(boc):
    """the option number k (as understood by boc_flags) that the header of a generic-magic BoC declares"""
    return ((boc[4] >> 5) & 7) | (((boc[4] >> 3) & 3) << 3)


def rand_boc_flags(rng, exclude=None):
    ks = [k for k in list(range(8)) * 3 + list(range(8, 32)) if k != exclude]
    return rng.choice(ks)


def apply_call(rec, cells):
    """evaluate the call described by `rec` on the argument cells (cells[-1] is the root). Exceptions -> 'x'."""
    from .gen import scripts as S
    f = rec['f']
    root = cells[-1]
    try:
        if f == 'hash':
            return root.hash.hex()
        if f == 'rhash':
            return root.calculate_representation_hash().hex()
        if f == 'boc':
            return root.to_boc(*boc_flags(rec['flags'])).hex()
        if f == 'order':
            return [c.hash.hex() for c in root.order()]
        if f == 'slice':
            return list(S.exec_slice(root, rec['ops']))
        if f == 'builder':
            return list(S.exec_builder(cells, rec['ops'])[:4])
        if f == 'hmparse':
            from pytoniq_core.boc.hashmap import HashMap
            return canon(HashMap.parse(root.begin_parse(), rec['n']))
        if f == 'ldict':
            s = root.begin_parse()
            return [canon(s.load_dict(rec['n'])), canon(s)]
        if f == 'vmdes':
            from pytoniq_core.tlb.vm_stack import VmStack
            s = root.begin_parse()
            return [canon(VmStack.deserialize(s)), canon(s)]
        if f == 'stateinit':
            from pytoniq_core.tlb.account import StateInit
            s = root.begin_parse()
            return [canon(StateInit.deserialize(s)), canon(s)]
        if f == 'vmser':
            from pytoniq_core.tlb.vm_stack import VmStack
            items = []
            for it in rec['items']:
                if it[0] == 'i':
                    items.append(int(it[1]))
                elif it[0] == 'n':
                    items.append(None)
                elif it[0] == 'c':
                    items.append(cells[it[1]])
                elif it[0] == 's':
                    items.append(cells[it[1]].begin_parse())
                elif it[0] == 'b':
                    items.append(cells[it[1]].to_builder())
            return VmStack.serialize(items).hash.hex()
    except Exception:
        return 'x'
    raise ValueError('unknown call ' + f)


def rebuild(nodes):
    from .gen import cells as G
    return G.lib_build([(k, b, tuple(r)) for k, b, r in nodes])


def eval_call(rec):
    """the call on freshly rebuilt, equal-valued arguments"""
    cells = rebuild(rec['dag'])
    if any(c is None for c in cells):
        return 'unbuildable'
    return apply_call(rec, cells)


def fresh_eval(recs, timeout=600):
    """evaluate each call once, in REVERSED order, in a fresh interpreter; results in the original order"""
    import os
    import subprocess
    from .paths import VERIF, REPO
    env = dict(os.environ)
    env['PYTHONPATH'] = os.pathsep.join([VERIF, REPO] + ([env['PYTHONPATH']] if env.get('PYTHONPATH') else []))
    p = subprocess.run([sys.executable, '-m', 'harness.heapobs'], input=json.dumps(recs).encode(), capture_output=True,
                       env=env, cwd=VERIF, timeout=timeout)
    if p.returncode != 0:
        raise RuntimeError('fresh evaluator failed: ' + p.stderr.decode()[-400:])
    return json.loads(p.stdout.decode())


def main():
    recs = json.load(sys.stdin)
    out = [None] * len(recs)
    for i in reversed(range(len(recs))):
        out[i] = eval_call(recs[i])
    json.dump(out, sys.stdout)


if __name__ == '__main__':
    main()
