"""C11: the TL-B walk of `check_account_proof`, regenerated from tlb/account.py and tlb/block.py.

    shard = ShardStateUnsplit.deserialize(state_cell[0].begin_parse())
    shard_account = shard.accounts[0][int.from_bytes(address.hash_part, 'big')]
    shard_account.cell[0]

The parser classes are translated by `tlbparsers_blk.py` (C16, third part: Generated/TlbParsersBlk.lean, namespace `SrcBlk`).  That
translation ERASES the keyword argument `cell=` of `ShardAccount(…)` (a copy of the slice: no schema field, so the C16 views cannot
state it) - but `.cell[0]` is exactly what the account check reads.  This module re-runs the SAME translator classes with the
erasure switched off for the three classes on the path of the walk and writes them to Generated/LocateSrc.lean (namespace `SrcLoc`):

    ShardAccount       as `SrcBlk.ShardAccount` + the argument ("cell", Rd.toCell sp <slice at entry>)
    ShardAccounts      calls `SrcLoc.ShardAccount`
    ShardStateUnsplit  calls `SrcLoc.ShardAccounts`

every other class they call (`DepthBalanceInfo`, `Account`, `McStateExtra`, `ShardIdent`, `CurrencyCollection`, `BlkMasterInfo` …) is
the regenerated definition of the C16 files (`SrcBlk.X`, `SrcTx.X`, `Src.X`), so C11 depends on `tlbparsers_blk.regenerate` too.
A class outside the subset -> tie `lost`, the committed block is kept.
"""
import ast
import os
import re

from . import tlbparsers as TP
from . import tlbparsers_blk as TB
from .tlbparsers import S, Ctx, Untranslatable
from .crc import write_if_changed
from ..paths import REPO, LEAN

GEN = os.path.join(LEAN, 'TonVerif/Generated/LocateSrc.lean')

CLASSES = [('account', 'ShardAccount'), ('block', 'ShardAccounts'), ('block', 'ShardStateUnsplit')]
# classes of tlbparsers_blk.py that the three call: class -> Lean head
BLK = {c: f'SrcBlk.{c}' for _, c in TB.CLASSES if c not in {c for _, c in CLASSES}}


class FnLoc(TB.FnBlk):
    def construct(self, tname, e, env, out):
        return TP.Fn.construct(self, tname, e, env, out)          # nothing erased: `cell=` is a constructor argument


class TranslatorLoc(TB.TranslatorBlk):
    def translate(self, mod, cls):
        fn = self.method(mod, cls, 'deserialize')
        if not any(isinstance(d, ast.Name) and d.id == 'classmethod' for d in fn.decorator_list):
            raise Untranslatable('deserialize is not a classmethod')
        a = fn.args
        if a.vararg or a.kwarg or a.kwonlyargs or a.defaults or len(a.args) != 2 or a.args[0].arg != 'cls':
            raise Untranslatable('deserialize signature')
        sl = a.args[1].arg
        ctx = Ctx(self, cls, mod)
        env = {sl: S(sl, 'sp')}
        lambdas = {}
        body = TB.hoist_defs(list(fn.body), lambdas)
        for k, lam in lambdas.items():
            if any(isinstance(n, ast.Name) and n.id == k and isinstance(n.ctx, ast.Store) for n in ast.walk(fn)):
                raise Untranslatable(f'the name of the nested function {k} is also assigned')
            env[k] = lam
        text = FnLoc(ctx).block(body, env, sl, 1)
        sig = f'def {cls} (sp : Bool) ({sl} : Frag) : Rd.R := do'
        return sig + '\n' + text + '\n', dict(extra=[], calls=sorted(ctx.calls), slice=sl)


HEADER = '''/- GENERATED from pytoniq_core/tlb/account.py, tlb/block.py (`ShardAccount`, `ShardAccounts`, `ShardStateUnsplit`: the parsers on the path
   of the TL-B walk of `check_account_proof`) by harness/translate/locsrc.py; do not edit.  Same translator as Generated/TlbParsersBlk.lean,
   with the constructor argument `cell=` of `ShardAccount(…)` KEPT (`.cell[0]` is the located account cell). -/
import TonVerif.Generated.TlbParsersBlk
set_option linter.unusedVariables false
namespace TonVerif.Tlb.SrcLoc
open TonVerif TonVerif.Tlb
'''


def split_group(text):
    """the `^[…]` group of ShardStateUnsplit - the joined `if not ref.is_special(): … ` block, ONE line group
    `let (…) ← (if (!(Rd.special cN)) then do … else pure (…))` - is emitted as its own definition `ShardStateUnsplit_group`, so that the
    proofs (Proofs/SrcLocateHeader.lean `group_isSome`) refer to the generated name and not to a hand copy of the text"""
    lines = text.split('\n')
    start = [i for i, l in enumerate(lines) if re.search(r'← \(if \(!\(Rd\.special (c\d+)\)\) then do$', l)]
    if len(start) != 1:
        raise Untranslatable('ShardStateUnsplit: the reference group is not one conditional block over `not ref.is_special()`')
    i = start[0]
    cvar = re.search(r'Rd\.special (c\d+)', lines[i]).group(1)
    j = i + 1
    while j < len(lines) and not lines[j].lstrip().startswith('else pure ('):
        j += 1
    if j >= len(lines) or not lines[j].rstrip().endswith('))'):
        raise Untranslatable('ShardStateUnsplit: end of the reference group not found')
    tup = re.search(r'else pure \((.*)\)\)$', lines[j].strip()).group(1).split(', ')
    vals, sl = tup[:-1], tup[-1]
    if not all(re.fullmatch(r't\d+', v) for v in vals) or not re.fullmatch(r'\w+', sl):
        raise Untranslatable('ShardStateUnsplit: shape of the skipped reference group')
    head = lines[i][:lines[i].index('← (if')]
    body = ['  ' + lines[i][lines[i].index('(if'):]] + lines[i + 1:j + 1]
    ty = ' × '.join(['Val'] * len(vals) + ['Frag'])
    gdef = (f'def ShardStateUnsplit_group ({cvar} : Cell) ({sl} : Frag) ({" ".join(vals)} : Val) : Option ({ty}) :=\n'
            + '\n'.join(body) + '\n\n')
    lines[i:j + 1] = [f'{head}← ShardStateUnsplit_group {cvar} {sl} {" ".join(vals)}']
    return gdef + '\n'.join(lines)


def generate(repo=REPO, old_text=''):
    tr = TranslatorLoc(repo)
    for cls, head in TB.BASE.items():
        tr.done[cls] = dict(extra=[], calls=[], slice='', head=head)
    for cls, head in BLK.items():
        tr.done[cls] = dict(extra=[], calls=[], slice='', head=head)
    old = TP.sections(old_text)
    out = [HEADER]
    info = {}
    for mod, cls in CLASSES:
        try:
            text, meta = tr.translate(mod, cls)
            if cls == 'ShardAccount' and '("cell", ' not in text:
                raise Untranslatable('ShardAccount(…) is not constructed with a `cell=` argument')
            if cls == 'ShardStateUnsplit':
                text = split_group(text)
            tr.done[cls] = meta
            info[cls] = dict(status='ok', calls=meta['calls'])
        except (Untranslatable, SyntaxError, FileNotFoundError) as ex:
            info[cls] = dict(status='lost', reason=f'{type(ex).__name__}: {ex}')
            if cls not in old:
                continue
            text = old[cls]
            tr.done[cls] = dict(extra=[], calls=[], slice='')
        out.append(f'-- BEGIN {cls}\n{text}-- END {cls}\n')
    out.append('end TonVerif.Tlb.SrcLoc')
    return '\n'.join(out) + '\n', info


_cache = {}


def regenerate():
    try:
        old = open(GEN).read()
    except FileNotFoundError:
        old = ''
    text, info = generate(REPO, old)
    changed = write_if_changed(GEN, text)
    _cache['info'] = info
    lost = {k: v['reason'] for k, v in info.items() if v['status'] != 'ok'}
    if lost:
        raise Untranslatable('; '.join(f'{k}: {v}' for k, v in lost.items()))
    return changed, info


# the classes of the C16 parser files that the walk runs through (transitively): a `lost` one means the walk is no longer the source's
DEPS = {
    'tlbparsers': ['ShardIdent', 'ExtBlkRef', 'BlkMasterInfo', 'StorageUsed', 'StorageInfo', 'AccountStatus', 'StateInit', 'AccountState',
                   'TickTock', 'ValidatorInfo', 'KeyExtBlkRef', 'KeyMaxLt', 'CreatorStats', 'FutureSplitMerge'],
    'tlbparsers_tx': ['CurrencyCollection', 'ExtraCurrencyCollection'],
    'tlbparsers_blk': ['DepthBalanceInfo', 'AccountStorage', 'Account', 'ShardDescr', 'OldMcBlocksInfo', 'BlockCreateStats', 'ConfigParams',
                       'McStateExtra'],
}


def regenerate_deps():
    """the three C16 parser files, regenerated (C11 depends on them through Generated/LocateSrc.lean)"""
    from . import tlbparsers_tx as TX
    changed = False
    infos = {}
    for name, mod in (('tlbparsers', TP), ('tlbparsers_tx', TX), ('tlbparsers_blk', TB)):
        ch, info = mod.regenerate()
        changed = changed or ch
        for cls in DEPS[name]:
            i = info.get(cls)
            if i is not None and i.get('status') != 'ok':
                raise Untranslatable(f'{cls} ({name}): {i.get("reason")}')
            infos[cls] = 'ok' if i is not None else 'n/a'
    return changed, infos


if __name__ == '__main__':
    try:
        ch, info = regenerate()
        print(info, 'changed' if ch else 'unchanged')
    except Untranslatable as ex:
        print('lost', ex)
