"""Decision lines of the two `while True` functions of crypto/keys.py (get_secure_random_number, mnemonic_new), which as a whole
are outside every translator's subset (float arithmetic, unbounded loops): which word is appended, the range the index is drawn
from, how many draws make a candidate, the retry test; the "range too large" guard, the rejection test and the returned value of
the random number.  Registers the group in `arith.GROUPS` (same machinery as arith2.py: Generated/MnemonicNew.lean, per-run
translator validation on the grids, `search_points`).  Theorems: Properties/C20.lean `c20_src_generator`.
"""
from . import arith
from .arith import T, N, B

FLAG = [False, True]
IDX = [0, 1, 2, 3, 7, 100, 1023, 1024, 2046, 2047, 2048]
SRC = 'pytoniq_core/crypto/keys.py'

GROUPS3 = {
    'MnemonicNew': dict(
        src=SRC, imports=[], ref_imports=[],
        targets=[
            T('mnWordIndex', None, 'mnemonic_new', ('match', 'mnemo_arr.append(words[__X__])'), {'idx': ('idx', N)}, ['idx'],
              ref='idx', grid={'idx': IDX}),
            T('mnDrawLo', None, 'mnemonic_new', ('match', 'idx = get_secure_random_number(__X__, __ANY1__)'), {}, [], ref='0'),
            T('mnDrawHi', None, 'mnemonic_new', ('match', 'idx = get_secure_random_number(__ANY1__, __X__)'), {'len(words)': ('n', N)}, ['n'],
              ref='n', grid={'n': IDX}),
            T('mnDraws', None, 'mnemonic_new', ('match', 'for _ in range(__X__):\n    ...'), {'words_count': ('wc', N)}, ['wc'],
              ref='wc', grid={'wc': [0, 1, 12, 23, 24, 25, 48]}),
            T('mnRetry', None, 'mnemonic_new', ('match', 'if __X__:\n    continue'),
              {'is_basic_seed(mnemonic_to_entropy(mnemo_arr))': ('basic', B)}, ['basic'], ret='Bool', ref='(!basic)', grid={'basic': FLAG}),
            T('rnTooLarge', None, 'get_secure_random_number', ('raise_if', 'Range is too large'), {'bits_needed': ('bits', N)}, ['bits'],
              ret='Bool', ref='decide (bits > 53)', grid={'bits': list(range(0, 70))}),
            T('rnReject', None, 'get_secure_random_number', ('match', 'if __X__:\n    continue'),
              {'number_val': ('number', N), 'range_betw': ('range', N)}, ['number', 'range'], ret='Bool',
              ref='decide (number ≥ range)', grid={'number': IDX + [4095, 4096], 'range': IDX + [4095, 4096]}),
            T('rnResult', None, 'get_secure_random_number', ('match', 'return __X__'),
              {'number_val': ('number', N), 'min_v': ('lo', N)}, ['lo', 'number'], ref='lo + number', grid={'lo': [0, 1, 5, 1000], 'number': IDX}),
        ]),
}

arith.GROUPS.update(GROUPS3)

regenerator = arith.regenerator
search_points = arith.search_points
