"""Extension of the object-program translator pyobj.py for methods that work on WHOLE objects: dicts / sets keyed by objects,
lists of objects and of tuples, an explicit work stack with a `while` loop, methods that fill a dict they were given.
No knowledge of pytoniq: classes, attribute readings, parameter types, externs are DECLARED by the caller (bocemit.py).

Differences to pyobj.MTr
  * `self` is ONE parameter `(self : <structure>)` (pyobj passes the attributes of self one by one); an attribute `x.a` of
    an object is read through the declared field map: `a -> ('<lean function> {}', type, partial)`; a PARTIAL field is an
    `Option` (`none` = the attribute could not have been computed by the constructor) and is hoisted like a raising call.
    The translated methods may not assign attributes of self.
  * a method whose body contains a `while` loop, or that calls one, gets a first parameter `(fuel : Nat)` = the iteration
    budget of every while loop in it (Py.while?: `none` also when the budget runs out).

ADDED SUBSET (everything of pyobj.py / pybytes.py stays)
  types       dict:<Class>:<V>  (Py.KDict <structure> V; V = Nat | Unit), set:<Class> (Py.KSet), lst[T] (a list of T),
              tup[A;B] (a 2-tuple), the empty literals `[]` / `{}` / `set()` take the type of their first use
              (append / add / d[k] = v / being passed to a method with declared parameter types)
  expressions self | (a, b) | [e1, .., en] | {} | set() | bytearray() | bytearray(b) | bytes(b)
              k in d / k not in d (dict or set) | d[k] (KeyError = none) | len(d)
              {K: V for i, j in enumerate(X)}  X a dict (its keys) or a list; K an object, V total
              x.<method>(args) on an object | extern(args)
              `p is None` / `p is not None` for a parameter declared with a non-None type: statically False / True
  statements  xs.append(e) | s.add(e) | d.pop(k) (KeyError = none) | d[k] = e | a, b = xs.pop() | a = xs.pop()
              while c: body          -> Py.while? over the tuple (sorted by name) of the variables assigned in the body that
                                        exist before the loop; `continue` = next iteration; `break` / `else` / `return`
                                        inside = Untranslatable
              for x in <dict> | reversed(<list>) | <list>
              self.m(d) / x.m(d) as a STATEMENT where m is a declared IN-OUT method (it returns the dict parameter it
              fills, on every path) and d a local: read as `d = x.m(d)`
"""
import ast

from . import pybytes, pyobj
from .pybytes import NAT, INT, PROP, BOOL, BYTES, NATLIST, NONE, POISON, LEAN_RESERVED, lname, par, indent
from .pyobj import MTr, BITS, BYTESLIST, HASHER, OBJ, LISTOF, MUTATORS, is_self, is_self_attr, tpar, falls_through, nested_jump
from .pyexpr import Untranslatable

EMPTYLIST, EMPTYDICT, EMPTYSET = 'empty[]', 'empty{}', 'emptyset'
MUT2 = MUTATORS + ('add', 'discard')


def DICT(c, v):
    return f'dict:{c}:{v}'


def SET(c):
    return f'set:{c}'


def TUP(a, b):
    return f'tup[{a};{b}]'


def LST(t):
    if t == NAT:
        return NATLIST
    if t == BYTES:
        return BYTESLIST
    if t.startswith('obj:'):
        return LISTOF(t[4:])
    return f'lst[{t}]'


def elem_of(t):
    if t == NATLIST:
        return NAT
    if t == BYTESLIST:
        return BYTES
    if t.startswith('list:'):
        return OBJ(t[5:])
    if t.startswith('lst['):
        return t[4:-1]
    return None


def tup_parts(t):
    """tup[A;B] -> (A, B) (the separator at nesting depth 0)"""
    body, depth = t[4:-1], 0
    for i, ch in enumerate(body):
        depth += ch == '['
        depth -= ch == ']'
        if ch == ';' and depth == 0:
            return body[:i], body[i + 1:]
    raise Untranslatable(f'tuple type {t}')


def is_mut2(t):
    return pyobj.is_mutable(t) or t[:4] in ('dict', 'set:', 'lst[') or t in (EMPTYLIST, EMPTYDICT, EMPTYSET)


class DProgram(pyobj.Program):
    """classes[<object class>] additionally: key=<lean function α → Nat: the reading of __hash__/__eq__>,
       fields={attr: (lean template with {}, type, partial)}, params={method: [types]}, inout={method: parameter name}
       externs: python name -> dict(lean=, args=[types], ret=type, raises=bool)"""

    def __init__(self, classes, externs=None, **kw):
        super().__init__(classes, **kw)
        self.externs = externs or {}

    def lean_ty(self, t):
        if t.startswith('dict:'):
            _, c, v = t.split(':', 2)
            return f'Py.KDict {self.classes[c]["lean"]} {tpar(self.lean_ty(v))}'
        if t.startswith('set:'):
            return f'Py.KSet {self.classes[t[4:]]["lean"]}'
        if t.startswith('lst['):
            return f'List {tpar(self.lean_ty(t[4:-1]))}'
        if t.startswith('tup['):
            a, b = tup_parts(t)
            return f'{tpar(self.lean_ty(a))} × {tpar(self.lean_ty(b))}'
        if t in (EMPTYLIST, EMPTYDICT, EMPTYSET):
            raise Untranslatable('the element type of an empty list / dict / set literal is never fixed by a use')
        return super().lean_ty(t)

    def uses_fuel(self, cls, name, seen=()):
        """syntactic: the method contains a while loop or calls (on any receiver) a declared method that does"""
        if (cls, name) in seen:
            raise Untranslatable(f'recursive method {cls}.{name}')
        owner, fn = self.find_method(cls, name)
        for n in ast.walk(fn):
            if isinstance(n, ast.While):
                return True
            if isinstance(n, ast.Call) and isinstance(n.func, ast.Attribute):
                try:
                    self.find_method(cls, n.func.attr)
                except Untranslatable:
                    continue
                if n.func.attr != name and self.uses_fuel(cls, n.func.attr, seen + ((cls, name),)):
                    return True
        return False

    def method(self, cls, name, argtypes, ctor=None, ctor_struct=None):
        owner, fn = self.find_method(cls, name)
        declared = self.classes[cls].get('params', {}).get(name)
        if declared is not None:
            argtypes = list(declared)
        key = (owner, name, tuple(argtypes))
        if key in self.done:
            return self.done[key]
        if (owner, name) in self.stack:
            raise Untranslatable(f'recursive method {owner}.{name}')
        lean = lname(name.strip('_') if name.startswith('__') else name)
        if self.names.get(lean, key) != key:
            raise Untranslatable(f'{owner}.{name} is used with different argument types / in two classes')
        self.names[lean] = key
        self.stack.append((owner, name))
        try:
            info = DTr(self, cls, owner, fn, list(argtypes), lean).translate()
        finally:
            self.stack.pop()
        self.done[key] = info
        self.defs.append((lean, info['text']))
        return info


class DTr(MTr):
    def __init__(self, prog, cls, owner, fn, argtypes, lean):
        pybytes.BTr.__init__(self, [], externs=prog.externs)
        self.prog, self.cls, self.owner, self.fn, self.lean, self.ctor, self.ctor_struct = prog, cls, owner, fn, lean, None, None
        self.decl = prog.classes[cls]
        a = fn.args
        if a.vararg or a.kwarg or a.kwonlyargs or a.posonlyargs or not a.args or a.args[0].arg != 'self':
            raise Untranslatable(f'{fn.name}: parameter list')
        names = [x.arg for x in a.args[1:]]
        if len(names) != len(argtypes):
            raise Untranslatable(f'{fn.name}: called with {len(argtypes)} arguments, has {len(names)} parameters')
        self.sig = []
        for n, t in zip(names, argtypes):
            if n in ('H', 'fuel') or n.startswith('self_'):
                raise Untranslatable(f'parameter name {n}')
            self.env[n] = t
            self.sig.append(('arg', n, lname(n), t))
        self.env['self'] = OBJ(cls)
        self.py_params = set(names) | {'self'}
        self.uses_H = False
        self.loops = []
        self.ret_type = None
        self.has_value_return = any(isinstance(n, ast.Return) and n.value is not None and not
                                    (isinstance(n.value, ast.Constant) and n.value.value is None) for n in ast.walk(fn))
        self.mutated = []
        if prog.mutated_attrs(cls, fn.name):
            raise Untranslatable(f'{fn.name} assigns attributes of self')
        self.inout = self.decl.get('inout', {}).get(fn.name)
        if self.inout is not None:
            if self.inout not in names:
                raise Untranslatable(f'{fn.name}: in-out parameter {self.inout}')
            for n in ast.walk(fn):
                if isinstance(n, ast.Return) and not (isinstance(n.value, ast.Name) and n.value.id == self.inout):
                    raise Untranslatable(f'{fn.name} is declared to return its parameter {self.inout} on every path')
            if not self.has_value_return or falls_through(fn.body):
                raise Untranslatable(f'{fn.name} is declared to return its parameter {self.inout} on every path')
        self.needs_fuel = prog.uses_fuel(cls, fn.name)
        self.mut_names = self.mutated_names2(fn)
        self.infer = {}               # local name -> type of its empty literal, from the first pass
        self.lenient = False
        for n in ast.walk(fn):
            if isinstance(n, (ast.FunctionDef, ast.Lambda, ast.Global, ast.Nonlocal, ast.Try, ast.With, ast.Break, ast.Yield,
                              ast.YieldFrom, ast.Await, ast.Delete, ast.NamedExpr, ast.Starred)) and n is not fn:
                raise Untranslatable(f'{fn.name}: {type(n).__name__}')
            if isinstance(n, ast.Name) and isinstance(n.ctx, ast.Store) and (n.id in ('H', 'fuel', 'self') or n.id.startswith('self_')):
                raise Untranslatable(f'local name {n.id}')

    @staticmethod
    def mutated_names2(fn):
        out = set()
        for n in ast.walk(fn):
            if isinstance(n, ast.Call) and isinstance(n.func, ast.Attribute) and n.func.attr in MUT2:
                out.add(ast.unparse(n.func.value))
            if isinstance(n, ast.AugAssign):
                out.add(ast.unparse(n.target))
            if isinstance(n, ast.Subscript) and isinstance(n.ctx, ast.Store):
                out.add(ast.unparse(n.value))
        return out

    def key_fn(self, c):
        k = self.prog.classes[c].get('key')
        if k is None:
            raise Untranslatable(f'objects of class {c} as dict / set keys: no declared reading of __hash__ / __eq__')
        return k

    # ------------------------------------------------------------------ expressions
    def truth(self, et):
        e, t = et
        if is_mut2(t) and not pyobj.is_mutable(t):
            return f'({e} ≠ [])'
        return super().truth(et)

    def static_none_test(self, e):
        """`p is None` / `p is not None` with p a variable of a non-None type -> False / True, else None"""
        if (isinstance(e, ast.Compare) and len(e.ops) == 1 and isinstance(e.ops[0], (ast.Is, ast.IsNot)) and isinstance(e.left, ast.Name)
                and isinstance(e.comparators[0], ast.Constant) and e.comparators[0].value is None):
            t = self.env.get(e.left.id)
            if t is not None and t != POISON and t != NONE and not pybytes.is_opt(t):
                return isinstance(e.ops[0], ast.IsNot)
        return None

    def expr(self, e):
        if isinstance(e, ast.Name) and e.id == 'self':
            return 'self', OBJ(self.cls)
        if isinstance(e, ast.Constant) and isinstance(e.value, bool):
            return ('True' if e.value else 'False'), PROP
        if isinstance(e, ast.Tuple):
            if len(e.elts) != 2:
                raise Untranslatable('tuple that is not a pair')
            parts = [self.bool_lit(x) or self.stored(self.expr(x)) for x in e.elts]
            return f'({parts[0][0]}, {parts[1][0]})', TUP(parts[0][1], parts[1][1])
        if isinstance(e, ast.List):
            if not e.elts:
                return '[]', EMPTYLIST
            xs = [self.stored(self.expr(x)) for x in e.elts]
            if len({t for _, t in xs}) != 1:
                raise Untranslatable('list literal with elements of different types')
            return '[' + ', '.join(x for x, _ in xs) + ']', LST(xs[0][1])
        if isinstance(e, ast.Dict):
            if e.keys:
                raise Untranslatable('non-empty dict literal')
            return '[]', EMPTYDICT
        if isinstance(e, ast.DictComp):
            return self.dictcomp(e)
        if isinstance(e, ast.Compare) and len(e.ops) == 1 and isinstance(e.ops[0], (ast.In, ast.NotIn)) and \
                not isinstance(e.comparators[0], (ast.Tuple, ast.List)):
            c, ct = self.expr(e.comparators[0])
            k, kt = self.expr(e.left)
            if ct.startswith('dict:') and kt == OBJ(ct.split(':')[1]):
                txt = f'(Py.dictHas {self.key_fn(kt[4:])} {c} {k} = true)'
            elif ct.startswith('set:') and kt == OBJ(ct[4:]):
                txt = f'(Py.setHas {self.key_fn(kt[4:])} {c} {k} = true)'
            elif ct in (EMPTYDICT, EMPTYSET):
                txt = 'False'
            else:
                raise Untranslatable(f'`in` of a {kt} in a {ct}')
            return (txt if isinstance(e.ops[0], ast.In) else f'(¬ {txt})'), PROP
        st = self.static_none_test(e)
        if st is not None:
            return ('True' if st else 'False'), PROP
        return super().expr(e)

    @staticmethod
    def bool_lit(x):
        if isinstance(x, ast.Constant) and isinstance(x.value, bool):
            return ('true' if x.value else 'false'), BOOL
        return None

    def dictcomp(self, e):
        if len(e.generators) != 1:
            raise Untranslatable('dict comprehension with several generators')
        g = e.generators[0]
        it = g.iter
        if (g.ifs or g.is_async or not isinstance(g.target, ast.Tuple) or len(g.target.elts) != 2
                or not all(isinstance(x, ast.Name) for x in g.target.elts)
                or not (isinstance(it, ast.Call) and isinstance(it.func, ast.Name) and it.func.id == 'enumerate' and len(it.args) == 1
                        and not it.keywords and 'enumerate' not in self.env)):
            raise Untranslatable('dict comprehension that is not `{K: V for i, j in enumerate(X)}`')
        xs, xt = self.expr(it.args[0])
        if xt.startswith('dict:'):
            xs, et = f'(Py.dictKeys {xs})', OBJ(xt.split(':')[1])
        else:
            et = elem_of(xt)
            if et is None:
                raise Untranslatable(f'enumerate of a {xt}')
        i, j = (x.id for x in g.target.elts)
        for v in (i, j):
            if v in self.env or v in LEAN_RESERVED:
                raise Untranslatable(f'comprehension variable {v} shadows a local')
        if i == j:
            raise Untranslatable('comprehension variables')
        self.env[i], self.env[j] = NAT, et
        try:
            k, kt = self.guarded(lambda: self.expr(e.key))
            v, vt = self.guarded(lambda: self.stored(self.expr(e.value)))
        finally:
            del self.env[i], self.env[j]
        if not kt.startswith('obj:') or vt not in (NAT, NONE):
            raise Untranslatable(f'dict comprehension {kt} -> {vt}')
        dt = DICT(kt[4:], vt)
        return (f'((List.zipIdx {xs}).foldl (fun (d : {self.prog.lean_ty(dt)}) (({lname(j)}, {lname(i)}) : {tpar(self.prog.lean_ty(et))} × Nat) => '
                f'Py.dictSet {self.key_fn(kt[4:])} d {k} {v}) [])'), dt

    def attribute(self, e):
        v = e.value
        if isinstance(v, ast.Name) and v.id not in self.env and self.prog.classes.get(v.id, {}).get('kind') == 'consts':
            return super().attribute(e)
        base, bt = self.expr(v)
        if bt.startswith('obj:'):
            d = self.prog.classes[bt[4:]]
            f = d['fields'].get(e.attr)
            if f is None:
                raise Untranslatable(f'attribute .{e.attr} of a {bt[4:]} has no declared reading')
            tmpl, t, partial = f
            txt = tmpl.format(base)
            if partial:
                return self.hoist(txt, e.attr.strip('_')), t
            return (f'({txt} = true)', PROP) if t == BOOL else (f'({txt})', t)
        raise Untranslatable(f'attribute .{e.attr} of a {bt}')

    def subscript(self, e):
        if not isinstance(e.slice, ast.Slice):
            base, bt = self.expr(e.value)
            if bt.startswith('dict:'):
                _, c, vt = bt.split(':', 2)
                k, kt = self.expr(e.slice)
                if kt != OBJ(c):
                    raise Untranslatable(f'dict key of type {kt}')
                return self.hoist(f'Py.dictGet? {self.key_fn(c)} {base} {k}', 'item'), vt
            if bt.startswith('lst['):
                raise Untranslatable('subscript of a list of tuples')
        return super().subscript(e)

    def call(self, e, key):
        f = e.func
        if isinstance(f, ast.Name) and f.id not in self.env and not e.keywords:
            if f.id == 'len' and len(e.args) == 1:
                v, t = self.expr(e.args[0])
                if t[:4] in ('dict', 'set:', 'lst['):
                    return f'{v}.length', NAT
                if t in (EMPTYLIST, EMPTYDICT, EMPTYSET):
                    return '0', NAT
            if f.id == 'set' and not e.args:
                return '[]', EMPTYSET
            if f.id == 'bytearray' and not e.args:
                return '([] : Bytes)', BYTES
            if f.id in ('bytearray', 'bytes') and len(e.args) == 1:
                v, t = self.expr(e.args[0])
                if t != BYTES:
                    raise Untranslatable(f'{f.id}() of a {t}')
                return v, BYTES
        return super().call(e, key)

    def attr_call(self, e):
        f = e.func
        if f.attr in ('pop', 'add') or (f.attr in MUT2 and not is_self(f.value)):
            if f.attr not in ('to_bytes',):
                raise Untranslatable(f'.{f.attr}(...) used as a value')
        if f.attr in ('bit_length', 'count', 'from_bytes', 'ceil', 'to_bytes') or \
                (isinstance(f.value, ast.Name) and f.value.id == self.prog.hashlib and f.value.id not in self.env):
            return super().attr_call(e)
        base, bt = self.expr(f.value)
        if bt.startswith('obj:'):
            try:
                self.prog.find_method(bt[4:], f.attr)
            except Untranslatable:
                return super().attr_call(e)
            return self.obj_call(e, base, bt[4:], f.attr)
        return super().attr_call(e)

    def obj_call(self, e, recv, cls, name, statement=False):
        if e.keywords:
            raise Untranslatable('keyword arguments')
        declared = self.prog.classes[cls].get('params', {}).get(name)
        args = []
        for i, a in enumerate(e.args):
            v, t = self.expr(a)
            if t == PROP:
                v, t = f'(decide {v})', BOOL
            if declared is not None and i < len(declared) and t in (EMPTYLIST, EMPTYDICT, EMPTYSET):
                t = declared[i]
            args.append((v, t))
        if declared is not None and [t for _, t in args] != list(declared):
            raise Untranslatable(f'{name} is called with {[t for _, t in args]}, declared {declared}')
        info = self.prog.method(cls, name, [t for _, t in args])
        term = ' '.join([info['lean']] + (['fuel'] if info['fuel'] else []) + [par(recv)] + [par(v) for v, _ in args])
        if info['fuel'] and not self.needs_fuel:
            raise Untranslatable(f'{name} needs an iteration budget')
        if statement:
            return term, info
        if info['ret'] is None:
            raise Untranslatable(f'{name} returns no value')
        return self.hoist(term, 'call'), info['ret']

    # ------------------------------------------------------------------ statements
    def assigned(self, stmts):
        out = super().assigned(stmts)
        for s in stmts:
            for n in ast.walk(s):
                if isinstance(n, ast.Call) and isinstance(n.func, ast.Attribute) and n.func.attr in MUT2 and isinstance(n.func.value, ast.Name):
                    if n.func.value.id not in out:
                        out.append(n.func.value.id)
                if isinstance(n, ast.Subscript) and isinstance(n.ctx, ast.Store) and isinstance(n.value, ast.Name) and n.value.id not in out:
                    out.append(n.value.id)
                if isinstance(n, ast.Expr) and isinstance(n.value, ast.Call) and isinstance(n.value.func, ast.Attribute):
                    c = n.value
                    for cls, d in self.prog.classes.items():
                        if d.get('kind') == 'object' and c.func.attr in d.get('inout', {}) and len(c.args) >= 1 and isinstance(c.args[0], ast.Name):
                            if c.args[0].id not in out:
                                out.append(c.args[0].id)
        return out

    def mutable_target(self, recv):
        if isinstance(recv, ast.Name):
            if recv.id not in self.env:
                raise Untranslatable(f'undeclared name {recv.id}')
            if recv.id in self.py_params and recv.id != self.inout:
                raise Untranslatable(f'parameter {recv.id} is mutated')
            if self.env[recv.id] == POISON:
                raise Untranslatable(f'{recv.id} is not defined on all paths reaching this use')
            return recv.id
        raise Untranslatable(f'mutation of {ast.unparse(recv)[:40]}')

    def key_of_target(self, t):
        if isinstance(t, ast.Name):
            if t.id in self.py_params and is_mut2(self.env.get(t.id, '')) and t.id != self.inout:
                raise Untranslatable(f'parameter {t.id} is rebound')
            return t.id
        raise Untranslatable(f'assignment target {ast.unparse(t)[:40]}')

    def fix_empty(self, name, t):
        """the type an empty literal bound to `name` takes"""
        if t in (EMPTYLIST, EMPTYDICT, EMPTYSET) and name in self.infer:
            return self.infer[name]
        return t

    def learn(self, name, t):
        self.infer.setdefault(name, t)
        self.env[name] = self.infer[name]
        if self.infer[name] != t:
            raise Untranslatable(f'{name}: empty literal used as {self.infer[name]} and as {t}')

    def let(self, pre, name, v, t, rest, kont):
        t = self.fix_empty(name, t)
        if t in (EMPTYLIST, EMPTYDICT, EMPTYSET):
            if not self.lenient:
                raise Untranslatable(f'the element type of the empty literal bound to {name} is never fixed by a use')
            self.env[name] = t
            return self.wrap(pre, self.block(rest, kont))
        if v == '[]':
            v = f'([] : {self.prog.lean_ty(t)})'
        return super().let(pre, name, v, t, rest, kont)

    def block(self, stmts, kont):
        if not stmts:
            return kont()
        s, rest = stmts[0], stmts[1:]
        if isinstance(s, ast.While):
            return self.while_(s, rest, kont)
        if isinstance(s, ast.Assign) and len(s.targets) == 1:
            tg = s.targets[0]
            if isinstance(tg, ast.Subscript):
                return self.setitem(s, rest, kont)
            if self.is_pop(s.value):
                return self.pop_assign(s, rest, kont)
            if isinstance(tg, ast.Name) and isinstance(s.value, (ast.Name, ast.Attribute, ast.Subscript)):
                t = self.expr(s.value)[1]
                self.pre = []
                if is_mut2(t) and (ast.unparse(s.value) in self.mut_names or tg.id in self.mut_names):
                    raise Untranslatable(f'{tg.id} = {ast.unparse(s.value)}: alias of a mutable object that is mutated')
        return super().block(stmts, kont)

    def is_pop(self, v):
        return (isinstance(v, ast.Call) and isinstance(v.func, ast.Attribute) and v.func.attr == 'pop' and not v.args and not v.keywords
                and isinstance(v.func.value, ast.Name) and (elem_of(self.env.get(v.func.value.id, '')) is not None))

    def pop_assign(self, s, rest, kont):
        xs = self.mutable_target(s.value.func.value)
        lt = self.env[xs]
        et = elem_of(lt)
        tg = s.targets[0]
        tmp = self.tmp('pop')
        if isinstance(tg, (ast.Tuple, ast.List)):
            if not et.startswith('tup[') or len(tg.elts) != 2 or not all(isinstance(x, ast.Name) for x in tg.elts):
                raise Untranslatable('unpacking of a popped element that is not a pair')
            names = [self.key_of_target(x) for x in tg.elts]
            if names[0] == names[1] or xs in names:
                raise Untranslatable('unpacking targets')
            parts = tup_parts(et)
            lets = ''
            for k, (n, pt) in enumerate(zip(names, parts)):
                self.env[n] = pt
                lets += f'let {lname(n)} : {self.prog.lean_ty(pt)} := {tmp}.{k + 1}\n'
        else:
            n = self.key_of_target(tg)
            if n == xs:
                raise Untranslatable('xs = xs.pop()')
            self.env[n] = et
            lets = f'let {lname(n)} : {self.prog.lean_ty(et)} := {tmp}\n'
        body = self.block(rest, kont)
        return f'(Py.listPop? {lname(xs)}).bind fun (({lname(xs)}, {tmp}) : {tpar(self.prog.lean_ty(lt))} × {tpar(self.prog.lean_ty(et))}) =>\n{lets}{body}'

    def setitem(self, s, rest, kont):
        tg = s.targets[0]
        if not isinstance(tg.value, ast.Name) or isinstance(tg.slice, ast.Slice):
            raise Untranslatable(f'assignment target {ast.unparse(tg)[:40]}')
        d = self.mutable_target(tg.value)
        k, kt = self.expr(tg.slice)
        v, vt = self.stored(self.expr(s.value))
        if not kt.startswith('obj:') or vt not in (NAT, NONE):
            raise Untranslatable(f'd[k] = v with k : {kt}, v : {vt}')
        dt = DICT(kt[4:], vt)
        if self.env[d] == EMPTYDICT:
            self.learn(d, dt)
        if self.env[d] != dt:
            raise Untranslatable(f'{d}[{kt}] = {vt} on a {self.env[d]}')
        pre = self.take_pre()
        return self.let(pre, d, f'(Py.dictSet {self.key_fn(kt[4:])} {lname(d)} {k} {v})', dt, rest, kont)

    def call_stmt(self, c, rest, kont):
        f = c.func
        if not isinstance(f, ast.Attribute):
            raise Untranslatable(f'call statement {ast.unparse(c)[:40]}')
        recv_t = None
        if isinstance(f.value, ast.Name) and f.value.id in self.env:
            recv_t = self.env[f.value.id]
        if recv_t is not None and recv_t.startswith('obj:'):
            return self.inout_stmt(c, rest, kont)
        if f.attr in ('append', 'add', 'pop') and not c.keywords and len(c.args) == 1 and isinstance(f.value, ast.Name):
            key = self.mutable_target(f.value)
            t = self.env[key]
            recv = lname(key)
            x, xt = self.bool_lit(c.args[0]) or self.stored(self.expr(c.args[0]))
            if f.attr == 'append' and (t == EMPTYLIST or t[:4] in ('lst[', 'list')):
                if t == EMPTYLIST:
                    self.learn(key, LST(xt))
                    t = self.env[key]
                if elem_of(t) != xt:
                    raise Untranslatable(f'append of a {xt} to a {t}')
                pre = self.take_pre()
                if self.lenient and self.infer.get(key) is None:
                    return self.wrap(pre, self.block(rest, kont))
                return self.let(pre, key, f'({recv} ++ [{x}])', t, rest, kont)
            if f.attr == 'add' and (t == EMPTYSET or t.startswith('set:')):
                if not xt.startswith('obj:'):
                    raise Untranslatable(f'set of {xt}')
                if t == EMPTYSET:
                    self.learn(key, SET(xt[4:]))
                    t = self.env[key]
                if t != SET(xt[4:]):
                    raise Untranslatable(f'add of a {xt} to a {t}')
                pre = self.take_pre()
                return self.let(pre, key, f'(Py.setAdd {self.key_fn(xt[4:])} {recv} {x})', t, rest, kont)
            if f.attr == 'pop' and t.startswith('dict:'):
                if xt != OBJ(t.split(':')[1]):
                    raise Untranslatable(f'pop of a {xt} from a {t}')
                self.hoist(f'Py.dictPop? {self.key_fn(xt[4:])} {recv} {x}', 'popped')
                pre = self.take_pre()
                pre = pre[:-1] + [('bind', recv, pre[-1][2])]
                return self.wrap(pre, self.block(rest, kont))
            self.pre = []
        return super().call_stmt(c, rest, kont)

    def inout_stmt(self, c, rest, kont):
        f = c.func
        recv, rt = self.expr(f.value)
        cls = rt[4:]
        io = self.prog.classes[cls].get('inout', {}).get(f.attr)
        if io is None:
            raise Untranslatable(f'call statement {ast.unparse(c)[:40]}: {f.attr} is not a declared in-out method')
        owner, fn = self.prog.find_method(cls, f.attr)
        names = [x.arg for x in fn.args.args[1:]]
        pos = names.index(io)
        if pos >= len(c.args) or not isinstance(c.args[pos], ast.Name):
            raise Untranslatable(f'{f.attr}: the in-out argument must be a local variable')
        var = self.mutable_target(c.args[pos])
        term, info = self.obj_call(c, recv, cls, f.attr, statement=True)
        pre = self.take_pre()
        if self.env[var] in (EMPTYLIST, EMPTYDICT, EMPTYSET):
            self.learn(var, info['ret'])
        if self.env[var] != info['ret']:
            raise Untranslatable(f'{f.attr} returns a {info["ret"]}, the argument is a {self.env[var]}')
        body = self.block(rest, kont)
        return self.wrap(pre, f'({term}).bind fun ({lname(var)} : {self.prog.lean_ty(info["ret"])}) =>\n{body}')

    def if_(self, s, rest, kont):
        st = self.static_none_test(s.test)
        if st is not None:
            return self.block(list(s.body if st else s.orelse) + list(rest), kont)
        return super().if_(s, rest, kont)

    def loop_state(self, body_stmts):
        A = self.assigned(body_stmts)
        state = sorted(k for k in A if k in self.env)
        for k in state:
            if self.env[k] == POISON:
                raise Untranslatable(f'{k} is not defined on all paths reaching the loop that assigns it')
            if self.env[k] in (EMPTYLIST, EMPTYDICT, EMPTYSET) and not self.lenient:
                raise Untranslatable(f'the element type of the empty literal bound to {k} is never fixed by a use')
        return A, state

    def packer(self, state, env0):
        def pack():
            vals = []
            for k in state:
                if self.env.get(k) != env0[k] and not self.lenient:
                    raise Untranslatable(f'{k} changes its type in the loop body ({env0[k]} -> {self.env.get(k)})')
                vals.append(lname(k))
            return 'some (' + ', '.join(vals) + ')' if vals else 'some ()'
        return pack

    def state_ty(self, state, env0):
        if self.lenient:
            return '_'
        return ' × '.join(tpar(self.prog.lean_ty(env0[k])) for k in state) if state else 'Unit'

    def while_(self, s, rest, kont):
        if s.orelse:
            raise Untranslatable('while ... else')
        if self.loops:
            raise Untranslatable('a while loop inside another loop')
        A, state = self.loop_state(s.body)
        env0 = dict(self.env)
        c = self.guarded(lambda: self.truth(self.expr(s.test)))
        if self.pre:
            raise Untranslatable('the loop condition can raise')
        pack = self.packer(state, env0)
        self.loops.append(pack)
        try:
            body = self.block(list(s.body), pack)
        finally:
            self.loops.pop()
        self.env = dict(env0)
        for k in A:
            if k not in state:
                self.env[k] = POISON
        r = self.block(rest, kont)
        pat = ', '.join(lname(k) for k in state) if state else '_u'
        ty = self.state_ty(state, env0)
        init = '(' + ', '.join(lname(k) for k in state) + ')' if state else '()'
        return (f'(Py.while? (fun (({pat}) : {ty}) => decide {c}) (fun (({pat}) : {ty}) =>\n{indent(body)}) fuel {init}).bind '
                f'fun (({pat}) : {ty}) =>\n{r}')

    def for_(self, s, rest, kont):
        if s.orelse:
            raise Untranslatable('for ... else')
        if not isinstance(s.target, ast.Name):
            raise Untranslatable('loop target')
        it = s.iter
        rev = False
        if (isinstance(it, ast.Call) and isinstance(it.func, ast.Name) and it.func.id == 'reversed' and len(it.args) == 1 and not it.keywords
                and 'reversed' not in self.env and not (isinstance(it.args[0], ast.Call))):
            it, rev = it.args[0], True
        if isinstance(it, ast.Call):
            if rev:
                raise Untranslatable('reversed(range(..))')
            return super().for_(s, rest, kont)
        x = s.target.id
        if self.env.get(x, POISON) != POISON or x in LEAN_RESERVED or x in ('H', 'fuel') or x.startswith('self_'):
            raise Untranslatable(f'loop variable {x} shadows a name')
        A, state = self.loop_state(s.body)
        if isinstance(it, ast.Name) and it.id in A:
            raise Untranslatable('loop over a collection that the loop body mutates')
        xs, lt = self.expr(it)
        if lt.startswith('dict:'):
            xs, xt = f'(Py.dictKeys {xs})', OBJ(lt.split(':')[1])
        elif lt.startswith('set:'):
            xt = OBJ(lt[4:])
        elif lt == BYTES:
            xt = NAT
        elif elem_of(lt) is not None:
            xt = elem_of(lt)
        elif lt in (EMPTYLIST, EMPTYDICT, EMPTYSET) and self.lenient:
            xt = POISON
        else:
            raise Untranslatable(f'loop over a {lt}')
        if rev:
            xs = f'{par(xs)}.reverse'
        pre = self.take_pre()
        env0 = dict(self.env)
        self.env[x] = xt
        pack = self.packer(state, env0)
        self.loops.append(pack)
        try:
            body = self.block(list(s.body), pack)
        finally:
            self.loops.pop()
        self.env = dict(env0)
        for k in A:
            if k not in state:
                self.env[k] = POISON
        self.env[x] = POISON
        r = self.block(rest, kont)
        pat = ', '.join(lname(k) for k in state) if state else '_u'
        ty = self.state_ty(state, env0)
        init = '(' + ', '.join(lname(k) for k in state) + ')' if state else '()'
        xty = '_' if xt == POISON else self.prog.lean_ty(xt)
        return self.wrap(pre, f'(List.foldlM (m := Option) (fun (({pat}) : {ty}) ({lname(x)} : {xty}) =>\n{indent(body)}) {init} {xs}).bind '
                              f'fun (({pat}) : {ty}) =>\n{r}')

    def end(self):
        if self.has_value_return:
            raise Untranslatable('control reaches the end of a method that returns a value elsewhere')
        return 'some ()'

    def translate(self):
        # first pass: find the types of the empty literals from their first use
        self.lenient = True
        env0, fresh0 = dict(self.env), self.fresh
        done0, defs0, names0 = dict(self.prog.done), list(self.prog.defs), dict(self.prog.names)
        try:
            self.block(list(self.fn.body), self.end)
        except Untranslatable:
            pass
        self.prog.done, self.prog.defs, self.prog.names = done0, defs0, names0
        self.lenient, self.env, self.fresh, self.pre, self.ret_type, self.loops = False, env0, fresh0, [], None, []
        body = self.block(list(self.fn.body), self.end)
        if self.has_value_return:
            if self.ret_type is None:
                raise Untranslatable(f'{self.fn.name}: no path returns a value')
            rt = self.prog.lean_ty(self.ret_type)
        else:
            rt = 'Unit'
        ps = ['(H : Bytes → Bytes)'] if self.uses_H else []
        if self.needs_fuel:
            ps.append('(fuel : Nat)')
        ps.append(f'(self : {self.decl["lean"]})')
        ps += [f'({ln} : {self.prog.lean_ty(t)})' for _, _, ln, t in self.sig]
        doc = pybytes.doc_of(self.fn, f'{self.prog.classes[self.owner].get("src", self.prog.src)}: {self.owner}.{self.fn.name}')
        text = f'{doc}def {self.lean} {" ".join(ps)} : Option ({rt}) :=\n{indent(body)}\n'
        return dict(lean=self.lean, sig=self.sig, ret=self.ret_type if self.has_value_return else None, mutated=[], text=text,
                    fuel=self.needs_fuel)
