"""Regenerates lean/TonVerif/Generated/ProofFull.lean from the current source of `check_proof`, `check_block_header_proof`
(both modes) and `check_account_proof` (pytoniq_core/proof/check_proof.py; `CellTypes` from boc/exotic.py) with the function
translator pyfunc.py (WHOLE functions: every statement, in order, with Python's evaluation order of raising sub-expressions),
validates the translation against the running library and evaluates regenerated functions vs hand model (Model/Proof.lean) on
given cell DAGs (search hook).

Theorems about the regenerated definitions: Proofs/SrcProof.lean (`src_check_proof_eq`, `src_header_eq`, `src_header_state_eq`,
`src_check_account_proof_eq`), referenced by Properties/C11.lean `c11_src_fn_*`.
"""
import ast
import hashlib
import os
import re
import subprocess

from . import pyfunc, pyobj, pybytes
from .pyfunc import NAT, INT, BYTES, BOOL, BITS, OBJ, LISTOF, OPT
from .pyexpr import Untranslatable
from .arith import write_if_changed, _lake_build
from ..paths import REPO, LEAN

SRC = 'pytoniq_core/proof/check_proof.py'
TL_BLOCK = 'pytoniq_core/tl/block.py'
EXOTIC = 'pytoniq_core/boc/exotic.py'
CELL_SRC = 'pytoniq_core/boc/cell.py'
OUT = 'TonVerif/Generated/ProofFull.lean'
NS = 'TonVerif.Generated.ProofFull'

# ---- the declared interface (trusted reading; checked against the source where a check exists, see `program`)
CLASSES = {
    # a constructed Cell object = Model.PCell (cached CellInfo + child objects); `cell[i]` = `cell.refs[i]` (IndexError = none);
    # `get_hash` / `get_depth` = CellInfo.getHash / getDepth (themselves regenerated from cell.py and proved: c02_src_constructor (4));
    # `.data` = the padded data bytes, `.hash` = the representation hash `_hashes[-1]`; `begin_parse()` = a fresh slice over the cell,
    # only ever handed to a TL-B deserialiser
    'Cell': dict(kind='struct', lean='PCell',
                 attrs={'type_': ('{}.info.kind', INT), 'data': ('{}.data', BYTES), 'refs': ('{}.refs', LISTOF('Cell')),
                        'bits': ('{}.info.bits', BITS), 'hash': ('{}.info.hash', BYTES)},
                 getitem=('{}.refs', OBJ('Cell')),
                 methods={'get_hash': dict(lean='{}.info.getHash {}', args=[NAT], ret=BYTES, raises=True),
                          'get_depth': dict(lean='{}.info.getDepth {}', args=[NAT], ret=NAT, raises=True),
                          'begin_parse': dict(lean='{}', args=[], ret=OBJ('FreshSlice'), raises=False)}),
    'FreshSlice': dict(kind='struct', lean='PCell', attrs={}),
    # BlockIdExt / Address as far as check_account_proof reads them: one bytes attribute each
    'BlkRoot': dict(kind='struct', lean='Bytes', attrs={'root_hash': ('{}', BYTES)}),
    'AddrHash': dict(kind='struct', lean='Bytes', attrs={'hash_part': ('{}', BYTES)}),
    # the result of ShardStateUnsplit.deserialize and what is read of it: `.accounts[0][key]` (KeyError / TypeError = none), `.cell`
    'Shard': dict(kind='struct', lean='Shard', attrs={'accounts': ('{}', OBJ('ShardAccountsPair'))}),
    'ShardAccountsPair': dict(kind='struct', lean='Shard', attrs={}, tupleitems={0: ('{}', OBJ('ShardAccountsDict'))}),
    'ShardAccountsDict': dict(kind='struct', lean='Shard', attrs={},
                              lookup=dict(lean='accountsGet {} {}', key=NAT, ret=OBJ('ShardAccount'), ext=['accountsGet'])),
    'ShardAccount': dict(kind='struct', lean='ShardAccount', attrs={'cell': ('accountCell {}', OBJ('Cell'), 'accountCell')}),
    # ---- check_shard_proof
    # a BlockIdExt = Model.BlkId (five attributes); `a == b` = equality of the structure (checked: BlockIdExt.__eq__ compares exactly
    # these five attributes, `blockid_eq_fields`)
    'BlockId': dict(kind='struct', lean='BlkId', eq='({} = {})',
                    attrs={'workchain': ('{}.workchain', INT), 'seqno': ('{}.seqno', INT), 'root_hash': ('{}.rootHash', BYTES)}),
    # Block.deserialize(slice) and what is read of it: `.info` (the BlockInfo; the same Lean value), `.seqno`, `.shard.workchain_id`
    'Block': dict(kind='struct', lean='BlockInfo', attrs={'info': ('{}', OBJ('BlockInfo'))}),
    'BlockInfo': dict(kind='struct', lean='BlockInfo', attrs={'seqno': ('infoSeqno {}', INT, 'infoSeqno'),
                                                              'shard.workchain_id': ('infoWorkchain {}', INT, 'infoWorkchain')}),
    # the masterchain state: `shard.custom.shard_hashes` raises when `custom` is None; the dictionary is read by `.get(workchain)`
    # (None = absent); a BinTree result `.list` = its leaves, None for a pruned leaf; a ShardDescr leaf is read through `.root_hash`
    'McShard': dict(kind='struct', lean='Shard', attrs={}, raising_attrs={'custom.shard_hashes': ('shardHashes {}', OBJ('ShardDict'), 'shardHashes')}),
    'ShardDict': dict(kind='struct', lean='ShardDict', attrs={},
                      methods={'get': dict(lean='shardGet {} {}', args=[INT], ret=OPT(OBJ('ShardDescr')), raises=False, ext=['shardGet'])}),
    'ShardDescr': dict(kind='struct', lean='ShardDescr', attrs={'list': ('descrList {}', 'optlist:ShardEntry', 'descrList')}),
    'ShardEntry': dict(kind='struct', lean='ShardEntry', attrs={'root_hash': ('entryRootHash {}', BYTES, 'entryRootHash')}),
}
TYPE_PARAMS = ['Shard', 'ShardAccount', 'BlockInfo', 'ShardDict', 'ShardDescr', 'ShardEntry']
# calls that stay PARAMETERS of the regenerated definitions (their models: BoC decoding = C03/C05; the TL-B walk = Model/Locate.lean)
EXTERNS = {
    'Cell.from_boc': dict(lean='from_boc', params=['data'], args=[BYTES], ret=LISTOF('Cell'), raises=True,
                          binder='(from_boc : Bytes → Option (List PCell))'),
    'ShardStateUnsplit.deserialize': dict(lean='deserShard', params=['cell_slice'], args=[OBJ('FreshSlice')], ret=OBJ('Shard'), raises=True,
                                          binder='(deserShard : PCell → Option Shard)', tparams=['Shard']),
    'accountsGet': dict(lean='accountsGet', params=None, binder='(accountsGet : Shard → Nat → Option ShardAccount)', tparams=['Shard', 'ShardAccount']),
    'accountCell': dict(lean='accountCell', params=None, binder='(accountCell : ShardAccount → PCell)', tparams=['ShardAccount']),
    # ---- check_shard_proof
    'Block.deserialize': dict(lean='deserBlock', params=['cell_slice'], args=[OBJ('FreshSlice')], ret=OBJ('Block'), raises=True,
                              binder='(deserBlock : PCell → Option BlockInfo)', tparams=['BlockInfo']),
    'infoSeqno': dict(lean='infoSeqno', params=None, binder='(infoSeqno : BlockInfo → Int)', tparams=['BlockInfo']),
    'infoWorkchain': dict(lean='infoWorkchain', params=None, binder='(infoWorkchain : BlockInfo → Int)', tparams=['BlockInfo']),
    'shardHashes': dict(lean='shardHashes', params=None, binder='(shardHashes : Shard → Option ShardDict)', tparams=['Shard', 'ShardDict']),
    'shardGet': dict(lean='shardGet', params=None, binder='(shardGet : ShardDict → Int → Option ShardDescr)', tparams=['ShardDict', 'ShardDescr']),
    'descrList': dict(lean='descrList', params=None, binder='(descrList : ShardDescr → List (Option ShardEntry))', tparams=['ShardDescr', 'ShardEntry']),
    'entryRootHash': dict(lean='entryRootHash', params=None, binder='(entryRootHash : ShardEntry → Bytes)', tparams=['ShardEntry']),
}
EXTERN_IMPORTS = {'Cell': ('boc.cell', 2), 'ShardStateUnsplit': ('tlb.block', 2), 'CellTypes': ('boc.exotic', 2), 'Block': ('tlb.block', 2)}
CONST_PARAMS = {'check_block_header_proof': {'store_state_hash': True}, 'check_account_proof': {'return_account_descr': True}}
ENTRIES = [
    ('check_proof', [OBJ('Cell'), BYTES], {}),
    ('check_block_header_proof', [OBJ('Cell'), BYTES], {'store_state_hash': False}),
    ('check_block_header_proof', [OBJ('Cell'), BYTES], {'store_state_hash': True}),
    ('check_account_proof', [BYTES, OBJ('BlkRoot'), OBJ('AddrHash'), OBJ('Cell')], {'return_account_descr': False}),
]
# translated after the core entries and allowed to fail on their own (then only THEIR committed blocks are kept, tie `lost`)
EXT_ENTRIES = [
    ('check_account_proof', [BYTES, OBJ('BlkRoot'), OBJ('AddrHash'), OBJ('Cell')], {'return_account_descr': True}),
    ('check_shard_proof', [BYTES, OBJ('BlockId'), OBJ('BlockId')], {}),
]
EXT_NAMES = ['check_account_proof_True', 'check_shard_proof']

HEAD = ['/- GENERATED by harness/translate/prooffull.py (pyfunc.py) from the current source of', f'   {SRC} (check_proof, check_block_header_proof, check_account_proof, check_shard_proof), {EXOTIC} (CellTypes); do not edit.',
        '   `none` = the Python code raises.  A constructed Cell is a `Model.PCell`; `cell[i]` = `cell.refs[i]?`, `get_hash` / `get_depth` =',
        '   `CellInfo.getHash` / `getDepth`.  `from_boc` (Cell.from_boc), `deserShard` (ShardStateUnsplit.deserialize), `accountsGet`',
        '   (`shard.accounts[0][key]`), `accountCell` (`shard_account.cell`) are parameters.  `_True` / `_False` = the function specialised to that',
        '   value of its flag parameter.  check_shard_proof: a BlockIdExt is a `Model.BlkId`; `deserBlock` (Block.deserialize(..).info), `infoSeqno`,',
        '   `infoWorkchain`, `shardHashes` (`shard.custom.shard_hashes`, none = raises), `shardGet` (`.get(workchain)`), `descrList` (`.list`, an',
        '   element may be None), `entryRootHash` are parameters; its result is `some none` for the early `return`, `some (some descr)` for the',
        '   descriptor returned from inside the loop (`Py.loop?` = a fold that stops at the first `return`). -/',
        'import TonVerif.PyInt', 'import TonVerif.PyBytes', 'import TonVerif.PyObj', 'import TonVerif.Model.PCell', 'import TonVerif.Model.BlockId',
        'set_option linter.unusedVariables false', f'namespace {NS}', 'open TonVerif TonVerif.Model', '']


def _tree(file):
    return ast.parse(open(os.path.join(REPO, file)).read())


def _class(tree, name, file):
    cs = [n for n in tree.body if isinstance(n, ast.ClassDef) and n.name == name]
    if len(cs) != 1:
        raise Untranslatable(f'class {name} not found in {file}')
    return cs[0]


def _method_body(cls, name, decorators=()):
    fs = [n for n in cls.body if isinstance(n, ast.FunctionDef) and n.name == name]
    if len(fs) != 1 or [ast.unparse(d) for d in fs[0].decorator_list] != list(decorators):
        raise Untranslatable(f'{cls.name}.{name}: not found / decorators')
    return [ast.unparse(s) for s in fs[0].body if not (isinstance(s, ast.Expr) and isinstance(s.value, ast.Constant))]


def celltypes_values(ex_tree):
    ct = _class(ex_tree, 'CellTypes', EXOTIC)
    values = {}
    for n in ct.body:
        if isinstance(n, ast.Expr) and isinstance(n.value, ast.Constant):
            continue
        if not (isinstance(n, ast.Assign) and len(n.targets) == 1 and isinstance(n.targets[0], ast.Name)):
            raise Untranslatable('CellTypes has something else than NAME = int')
        try:
            v = ast.literal_eval(n.value)
        except ValueError:
            raise Untranslatable('CellTypes constant is not a literal')
        if not isinstance(v, int) or isinstance(v, bool) or n.targets[0].id in values:
            raise Untranslatable('CellTypes constant')
        values[n.targets[0].id] = v
    return values


def blockid_eq_fields(tl_tree):
    """the attributes compared by BlockIdExt.__eq__ (`if a.x != b.x or ...: return False; return True`, or `return a.x == b.x and ...`)"""
    cls = _class(tl_tree, 'BlockIdExt', TL_BLOCK)
    fs = [n for n in cls.body if isinstance(n, ast.FunctionDef) and n.name == '__eq__']
    if len(fs) != 1 or fs[0].decorator_list or len(fs[0].args.args) != 2 or fs[0].args.args[0].arg != 'self':
        raise Untranslatable('BlockIdExt.__eq__ not found')
    other = fs[0].args.args[1].arg
    body = [s for s in fs[0].body if not (isinstance(s, ast.Expr) and isinstance(s.value, ast.Constant))]

    def fields(test, op, conn):
        parts = test.values if isinstance(test, ast.BoolOp) and isinstance(test.op, conn) else [test]
        out = []
        for c in parts:
            if not (isinstance(c, ast.Compare) and len(c.ops) == 1 and isinstance(c.ops[0], op)):
                raise Untranslatable('BlockIdExt.__eq__: comparison shape')
            sides = sorted(ast.unparse(x) for x in (c.left, c.comparators[0]))
            a = [x for x in sides if x.startswith('self.')]
            if len(a) != 1 or sorted([a[0], f'{other}.{a[0][5:]}']) != sides:
                raise Untranslatable('BlockIdExt.__eq__: compares something else than self.x with other.x')
            out.append(a[0][5:])
        return out
    if (len(body) == 2 and isinstance(body[0], ast.If) and not body[0].orelse and [ast.unparse(x) for x in body[0].body] == ['return False']
            and ast.unparse(body[1]) == 'return True'):
        return sorted(fields(body[0].test, ast.NotEq, ast.Or))
    if len(body) == 1 and isinstance(body[0], ast.Return) and body[0].value is not None:
        return sorted(fields(body[0].value, ast.Eq, ast.And))
    raise Untranslatable('BlockIdExt.__eq__: shape')


def program():
    tree, ex_tree, cell_tree = _tree(SRC), _tree(EXOTIC), _tree(CELL_SRC)
    fns = pyfunc.module_functions(tree)
    for name, mod in EXTERN_IMPORTS.items():
        if pybytes.imported_from(tree, name) != mod:
            raise Untranslatable(f'{name} is not (only) `from {"." * mod[1]}{mod[0]} import {name}` in {SRC}')
    for n in ast.walk(tree):
        if isinstance(n, ast.Name) and isinstance(n.ctx, (ast.Store, ast.Del)) and (n.id in fns or n.id in ('Cell', 'CellTypes', 'ShardStateUnsplit')):
            raise Untranslatable(f'{n.id} is rebound')
        if isinstance(n, (ast.Global, ast.Nonlocal)):
            raise Untranslatable('global / nonlocal')
    for t in (tree, ex_tree):
        for n in ast.walk(t):
            if isinstance(n, ast.Attribute) and isinstance(n.value, ast.Name) and n.value.id == 'CellTypes' and isinstance(n.ctx, (ast.Store, ast.Del)):
                raise Untranslatable('CellTypes is assigned to')
    # the accessors of Cell that the declared interface reads through
    cell = _class(cell_tree, 'Cell', CELL_SRC)
    if _method_body(cell, 'data', ['property']) != ['return self._data_bytes']:
        raise Untranslatable('Cell.data is not a property returning self._data_bytes')
    if _method_body(cell, 'hash', ['property']) != ['return self._hash']:
        raise Untranslatable('Cell.hash is not a property returning self._hash')
    if _method_body(cell, '__getitem__') != ['return self.refs[ref_i]']:
        raise Untranslatable('Cell.__getitem__ is not `return self.refs[ref_i]`')
    if any(isinstance(n, ast.FunctionDef) and n.name in ('__getattr__', '__getattribute__', '__len__') for n in cell.body):
        raise Untranslatable('Cell defines __getattr__ / __len__')
    classes = dict(CLASSES)
    classes['CellTypes'] = dict(kind='consts', values=celltypes_values(ex_tree))
    return pyfunc.FProgram(classes, fns, externs=EXTERNS, const_params=CONST_PARAMS, type_params=TYPE_PARAMS,
                           hashlib='hashlib', bitarray='bitarray', src=SRC)


def check_shard_interface(prog):
    """source checks behind the declared reading of check_shard_proof's objects"""
    if blockid_eq_fields(_tree(TL_BLOCK)) != ['file_hash', 'root_hash', 'seqno', 'shard', 'workchain']:
        raise Untranslatable('BlockIdExt.__eq__ does not compare exactly workchain, shard, seqno, root_hash, file_hash')
    # in check_shard_proof the deserialised state is a masterchain state: `shard` is read through `.custom.shard_hashes`
    classes = dict(prog.classes)
    classes['Shard'] = classes['McShard']
    return classes


def translate_all():
    """-> (defs of the core entries, defs of the extension entries | None, reason the extension failed | None)"""
    prog = program()
    for name, argtypes, consts in ENTRIES:
        prog.function(name, argtypes, consts)
    core = dict(prog.defs)
    try:
        prog.function(*EXT_ENTRIES[0])
        core_classes = prog.classes
        prog.classes = check_shard_interface(prog)
        try:
            prog.function(*EXT_ENTRIES[1])
        finally:
            prog.classes = core_classes
        ext = {n: t for n, t in prog.defs if n not in core}
        if sorted(ext) != sorted(EXT_NAMES):
            raise Untranslatable(f'extension definitions {sorted(ext)}')
        return core, ext, None
    except (Untranslatable, SyntaxError, OSError, RecursionError) as e:
        return core, None, f'{type(e).__name__}: {e}'


def committed_text():
    try:
        r = subprocess.run(['git', '-C', os.path.dirname(LEAN), 'show', f'HEAD:lean/{OUT}'], capture_output=True, text=True, timeout=20)
        if r.returncode == 0 and r.stdout.startswith('/- GENERATED') and f'namespace {NS}' in r.stdout:
            return r.stdout
    except Exception:
        pass
    return None


def block_of(text, name):
    m = re.search(rf'^-- BEGIN {re.escape(name)}\n(.*?)^-- END {re.escape(name)}\n', text or '', re.M | re.S)
    return m.group(1) if m else None


def generate(old=None):
    try:
        defs, ext, ext_lost = translate_all()
    except (Untranslatable, SyntaxError, OSError, RecursionError) as e:
        keep = committed_text() or old
        if keep is None:
            raise Untranslatable(f'{e} (and no previous translation to keep)')
        return keep, {}, {'ProofFull': f'{type(e).__name__}: {e}'}
    lost = {}
    if ext is None:
        # check_shard_proof / the descriptor mode left the subset: their committed blocks are kept, the core is regenerated
        keep = committed_text() or old
        ext = {n: block_of(keep, n) for n in EXT_NAMES}
        if any(v is None for v in ext.values()):
            raise Untranslatable(f'{ext_lost} (and no previous translation of {EXT_NAMES} to keep)')
        lost = {'ProofFull(check_shard_proof, check_account_proof descriptor mode)': ext_lost}
    out = list(HEAD)
    for name, text in list(defs.items()) + [(n, ext[n]) for n in EXT_NAMES]:
        out += [f'-- BEGIN {name}', text.rstrip('\n'), f'-- END {name}', '']
    out.append(f'end {NS}')
    return '\n'.join(out) + '\n', {n: 'regenerated' for n in list(defs) + ([] if lost else EXT_NAMES)}, lost


def regenerate():
    path = os.path.join(LEAN, OUT)
    try:
        old = open(path).read()
    except FileNotFoundError:
        old = None
    text, info, lost = generate(old=old)
    changed = write_if_changed(path, text)
    h = hashlib.sha256(text.encode())
    for f in (SRC, EXOTIC, CELL_SRC, TL_BLOCK):
        h.update(open(os.path.join(REPO, f), 'rb').read())
    for f in (__file__, pyfunc.__file__, pyobj.__file__, pybytes.__file__, pybytes.pyarith.__file__, os.path.join(LEAN, 'TonVerif/PyObj.lean'),
              os.path.join(LEAN, 'TonVerif/Model/Proof.lean')):
        h.update(open(f, 'rb').read())
    stamp = os.path.join(LEAN, '.lake', 'srcval_ProofFull.stamp')
    try:
        cached = open(stamp).read() == h.hexdigest()
    except OSError:
        cached = False
    n = 0
    if not cached and not lost:
        bad, n = validate()
        if bad:
            keep = committed_text() or old
            if keep is None:
                raise Untranslatable(bad)
            changed = write_if_changed(path, keep) or changed
            lost = {'ProofFull': bad}
        else:
            try:
                with open(stamp, 'w') as f:
                    f.write(h.hexdigest())
            except OSError:
                pass
    if lost:
        raise Untranslatable(f'kept the previous translation: {lost} (file changed: {changed})')
    return changed, {'definitions': sorted(info), 'validated': 'cached' if cached else f'Lean evaluation = the library on {n} proof / header / account (both modes) / shard-proof cases'}


# ---------------------------------------------------------------------------- Lean evaluation

LEAN_EVAL = """import TonVerif.Drv.Proof
import TonVerif.Generated.ProofFull
open TonVerif TonVerif.Model TonVerif.Drv TonVerif.Generated.ProofFull
def cellAt (cells : Array (Option PCell)) (i : Nat) : Option PCell := (cells[i]?).join
def hdrGen (c : PCell) (hb : Bytes) : String :=
  match check_block_header_proof_False c hb with
  | none => "rej"
  | some _ => match check_block_header_proof_True c hb with
    | some s => "acc " ++ dashHex s
    | none => "acc x"
def hdrMod (c : PCell) (hb : Bytes) : String :=
  if checkBlockHeaderProof c hb then
    match checkBlockHeaderProofState c hb with
    | some s => "acc " ++ dashHex s
    | none => "acc x"
  else "rej"
def acctGen (O : Opaque) (rcs : List PCell) (bh kb : Bytes) (sc : PCell) : Bool :=
  (check_account_proof_False (Shard := PCell) (ShardAccount := PCell) (fun _ => some rcs) some (fun st _ => locateAccount O st kb)
    (fun acc => PCell.mk acc.info [acc]) [] bh kb sc).isSome
def acctGenD (O : Opaque) (rcs : List PCell) (bh kb : Bytes) (sc : PCell) : Bool :=
  (check_account_proof_True (Shard := PCell) (ShardAccount := PCell) (fun _ => some rcs) some (fun st _ => locateAccount O st kb)
    (fun acc => PCell.mk acc.info [acc]) [] bh kb sc).isSome
def showShard : Option (Option Unit) → String
  | none => "rej"
  | some none => "none"
  | some (some _) => "descr"
/- check_shard_proof with stub externals described by small numbers (the library runs the real function with the same stubs):
   same / mc: blk == shrd_blk, blk.workchain == -1; info: 0 ok, 1 seqno differs, 2 Block.deserialize raises, 3 workchain differs;
   custom: 1 = `shard.custom` is None (raises); get: 1 = the workchain is absent; leaves: 0 = None, 1 = the shard block's root hash, 2 = another -/
def shardBlk (bh : Bytes) (mc : Nat) : BlkId := ⟨if mc == 1 then -1 else 0, 0, 5, bh, []⟩
def shardShrd (bh : Bytes) (same mc : Nat) : BlkId := if same == 1 then shardBlk bh mc else ⟨0, 1, 9, List.replicate 32 8, []⟩
def shardLeaves (leaves : List Nat) : List (Option Bytes) :=
  leaves.map fun k => if k == 0 then none else if k == 1 then some (List.replicate 32 8) else some (List.replicate 32 9)
def shardGen (rcs : List PCell) (bh : Bytes) (same mc info custom get : Nat) (leaves : List Nat) : String :=
  showShard (check_shard_proof (Shard := Unit) (BlockInfo := Unit) (ShardDict := Unit) (ShardDescr := Unit) (ShardEntry := Bytes)
    (fun _ => some rcs) (fun _ => some ()) (fun _ => if info == 2 then none else some ()) (fun _ => if info == 1 then 6 else 5)
    (fun _ => (shardBlk bh mc).workchain + (if info == 3 then 1 else 0)) (fun _ => if custom == 1 then none else some ())
    (fun _ _ => if get == 1 then none else some ()) (fun _ => shardLeaves leaves) id [] (shardBlk bh mc) (shardShrd bh same mc))
def shardMod (rcs : List PCell) (bh : Bytes) (same mc info custom get : Nat) (leaves : List Nat) : String :=
  let blk := shardBlk bh mc
  let shrd := shardShrd bh same mc
  let find := findShardDescr (Shard := Unit) (ShardDict := Unit) (ShardDescr := Unit) (ShardEntry := Bytes) (fun _ => some ())
    (fun _ => if custom == 1 then none else some ()) (fun _ _ => if get == 1 then none else some ()) (fun _ => shardLeaves leaves) id
    shrd.workchain shrd.rootHash
  showShard (if blk = shrd then some none else if blk.workchain ≠ -1 then none else
    if checkShardProof (shardBlockInfoOk (BlockInfo := Unit) (fun _ => if info == 2 then none else some ()) (fun _ => if info == 1 then 6 else 5)
        (fun _ => blk.workchain + (if info == 3 then 1 else 0)) blk.seqno blk.workchain) (fun st => (find st).isSome) false true rcs bh
    then ((rcs[1]?).bind fun s => (s.refs[0]?).bind fun st => find st).map some else none)
def out (mode : String) (g m : String) : String := if mode == "val" then g else (if g == m then "same" else "DIFF")
def run (mode : String) (w : String) : String :=
  match w.splitOn " " with
  | ["chkproof", d, idx, h] =>
    match parsePDag d, idx.toNat?, hexArg h with
    | some cells, some i, some hb =>
      match cellAt cells i with
      | some c => out mode (accRej (check_proof c hb).isSome) (accRej (checkProof c hb))
      | none => out mode "rej" "rej"
    | _, _, _ => "bad"
  | ["chkhdr", d, idx, h] =>
    match parsePDag d, idx.toNat?, hexArg h with
    | some cells, some i, some hb =>
      match cellAt cells i with
      | some c => out mode (hdrGen c hb) (hdrMod c hb)
      | none => out mode "rej" "rej"
    | _, _, _ => "bad"
  | ["chkacct", d, roots, bh, key, st, badAcc, badMc] =>
    match parsePDag d, parseNatList roots, hexArg bh, hexArg key, st.toNat?, parseHexList badAcc, parseHexList badMc with
    | some cells, some rs, some bhb, some kb, some si, some ba, some bm =>
      match rs.mapM (cellAt cells), cellAt cells si with
      | some rcs, some sc => out mode (accRej (acctGen (opaqueOf ba bm) rcs bhb kb sc)) (accRej (checkAccountProof (opaqueOf ba bm) rcs bhb kb sc))
      | _, _ => out mode "rej" "rej"
    | _, _, _, _, _, _, _ => "bad"
  | ["chkacctd", d, roots, bh, key, st, badAcc, badMc] =>
    match parsePDag d, parseNatList roots, hexArg bh, hexArg key, st.toNat?, parseHexList badAcc, parseHexList badMc with
    | some cells, some rs, some bhb, some kb, some si, some ba, some bm =>
      match rs.mapM (cellAt cells), cellAt cells si with
      | some rcs, some sc => out mode (accRej (acctGenD (opaqueOf ba bm) rcs bhb kb sc)) (accRej (checkAccountProof (opaqueOf ba bm) rcs bhb kb sc))
      | _, _ => out mode "rej" "rej"
    | _, _, _, _, _, _, _ => "bad"
  | ["chkshard", d, roots, bh, same, mc, info, custom, get, leaves] =>
    match parsePDag d, parseNatList roots, hexArg bh, same.toNat?, mc.toNat?, info.toNat?, custom.toNat?, get.toNat?, parseNatList leaves with
    | some cells, some rs, some bhb, some a, some b, some c, some e, some f, some ls =>
      match rs.mapM (cellAt cells) with
      | some rcs => out mode (shardGen rcs bhb a b c e f ls) (shardMod rcs bhb a b c e f ls)
      | none => out mode "rej" "rej"
    | _, _, _, _, _, _, _, _, _ => "bad"
  | _ => "bad"
"""


def lean_eval(lines, mode):
    """lines = driver request lines `chkproof` / `chkhdr` / `chkacct` (as built by harness/props/C11.py) -> per line the answer of the
    REGENERATED functions in the driver's answer format (mode val) or 'same' | 'DIFF' against the hand model (mode diff)"""
    inp = os.path.join(LEAN, f'.srcproof_{os.getpid()}.txt')
    tmp = os.path.join(LEAN, f'.srcproof_{os.getpid()}.lean')
    with open(inp, 'w') as f:
        f.write('\n'.join(lines) + '\n')
    with open(tmp, 'w') as f:
        f.write(LEAN_EVAL + f'#eval (do for w in (← IO.FS.lines "{inp}") do IO.println ("VAL " ++ run "{mode}" w) : IO Unit)\n')
    try:
        _lake_build(['TonVerif.Generated.ProofFull', 'TonVerif.Drv.Proof'])
        p = subprocess.run(['lake', 'env', 'lean', tmp], cwd=LEAN, capture_output=True, text=True, timeout=1500)
    finally:
        os.unlink(tmp)
        os.unlink(inp)
    got = re.findall(r'^VAL (.*)$', p.stdout, re.M)
    if len(got) != len(lines) or 'bad' in got:
        raise RuntimeError('lean evaluation failed: ' + (p.stdout + p.stderr)[-300:])
    return got


class Recorder:
    """stands in for core.Ctx while the C11 generators run: records every (driver request, library verdict) pair"""

    def __init__(self, seed, scale=1):
        import random
        self.rng = random.Random(seed)
        self.lines = []            # (request line, the library's answer, detail)
        self.failures, self.notes, self.broken, self.stats = [], [], [], {}
        self.search, self.thorough, self.tier = False, False, 'quick'
        self.scale = scale
        self.src_account_first = False
        self.acct_cases = []

    def n(self, quick, thorough):
        return max(1, quick // self.scale)

    def case(self, *a, **k):
        pass

    def count(self, *a, **k):
        pass

    def fail(self, *a, **k):
        pass

    def corr_broken(self, *a, **k):
        pass

    def expect_model(self, line, expected, detail):
        if line.split(' ', 1)[0] in ('chkproof', 'chkhdr', 'chkacct'):
            self.lines.append((line, expected, detail))

    def record_acct(self, line, got_descr, detail, nodes, roots, blk_hash):
        # the same request in the descriptor mode (return_account_descr=True), with the library's verdict for THAT mode
        self.lines.append((line.replace('chkacct', 'chkacctd', 1), got_descr, detail + '/descr'))
        self.acct_cases.append((list(nodes), list(roots), blk_hash, detail))


def validation_cases():
    """(request line, library verdict) pairs from the C11 generators with a fixed seed: Merkle proofs over chains (honest, cut /
    extended root cells, wrappers, wrong hashes, reference edits), block-like trees with honest and forged state updates, account
    proofs over synthetic shard states (honest, forged, wrong roots)"""
    from ..props import C11
    rec = Recorder(20240915, scale=4)
    C11.src_families(rec, rec.rng)
    C11.account_stream(rec, rec.rng)
    seen, out = set(), []
    for line, exp, detail in rec.lines:
        if line not in seen and len(line) < 60000:
            seen.add(line)
            out.append((line, exp, detail))
    for line, exp, detail in shard_cases(rec.acct_cases):
        if line not in seen and len(line) < 60000:
            seen.add(line)
            out.append((line, exp, detail))
    return out


SHARD_GRID = [  # (same, mc, info, custom, get, leaves)
    (0, 1, 0, 0, 0, [1]), (0, 1, 0, 0, 0, [0, 2, 1, 2]), (0, 1, 0, 0, 0, [2, 2]), (0, 1, 0, 0, 0, []), (0, 1, 0, 0, 0, [0]), (0, 1, 0, 0, 0, [0, 0, 1]),
    (1, 1, 0, 0, 0, [1]), (1, 0, 2, 1, 1, []), (0, 0, 0, 0, 0, [1]), (0, 1, 1, 0, 0, [1]), (0, 1, 2, 0, 0, [1]), (0, 1, 3, 0, 0, [1]),
    (0, 1, 0, 1, 0, [1]), (0, 1, 0, 0, 1, [1]), (0, 1, 0, 0, 0, [2, 1, 1]),
]


def shard_lib_answer(nodes, roots, bh, same, mc, info, custom, get, leaves):
    """the REAL check_shard_proof of the library run on constructed cells, with the TL-B deserialisers and Cell.from_boc replaced by
    stubs that behave as the numbers say (what the translator declares as externals) -> 'none' | 'descr' | 'rej'"""
    import types
    import importlib
    import sys
    importlib.import_module('pytoniq_core.proof.check_proof')
    cp = sys.modules['pytoniq_core.proof.check_proof']         # (the package re-exports a FUNCTION of the same name)
    from pytoniq_core.tl.block import BlockIdExt
    from ..gen import cells as G
    libs = G.lib_build(nodes)
    if any(libs[r] is None for r in roots):
        return 'rej'
    cells = [libs[r] for r in roots]
    NS = types.SimpleNamespace
    blk = BlockIdExt(-1 if mc else 0, 0, 5, bh, b'')
    shrd = BlockIdExt(-1 if mc else 0, 0, 5, bytes(bh), b'') if same else BlockIdExt(0, 1, 9, bytes([8]) * 32, b'')

    def deser_block(_slice):
        if info == 2:
            raise ValueError('stub: Block.deserialize raises')
        return NS(info=NS(seqno=6 if info == 1 else 5, shard=NS(workchain_id=blk.workchain + (1 if info == 3 else 0))))

    descr = NS(list=[None if k == 0 else NS(root_hash=bytes([8 if k == 1 else 9]) * 32) for k in leaves])

    def deser_shard(_slice):
        return NS(custom=None if custom == 1 else NS(shard_hashes={} if get == 1 else {shrd.workchain: descr}))

    saved = (cp.Cell, cp.Block, cp.ShardStateUnsplit)
    try:
        cp.Cell = NS(from_boc=lambda data: list(cells))
        cp.Block = NS(deserialize=deser_block)
        cp.ShardStateUnsplit = NS(deserialize=deser_shard)
        try:
            r = cp.check_shard_proof(b'', blk, shrd)
        except Exception:
            return 'rej'
        return 'none' if r is None else ('descr' if r is descr else f'other {r!r}')
    finally:
        cp.Cell, cp.Block, cp.ShardStateUnsplit = saved


def shard_cases(acct_cases, limit=28):
    """request lines `chkshard` over the proof pairs of the recorded account cases (honest, forged, wrong roots) x SHARD_GRID"""
    from ..props import C11
    out = []
    picked, kinds = [], set()
    for nodes, roots, bh, detail in acct_cases:        # one case per kind first, then fill up
        if detail not in kinds:
            kinds.add(detail)
            picked.append((nodes, roots, bh, detail))
    picked = picked[:limit]
    for i, (nodes, roots, bh, detail) in enumerate(picked):
        grid = SHARD_GRID if i < 6 else SHARD_GRID[:3] + [SHARD_GRID[6 + i % 9]]
        for same, mc, info, custom, get, leaves in grid:
            line = (f'chkshard {C11.dag_str(nodes)} {".".join(map(str, roots))} {C11.hx(bh)} {same} {mc} {info} {custom} {get} '
                    f'{".".join(map(str, leaves)) or "-"}')
            out.append((line, shard_lib_answer(nodes, roots, bh, same, mc, info, custom, get, leaves), f'shard/{detail}'))
    return out


def validate():
    """Differential validation of the TRANSLATOR: the regenerated functions, evaluated by Lean on constructed cell DAGs, must answer
    every request as the library does.  -> (None | reason, number of cases)"""
    try:
        cases = validation_cases()
        got = lean_eval([c[0] for c in cases], 'val')
    except Exception as e:
        return f'validation: the regenerated definitions could not be evaluated: {type(e).__name__}: {e}', 0
    for (line, exp, detail), g in zip(cases, got):
        if g != exp:
            return f'validation: on `{line[:160]}...` ({detail}) Lean computes "{g[:80]}", the library computes "{exp[:80]}"', len(cases)
    return None, len(cases)


def diff_lines(ctx, lines):
    """For harness search mode: indices of the request lines on which the regenerated functions and the hand model differ (evaluated
    by Lean; needs only Generated/ProofFull.lean and the driver modules, not the proofs).  Never raises."""
    if not lines:
        return []
    try:
        got = lean_eval(lines, 'diff')
    except Exception as e:
        ctx.notes.append(f'source-diff search (ProofFull) failed: {type(e).__name__}: {e}')
        return []
    idx = [i for i, g in enumerate(got) if g == 'DIFF']
    ctx.notes.append(f'source-diff search: regenerated check_proof / check_block_header_proof / check_account_proof / check_shard_proof vs hand model on {len(lines)} requests: '
                     + (f'{len(idx)} differ, e.g. {lines[idx[0]][:100]}' if idx else 'no difference'))
    return idx


if __name__ == '__main__':
    text, info, lost = generate(old='')
    print(info, lost)
    if not lost:
        print(write_if_changed(os.path.join(LEAN, OUT), text))
