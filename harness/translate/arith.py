"""Regenerates lean/TonVerif/Generated/{LevelMask,CellArith,VarLen,Capacity,BocWidths}.lean from the integer
arithmetic of exotic.py / cell.py / builder.py / tvm_bitarray.py (translator: pyarith.py), and finds inputs on
which a regenerated definition differs from the hand model / spec function it is proved equal to (search hook).

One Generated file per GROUP; inside a file one marked section per translated definition.  If ONE definition
leaves the subset, its previous section is kept (so the file still builds), the others are regenerated, and the
group reports the tie as lost for that definition (core.py: status 'lost', exit code unaffected).
"""
import ast
import hashlib
import os
import re
import subprocess

from . import pyarith
from .pyexpr import Untranslatable
from ..paths import REPO, LEAN

N, Z, B = 'Nat', 'Int', 'Bool'


def T(lean, cls, fn, how, binds, params, ret=None, ref=None, grid=None, guard=None, **kw):
    return dict(lean=lean, cls=cls, fn=fn, how=how, binds=binds, params=params, ret=ret, ref=ref, grid=grid or {}, guard=guard, kw=kw)


SMALL = list(range(0, 40))
LENS = sorted(set(list(range(0, 70)) + [127, 128, 129, 255, 256, 257, 264, 280, 288, 511, 512, 513, 552, 560, 832] + list(range(1000, 1030)) + [2047, 2048, 4095, 65535, 65536]))
MASKS = list(range(0, 17)) + [31, 32, 127, 128, 255, 256]
LEVELS = list(range(0, 10))
POW = sorted({max(0, (1 << k) + d) for k in range(0, 140) for d in (-1, 0, 1)} | {(1 << k) + d for k in (255, 256, 257, 1015, 1016) for d in (-1, 0)})
SIGNED = sorted({s * v for v in POW for s in (1, -1)} | {-v - 1 for v in POW}, key=lambda v: (abs(v), v))
WIDE = sorted({max(0, (1 << k) + d) for k in list(range(0, 80)) for d in (-2, -1, 0, 1)} | set(range(0, 600)))

GROUPS = {
    'LevelMask': dict(
        src='pytoniq_core/boc/exotic.py', imports=[],
        targets=[
            T('lmLevel', 'LevelMask', 'get_level', ('whole',), {'self._m': ('m', N)}, ['m'],
              ref='Model.bitLength m', grid={'m': MASKS}),
            T('lmHashIndex', 'LevelMask', 'get_hash_index', ('whole',), {'self._m': ('m', N)}, ['m'],
              ref='Model.popcount m', grid={'m': MASKS}),
            T('lmApply', 'LevelMask', 'apply', ('whole',), {'self._m': ('m', N), 'level': ('level', N)}, ['m', 'level'],
              ref='Model.maskApply m level', grid={'m': MASKS, 'level': LEVELS}, unwrap=('LevelMask',)),
            T('lmIsSignificant', 'LevelMask', 'is_significant', ('whole',), {'self._m': ('m', N), 'level': ('level', N)}, ['m', 'level'],
              ret='Bool', ref='Model.isSignificant m level', grid={'m': MASKS, 'level': LEVELS}),
        ]),
    'CellArith': dict(
        src='pytoniq_core/boc/cell.py', imports=[],
        targets=[
            T('refsDescriptor', 'Cell', 'get_refs_descriptor', ('whole',),
              {'len(self.refs)': ('r', N), 'self.is_exotic': ('exotic', B), 'lvl_mask.mask': ('mask', N)}, ['r', 'exotic', 'mask'],
              ref='Spec.d1 r exotic mask', grid={'r': [0, 1, 2, 3, 4, 5], 'exotic': [False, True], 'mask': list(range(0, 9))}, strip_to_bytes=True),
            T('bitsDescriptor', 'Cell', 'get_bits_descriptor', ('whole',), {'len(self.bits)': ('b', N)}, ['b'],
              ref='Spec.d2 b', grid={'b': LENS}, strip_to_bytes=True),
            T('depthTooLarge', 'Cell', 'calculate_hashes', ('raise_if', 'max depth'), {'depth': ('depth', N)}, ['depth'],
              ret='Bool', ref='decide (depth ≥ 1024)', grid={'depth': LENS}),
            T('prunedHashLo', 'Cell', 'get_hash', ('slice', 'self._data_bytes', 0), {'hash_index': ('hi', N)}, ['hi'],
              ref='2 + 32 * hi', grid={'hi': SMALL}),
            T('prunedHashHi', 'Cell', 'get_hash', ('slice', 'self._data_bytes', 1), {'hash_index': ('hi', N)}, ['hi'],
              ref='2 + 32 * (hi + 1)', grid={'hi': SMALL}),
            T('prunedDepthOff', 'Cell', 'get_depth', ('assign', 'off'), {'hash_index': ('hi', N), 'pruned_hash_index': ('pi', N)}, ['pi', 'hi'],
              ref='2 + 32 * pi + 2 * hi', grid={'pi': list(range(0, 9)), 'hi': list(range(0, 9))}),
            T('prunedDepthLo', 'Cell', 'get_depth', ('slice', 'self.get_data_bytes()', 0), {'off': ('off', N)}, ['off'],
              ref='off', grid={'off': SMALL}),
            T('prunedDepthHi', 'Cell', 'get_depth', ('slice', 'self.get_data_bytes()', 1), {'off': ('off', N)}, ['off'],
              ref='off + 2', grid={'off': SMALL}),
        ]),
    'VarLen': dict(
        src='pytoniq_core/boc/builder.py', imports=['TonVerif.Spec.TlbPrim'],
        targets=[
            T('varUintIsZero', 'Builder', 'store_var_uint', ('early_return',), {'value': ('value', Z)}, ['value'], ret='Bool',
              ref='decide (value = 0)', grid={'value': SIGNED}),
            T('varUintByteLen', 'Builder', 'store_var_uint', ('assign', 'byte_length'), {'value': ('value', Z)}, ['value'],
              ref='Spec.Tlb.byteLenU value.toNat', grid={'value': POW}, guard='value > 0'),
            T('varIntIsZero', 'Builder', 'store_var_int', ('early_return',), {'value': ('value', Z)}, ['value'], ret='Bool',
              ref='decide (value = 0)', grid={'value': SIGNED}),
            T('varIntByteLen', 'Builder', 'store_var_int', ('assign', 'byte_length'), {'value': ('value', Z)}, ['value'],
              ref='Spec.Tlb.byteLenS value', grid={'value': SIGNED}, guard='value ≠ 0'),
            T('coinsLenBits', 'Builder', 'store_coins', ('call_arg', 'store_var_uint', 1), {}, [], ref='4'),
        ]),
    'Capacity': dict(
        src=None, imports=[],
        targets=[
            T('bitsOverflow', 'TvmBitarray', 'check_overflow', ('whole',), {'len(self)': ('used', N), 'length': ('length', N)}, ['used', 'length'],
              ret='raises', ref='decide (used + length > 1023)', grid={'used': LENS, 'length': LENS}, file='pytoniq_core/boc/tvm_bitarray.py'),
            T('bitsUnderflow', 'TvmBitarray', 'check_underflow', ('whole',), {'len(self)': ('remaining', N), 'length': ('length', N)}, ['remaining', 'length'],
              ret='raises', ref='decide (remaining < length)', grid={'remaining': LENS, 'length': LENS}, file='pytoniq_core/boc/tvm_bitarray.py'),
            T('sizeTooLarge', 'TvmBitarray', '__init__', ('raise_if', 'size must be'), {'size': ('size', N)}, ['size'],
              ret='Bool', ref='decide (size > 1023)', grid={'size': LENS}, file='pytoniq_core/boc/tvm_bitarray.py'),
            T('refsFull', 'Builder', 'store_ref', ('raise_if', 'refs overflow'), {'len(self.refs)': ('refs', N)}, ['refs'],
              ret='Bool', ref='decide (refs ≥ 4)', grid={'refs': SMALL}, file='pytoniq_core/boc/builder.py'),
            T('cellRefsOverflow', 'Builder', 'store_cell', ('raise_if', 'refs overflow'),
              {'len(self.refs)': ('refs', N), 'len(cell.refs)': ('more', N)}, ['refs', 'more'],
              ret='Bool', ref='decide (refs + more > 4)', grid={'refs': list(range(8)), 'more': list(range(8))}, file='pytoniq_core/boc/builder.py'),
            T('sliceRefsOverflow', 'Builder', 'store_slice', ('raise_if', 'refs overflow'),
              {'len(self.refs)': ('refs', N), 'cell_slice.remaining_refs': ('more', N)}, ['refs', 'more'],
              ret='Bool', ref='decide (refs + more > 4)', grid={'refs': list(range(8)), 'more': list(range(8))}, file='pytoniq_core/boc/builder.py'),
        ]),
    'BocWidths': dict(
        src='pytoniq_core/boc/cell.py', imports=[],
        targets=[
            T('cellsLen', 'Cell', 'to_boc', ('assign', 'cells_len'), {'cells_num': ('cellsNum', N)}, ['cellsNum'],
              ref='Py.byteWidth cellsNum', grid={'cellsNum': WIDE}),
            T('maxOffset', 'Cell', 'to_boc', ('assign', 'max_offset'), {'len(payload)': ('total', N), 'has_cache_bits': ('cacheBits', B)},
              ['total', 'cacheBits'], ref='(if cacheBits then 2 * total else total)', grid={'total': WIDE, 'cacheBits': [False, True]}),
            T('payloadLen', 'Cell', 'to_boc', ('assign', 'payload_len'), {'max_offset': ('mo', N)}, ['mo'],
              ref='Py.byteWidth mo', grid={'mo': WIDE}),
        ]),
}


def write_if_changed(path, text):
    """atomic (C01 and C02 both regenerate CellArith.lean and may run side by side)"""
    try:
        if open(path).read() == text:
            return False
    except FileNotFoundError:
        pass
    os.makedirs(os.path.dirname(path), exist_ok=True)
    tmp = f'{path}.{os.getpid()}.tmp'
    with open(tmp, 'w') as f:
        f.write(text)
    os.replace(tmp, path)
    return True


def _lake_build(targets):
    from ..core import Lock          # the same lock core.py holds around its own `lake build`
    with Lock():
        subprocess.run(['lake', 'build'] + targets, cwd=LEAN, capture_output=True, text=True, timeout=900)


def _sections(text):
    return {m.group(1): m.group(2) for m in re.finditer(r'-- BEGIN (\w+)\n(.*?)-- END \1\n', text, re.S)}


def generate(group, force_old=None, old=None):
    """-> (lean text, info, lost) ; lost = {definition: reason}.  force_old = {definition: reason}: keep the previous section."""
    g = GROUPS[group]
    path = os.path.join(LEAN, f'TonVerif/Generated/{group}.lean')
    if old is None:
        try:
            old = _sections(open(path).read())
        except FileNotFoundError:
            old = {}
    trees = {}
    out = [f'/- GENERATED by harness/translate/arith.py (pyarith.py) from the current source; do not edit. -/',
           'import TonVerif.PyInt'] + [f'import {i}' for i in g['imports']] + ['set_option linter.unusedVariables false', 'namespace TonVerif.Generated', 'open TonVerif', '']
    info, lost = {}, {}
    for t in g['targets']:
        file = t['kw'].get('file') or g['src']
        try:
            if force_old and t['lean'] in force_old:
                raise Untranslatable(force_old[t['lean']])
            if file not in trees:
                trees[file] = ast.parse(open(os.path.join(REPO, file)).read())
            fn = pyarith.find_def(trees[file], t['cls'], t['fn'])
            kw = {k: v for k, v in t['kw'].items() if k != 'file'}
            lbl = '.'.join(x for x in (t['cls'], t['fn']) if x)
            how_txt = ' '.join(' '.join(str(x).split()) for x in t['how'])[:160].replace('-/', '- /').replace('/-', '/ -')
            r = pyarith.translate(fn, t['lean'], t['how'], t['binds'], params=t['params'], ret=t['ret'],
                                  src=f'{file}: {lbl} {how_txt}', **kw)
            sec = r['lean']
            info[t['lean']] = {'from': lbl, 'notes': r['notes']} if r['notes'] else lbl
        except (Untranslatable, SyntaxError, OSError) as e:
            lost[t['lean']] = f'{type(e).__name__}: {e}'
            sec = old.get(t['lean'])
            if sec is None:
                raise Untranslatable(f'{t["lean"]}: {e} (and no previous translation to keep)')
        out += [f'-- BEGIN {t["lean"]}', sec.rstrip('\n'), f'-- END {t["lean"]}', '']
    out.append('end TonVerif.Generated')
    return '\n'.join(out) + '\n', info, lost


def regenerator(group):
    def regenerate():
        path = os.path.join(LEAN, f'TonVerif/Generated/{group}.lean')
        try:
            old = _sections(open(path).read())
        except FileNotFoundError:
            old = {}
        text, info, lost = generate(group, old=old)
        changed = write_if_changed(path, text)
        # validation is a function of (generated text, source files, translator): skip it when that triple was validated before
        h = hashlib.sha256(text.encode())
        for f in sorted({t['kw'].get('file') or GROUPS[group]['src'] for t in GROUPS[group]['targets']}):
            h.update(open(os.path.join(REPO, f), 'rb').read())
        for f in (__file__, pyarith.__file__):
            h.update(open(f, 'rb').read())
        h.update(repr([(t['lean'], t['how'], t['binds'], t['params'], t['ret'], t['grid']) for t in GROUPS[group]['targets']]).encode())
        stamp = os.path.join(LEAN, '.lake', f'srcval_{group}.stamp')
        try:
            cached = open(stamp).read() == h.hexdigest()
        except OSError:
            cached = False
        bad = {} if cached else validate(group, [d for d in info])
        if not bad and not cached and not lost:
            try:
                with open(stamp, 'w') as f:
                    f.write(h.hexdigest())
            except OSError:
                pass
        if bad:                      # the translation does not compute what Python computes: do not keep it
            text, info, lost = generate(group, force_old=bad, old=old)
            changed = write_if_changed(path, text) or changed
        if lost:
            raise Untranslatable(f'kept the previous translation of {lost}; regenerated {sorted(info)} (file changed: {changed})')
        return changed, info
    regenerate.__name__ = f'regenerate_{group}'
    return regenerate


# ---------------------------------------------------------------------------- translator validation

class _Subst(ast.NodeTransformer):
    def __init__(self, binds):
        self.binds = binds

    def visit(self, node):
        if isinstance(node, ast.expr) and not isinstance(getattr(node, 'ctx', None), (ast.Store, ast.Del)):
            key = ast.unparse(node)
            if key in self.binds:
                return ast.copy_location(ast.Name(id='p__' + self.binds[key][0], ctx=ast.Load()), node)
        return self.generic_visit(node)


def py_value(t, fn, pt):
    """Runs the SOURCE code that definition t was translated from on the point pt (Python semantics).  'exc' = it raised."""
    import copy
    import math
    what, node = pyarith.pick(fn, t['how'])
    env = {'p__' + n: pt[n] for n in pt}
    env.update(math=math, __builtins__={'bin': bin, 'len': len, 'min': min, 'max': max, 'abs': abs, 'int': int, 'sum': sum, 'bool': bool, 'bytes': bytes,
                                        'Exception': Exception, 'ValueError': ValueError})
    for u in t['kw'].get('unwrap', ()):
        env[u] = lambda x: x
    binds = t['binds']
    fargs, fvals = [], []
    if what == 'block':          # inputs that the block assigns to (`i += 4`, `self.flag = True`) stay variables: passed as arguments
        stored = {ast.unparse(x) for st in node for x in ast.walk(st) if isinstance(getattr(x, 'ctx', None), ast.Store)}
        keep = {k for k in binds if k in stored}
        binds = {k: v for k, v in binds.items() if k not in keep}
        import types
        for k in sorted(keep):
            base, _, attr = k.partition('.')
            if attr:
                if base not in fargs:
                    fargs.append(base)
                    fvals.append(types.SimpleNamespace())
                setattr(fvals[fargs.index(base)], attr, pt[t['binds'][k][0]])
            else:
                fargs.append(base)
                fvals.append(pt[t['binds'][k][0]])
    sub = _Subst(binds)
    try:
        if what == 'expr':
            v = eval(compile(ast.fix_missing_locations(ast.Expression(body=sub.visit(copy.deepcopy(node)))), '<src>', 'eval'), env)
        else:
            body = [sub.visit(copy.deepcopy(x)) for x in node]
            f = ast.FunctionDef(name='f__', args=ast.arguments(posonlyargs=[], args=[ast.arg(arg=a) for a in fargs], kwonlyargs=[], kw_defaults=[], defaults=[]),
                                body=body, decorator_list=[], type_params=[])
            exec(compile(ast.fix_missing_locations(ast.Module(body=[f], type_ignores=[])), '<src>', 'exec'), env)
            if t['ret'] == 'raises':
                try:
                    env['f__'](*fvals)
                    v = False
                except Exception:
                    v = True
            else:
                v = env['f__'](*fvals)
    except Exception:
        return 'exc'
    if isinstance(v, (bytes, bytearray)) and t['ret'] != 'Bytes':
        v = int.from_bytes(v, 'big')
    if t['ret'] in ('Bool', 'raises'):
        return 'true' if v else 'false'
    if t['ret'] == 'Bytes':
        return '[' + ','.join(str(b) for b in v) + ']'
    return str(int(v))


def validate(group, defs, per_def=300):
    """Differential validation of the TRANSLATOR: the regenerated Lean definition, evaluated by Lean, must return on every
    sampled grid point what the Python source returns (points where Python raises are skipped).  -> {definition: reason}."""
    g = GROUPS[group]
    lines = [f'import TonVerif.Generated.{group}', 'open TonVerif TonVerif.Generated'] + PRELUDE
    work = []
    trees = {}
    for t in g['targets']:
        if t['lean'] not in defs or not t['params']:
            continue
        decl = {n: ty for n, ty in t['binds'].values()}
        ps = t['params']
        pts = [[]]
        for p_ in ps:
            pts = [x + [v] for x in pts for v in t['grid'][p_]]
        pts = pts[::max(1, len(pts) // per_def)]
        enc = ' '.join(_enc(v) for pt in pts for v in pt)
        lets = ' '.join(f'let {q} : {decl[q]} := {_conv(q, decl[q])};' for q in ps)
        pat = ', '.join('x_' + q for q in ps)
        lines.append(f'def v_{t["lean"]} : List Int := parseInts "{enc}"')
        lines.append(f'partial def go_{t["lean"]} : List Int → List String → List String\n'
                     f'  | {" :: ".join("x_" + q for q in ps)} :: rest, acc => {lets} go_{t["lean"]} rest ((if decide ({t["lean"]}_sideOk {" ".join(ps)}) then (toString ({t["lean"]} {" ".join(ps)})).replace " " "" else "?") :: acc)\n'
                     f'  | _, acc => acc.reverse')
        lines.append(f'#eval IO.println (s!"VAL {t["lean"]} " ++ String.intercalate " " (go_{t["lean"]} v_{t["lean"]} []))')
        work.append((t, pts))
    if not work:
        return {}
    tmp = os.path.join(LEAN, f'.srcval_{os.getpid()}.lean')
    with open(tmp, 'w') as f:
        f.write('\n'.join(lines) + '\n')
    try:
        _lake_build([f'TonVerif.Generated.{group}'])
        p = subprocess.run(['lake', 'env', 'lean', tmp], cwd=LEAN, capture_output=True, text=True, timeout=600)
    finally:
        os.unlink(tmp)
    bad = {}
    for t, pts in work:
        m = re.search(r'^VAL ' + t['lean'] + r' (.*)$', p.stdout, re.M)
        if not m:
            bad[t['lean']] = 'validation: the regenerated definition could not be evaluated: ' + (p.stdout + p.stderr)[-200:]
            continue
        got = m.group(1).split()
        file = t['kw'].get('file') or g['src']
        if file not in trees:
            trees[file] = ast.parse(open(os.path.join(REPO, file)).read())
        fn = pyarith.find_def(trees[file], t['cls'], t['fn'])
        for pt, lv in zip(pts, got):
            d = dict(zip(t['params'], [bool(v) if dict(t['binds'].values())[n] == 'Bool' else v for n, v in zip(t['params'], pt)]))
            pv = py_value(t, fn, d)
            if pv != 'exc' and lv != '?' and pv != lv:     # '?': a side condition fails there (the theorem must refute it, not the sampler)
                bad[t['lean']] = f'validation: Lean computes {lv}, Python computes {pv} at {d}'
                break
    return bad


# ---------------------------------------------------------------------------- search hook

def _conv(name, ty):
    return {'Nat': f'(x_{name}).toNat', 'Int': f'x_{name}', 'Bool': f'(x_{name} != 0)', 'Bytes': f'(decodeBytes (x_{name}).toNat)'}[ty]


def _enc(v):
    """grid values travel as integers; bytes as the big-endian number of 01 ++ bytes"""
    return str(int.from_bytes(b'\x01' + v, 'big')) if isinstance(v, (bytes, bytearray)) else str(int(v))


def _dec(v, ty):
    if ty == 'Bool':
        return bool(v)
    if ty == 'Bytes':
        return v.to_bytes((v.bit_length() + 7) // 8, 'big')[1:]
    return v


PRELUDE = ['def parseInts (s : String) : List Int := (s.splitOn " ").filterMap String.toInt?',
           'partial def digits256 (n : Nat) (acc : List Nat) : List Nat := if n < 256 then n :: acc else digits256 (n / 256) (n % 256 :: acc)',
           'def decodeBytes (n : Nat) : List Nat := (digits256 n []).drop 1']


def diff_points(groups, limit=16, timeout=600):
    """Evaluates, in Lean, every regenerated definition against the function it is proved equal to (`ref`) on a grid
    of boundary values and returns ({definition: [ {param: value} ... ] | None}, error text): the points where they differ
    (restricted to the guard, if any); None = could not be evaluated.  Needs only `lake env lean` on the
    Generated/Model/Spec modules (not the proofs).  Grid values travel as strings (parsed in Lean) to keep elaboration cheap."""
    ref_imports = sorted({i for g in groups for i in GROUPS[g].get('ref_imports', [])})
    lines = ['import TonVerif.Model.Cell', 'import TonVerif.Spec.Cell', 'import TonVerif.Spec.TlbPrim'] + [f'import {i}' for i in ref_imports]
    lines += [f'import TonVerif.Generated.{g}' for g in groups]
    lines += ['open TonVerif TonVerif.Generated'] + PRELUDE
    order = []
    for g in groups:
        for t in GROUPS[g]['targets']:
            if not t['ref']:
                continue
            ps = t['params']
            decl = {n: ty for n, ty in t['binds'].values()}
            order.append(t)
            if not ps:
                lines.append(f'#eval IO.println (s!"PT {t["lean"]} " ++ (if ({t["lean"]}) == ({t["ref"]}) then "[]" else "[0]"))')
                continue
            for p_ in ps:
                vals = ' '.join(_enc(v) for v in t['grid'][p_])
                lines.append(f'def g_{t["lean"]}_{p_} : List Int := parseInts "{vals}"')
            prod = f'g_{t["lean"]}_{ps[-1]}.map (fun x_{ps[-1]} => [{", ".join("x_" + q for q in ps)}])'
            for p_ in reversed(ps[:-1]):
                prod = f'g_{t["lean"]}_{p_}.flatMap (fun x_{p_} => {prod})'
            lets = ' '.join(f'let {q} : {decl[q]} := {_conv(q, decl[q])};' for q in ps)
            pat = ' '.join(f'| [{", ".join("x_" + q for q in ps)}] => {lets} ' for _ in [0])
            guard = f'decide ({t["guard"]}) && ' if t['guard'] else ''
            lines.append(f'#eval IO.println (s!"PT {t["lean"]} " ++ toString ((({prod}).filter (fun (pt : List Int) => match pt with '
                         f'{pat}({guard}(!decide ({t["lean"]}_sideOk {" ".join(ps)}) || !(({t["lean"]} {" ".join(ps)}) == ({t["ref"]})))) | _ => false)).take {limit}))')
    tmp = os.path.join(LEAN, f'.srcdiff_{os.getpid()}.lean')
    with open(tmp, 'w') as f:
        f.write('\n'.join(lines) + '\n')
    try:
        _lake_build([f'TonVerif.Generated.{g}' for g in groups] + ['TonVerif.Model.Cell', 'TonVerif.Spec.Cell'] + ref_imports)   # oleans of the current text
        p = subprocess.run(['lake', 'env', 'lean', tmp], cwd=LEAN, capture_output=True, text=True, timeout=timeout)
    finally:
        os.unlink(tmp)
    res = {}
    for t in order:
        m = re.search(r'^PT ' + t['lean'] + r' (.*)$', p.stdout, re.M)
        if not m:
            res[t['lean']] = None          # could not be evaluated
            continue
        decl = {n: ty for n, ty in t['binds'].values()}
        pts = []
        if not t['params']:
            pts = [{}] if m.group(1).strip() == '[0]' else []
        else:
            for tup in re.findall(r'\[([-0-9, ]+)\]', m.group(1)):
                vals = [int(x) for x in tup.split(',')]
                pts.append({n: _dec(v, decl[n]) for n, v in zip(t['params'], vals)})
        res[t['lean']] = pts
    return res, ((p.stdout + p.stderr)[-400:] if p.returncode else '')


def search_points(ctx, groups):
    """For harness search mode: differing points of the groups' definitions; never raises."""
    try:
        res, err = diff_points(groups)
    except Exception as e:   # the search is best effort
        ctx.notes.append(f'source-diff search failed: {type(e).__name__}: {e}')
        return {}
    if err:
        ctx.notes.append(f'source-diff search: lean said {err}')
    found = {k: v for k, v in res.items() if v}
    ctx.notes.append('source-diff search (regenerated definition vs hand model/spec on boundary grid): '
                     + (', '.join(f'{k}: {v[:3]}' for k, v in found.items()) or 'no differing point'))
    return found
