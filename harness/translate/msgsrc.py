"""Regenerates lean/TonVerif/Generated/MsgSrc.lean from the current source of the message classes: the WHOLE `serialize` and
`deserialize` methods of MessageAny, CommonMsgInfo, InternalMsgInfo, ExternalMsgInfo, ExternalOutMsgInfo (tlb/transaction.py),
StateInit, TickTock (tlb/account.py), CurrencyCollection, ExtraCurrencyCollection (tlb/block.py), with the TL-B codec translator
pytlb.py; validates the translation against the running library (the request lines and library answers of the C15 harness) and
evaluates regenerated functions vs hand model (search hook).

Theorems: Proofs/SrcMsg.lean (`src_*_eq`), referenced by Properties/C15.lean `c15_src_*`.
"""
import ast
import hashlib
import os
import random
import re
import subprocess

from . import pytlb, pybytes
from .pytlb import Config, SEM, UINT, BUILT, REF, BODYV, INT, BOOL, NONE, OPT
from .vmsrc import BUILDER_OPS, BUILDER_TERMS, SLICE_OPS
from .pyexpr import Untranslatable
from .arith import write_if_changed, _lake_build
from ..paths import REPO, LEAN

TX, ACC, BLK = 'pytoniq_core/tlb/transaction.py', 'pytoniq_core/tlb/account.py', 'pytoniq_core/tlb/block.py'
OUT = 'TonVerif/Generated/MsgSrc.lean'
NS = 'TonVerif.Generated.MsgSrc'

# ---- the declared interface (trusted; the value domain is the one of Spec/Tlb/Message.lean)
INFO, CUR, TT, SI, MSG = SEM('Info'), SEM('Currency'), SEM('TickTock'), SEM('StateInit'), SEM('Msg')
ADDR = 'Addr'
SEMS = {
    'Info': dict(lean='Info R', ctors={
        'int': [('ihr_disabled', BOOL), ('bounce', BOOL), ('bounced', BOOL), ('src', ADDR), ('dest', ADDR), ('value', CUR), ('ihr_fee', INT),
                ('fwd_fee', INT), ('created_lt', INT), ('created_at', INT)],
        'extIn': [('src', ADDR), ('dest', ADDR), ('import_fee', INT)],
        'extOut': [('src', ADDR), ('dest', ADDR), ('created_lt', INT), ('created_at', INT)]}),
    # `other` (an ExtraCurrencyCollection) is the optional root cell of its dictionary: the HashMap codec is C09/C10's subject
    'Currency': dict(lean='Currency R', ctors={'mk': [('grams', INT), ('other', OPT(REF))]}),
    'TickTock': dict(lean='TickTock', ctors={'mk': [('tick', BOOL), ('tock', BOOL)]}),
    'StateInit': dict(lean='StateInit R', ctors={'mk': [('split_depth', OPT(INT)), ('special', OPT(TT)), ('code', OPT(REF)), ('data', OPT(REF)),
                                                        ('library', OPT(REF))]}),
    # the body cell is held by its content (bits, refs); `store_ref(self.body)` makes the cell object from it
    'Msg': dict(lean='Msg R', ctors={'mk': [('info', INFO), ('init', OPT(SI)), ('body', BODYV)]}),
}
CLASSES = {
    'MessageAny': dict(file=TX, repr=MSG, ctor='mk', init=['info', 'init', 'body']),
    'CommonMsgInfo': dict(file=TX, repr=INFO, ctor=None, init=[]),
    'InternalMsgInfo': dict(file=TX, repr=INFO, ctor='int', init=['ihr_disabled', 'bounce', 'bounced', 'src', 'dest', 'value', 'ihr_fee', 'fwd_fee',
                                                                 'created_lt', 'created_at']),
    'ExternalMsgInfo': dict(file=TX, repr=INFO, ctor='extIn', init=['src', 'dest', 'import_fee']),
    'ExternalOutMsgInfo': dict(file=TX, repr=INFO, ctor='extOut', init=['src', 'dest', 'created_lt', 'created_at']),
    'StateInit': dict(file=ACC, repr=SI, ctor='mk', init=['split_depth', 'special', 'code', 'data', 'library']),
    'TickTock': dict(file=ACC, repr=TT, ctor='mk', init=['tick', 'tock']),
    'CurrencyCollection': dict(file=BLK, repr=CUR, ctor='mk', init=['grams', 'other']),
    'ExtraCurrencyCollection': dict(file=BLK, repr=OPT(REF), identity=True),
}
BASES = {'MessageAny': 'TlbScheme', 'CommonMsgInfo': 'TlbScheme', 'InternalMsgInfo': 'CommonMsgInfo', 'ExternalMsgInfo': 'CommonMsgInfo',
         'ExternalOutMsgInfo': 'CommonMsgInfo', 'StateInit': 'TlbScheme', 'TickTock': 'TlbScheme', 'CurrencyCollection': 'TlbScheme',
         'ExtraCurrencyCollection': 'TlbScheme'}


def _ser(t):
    return dict(params=[('self', t)], ret=BUILT, mode='opt', self=True)


def _de(t):
    return dict(params=[], ret=t, mode='sop')


SIGS = {
    ('ExtraCurrencyCollection', 'serialize'): _ser(OPT(REF)), ('CurrencyCollection', 'serialize'): _ser(CUR), ('TickTock', 'serialize'): _ser(TT),
    ('StateInit', 'serialize'): _ser(SI), ('InternalMsgInfo', 'serialize'): _ser(INFO), ('ExternalMsgInfo', 'serialize'): _ser(INFO),
    ('ExternalOutMsgInfo', 'serialize'): _ser(INFO),
    ('Info', 'serialize'): dict(_ser(INFO), dispatch=[('int', 'InternalMsgInfo'), ('extIn', 'ExternalMsgInfo'), ('extOut', 'ExternalOutMsgInfo')]),
    ('MessageAny', 'serialize'): _ser(MSG),
    ('ExtraCurrencyCollection', 'deserialize'): _de(OPT(REF)), ('CurrencyCollection', 'deserialize'): _de(CUR), ('TickTock', 'deserialize'): _de(TT),
    ('StateInit', 'deserialize'): _de(SI), ('InternalMsgInfo', 'deserialize'): _de(INFO), ('ExternalMsgInfo', 'deserialize'): _de(INFO),
    ('ExternalOutMsgInfo', 'deserialize'): _de(INFO), ('CommonMsgInfo', 'deserialize'): _de(INFO), ('MessageAny', 'deserialize'): _de(MSG),
}
OPAQUE = {
    ('ExtraCurrencyCollection', 'serialize'): {
        'HashMap(32, map_=self.dict, value_serializer=lambda src, dest: dest.store_var_uint(src, 5)).serialize()': ('self', OPT(REF), False)},
    ('ExtraCurrencyCollection', 'deserialize'): {
        'cell_slice.load_dict(32, value_deserializer=value_deserializer)': ('SOp.loadMaybeRef', OPT(REF), True)},
}
OPAQUE_DEFS = {('ExtraCurrencyCollection', 'deserialize'): ('value_deserializer',)}
CTX = {'opt': [('mk', 'Bits → List R → Option R')], 'sop': [('view', 'R → Bits × List R')]}

HEAD = ['/- GENERATED by harness/translate/msgsrc.py (pytlb.py) from the current source of', f'   {TX} (MessageAny, *MsgInfo), {ACC} (StateInit, TickTock), {BLK} (CurrencyCollection, ExtraCurrencyCollection):',
        '   the whole serialize / deserialize methods; do not edit.  Serialisers: `Option (Built R)` (`none` = raises; `mk` = Builder.end_cell);',
        '   deserialisers: `SOp R _` on the slice being consumed.  An extra-currency dictionary is its optional root cell. -/',
        'import TonVerif.PyInt', 'import TonVerif.PyBytes', 'import TonVerif.PyTlb', 'import TonVerif.Model.VmStack', 'import TonVerif.Spec.Tlb.Message',
        'set_option linter.unusedVariables false', f'namespace {NS}', 'open TonVerif TonVerif.Model TonVerif.Model.Vm TonVerif.Spec.Tlb', '',
        'variable {R : Type}', '']


def _store_bit_terms():
    ops = {k: [list(x) for x in v] for k, v in BUILDER_OPS.items()}
    ops['store_ref'] = [[REF, BUILT, BODYV, 'chunk:cell']]
    ops['store_cell'] = [[BUILT, BODYV, 'chunk:cell']]
    return ops


def config():
    trees = {f: ast.parse(open(os.path.join(REPO, f)).read()) for f in (TX, ACC, BLK)}
    classes = {}
    for name, d in CLASSES.items():
        tree = trees[d['file']]
        cs = [n for n in tree.body if isinstance(n, ast.ClassDef) and n.name == name]
        if len(cs) != 1:
            raise Untranslatable(f'class {name} not found in {d["file"]}')
        if [ast.unparse(b) for b in cs[0].bases] != [BASES[name]] or cs[0].keywords or cs[0].decorator_list:
            raise Untranslatable(f'{name} is not `class {name}({BASES[name]})`')
        for n in cs[0].body:
            if isinstance(n, ast.FunctionDef) and n.name in ('__getattr__', '__getattribute__', '__setattr__', '__new__', '__bool__', '__len__'):
                raise Untranslatable(f'{name} defines {n.name}')
        # the constructor stores its parameters under the declared attribute names
        if d.get('init'):
            init = [n for n in cs[0].body if isinstance(n, ast.FunctionDef) and n.name == '__init__']
            if len(init) != 1 or [a.arg for a in init[0].args.args][1:] != d['init']:
                raise Untranslatable(f'{name}.__init__ parameters are not {d["init"]}')
            stores = {ast.unparse(s) for s in ast.walk(init[0]) if isinstance(s, (ast.Assign, ast.AnnAssign))}
            for a in d['init']:
                if f'self.{a} = {a}' not in stores:
                    raise Untranslatable(f'{name}.__init__ does not store `self.{a} = {a}`')
        classes[name] = dict(d, node=cs[0], src=d['file'])
    ecc = classes['ExtraCurrencyCollection']['node']
    init = [n for n in ecc.body if isinstance(n, ast.FunctionDef) and n.name == '__init__']
    if len(init) != 1 or ast.unparse(init[0]) != 'def __init__(self, dict_: dict):\n    self.dict = dict_':
        raise Untranslatable('ExtraCurrencyCollection.__init__ is not the declared dictionary wrapper')
    for f, tree in trees.items():
        for n in ast.walk(tree):
            if isinstance(n, ast.Name) and isinstance(n.ctx, (ast.Store, ast.Del)) and n.id in CLASSES:
                raise Untranslatable(f'{n.id} is rebound in {f}')
    return Config(sem=SEMS, classes=classes, sigs=SIGS, ctx=CTX, threaded=set(), passthrough=set(), opaque=OPAQUE, opaque_defs=OPAQUE_DEFS,
                  builder_ops=_store_bit_terms(), builder_terms=BUILDER_TERMS, slice_ops=SLICE_OPS,
                  builder_props={'available_bits': 'Py.Tlb.availableBits', 'available_refs': 'Py.Tlb.availableRefs'},
                  static_isinstance={}, list_attr='list', builder_class='Builder', slice_class='Slice', cell_class='Cell',
                  slice_param='cell_slice', extra_types={ADDR: 'Addr'})


def translate_all():
    return pytlb.Program(config()).translate_all()


def committed_text():
    try:
        r = subprocess.run(['git', '-C', os.path.dirname(LEAN), 'show', f'HEAD:lean/{OUT}'], capture_output=True, text=True, timeout=20)
        if r.returncode == 0 and r.stdout.startswith('/- GENERATED') and f'namespace {NS}' in r.stdout:
            return r.stdout
    except Exception:
        pass
    return None


def generate(old=None):
    path = os.path.join(LEAN, OUT)
    if old is None:
        try:
            old = open(path).read()
        except FileNotFoundError:
            old = None
    try:
        defs = translate_all()
    except (Untranslatable, SyntaxError, OSError, RecursionError) as e:
        keep = committed_text() or old
        if keep is None:
            raise Untranslatable(f'{e} (and no previous translation to keep)')
        return keep, {}, {'MsgSrc': f'{type(e).__name__}: {e}'}
    out = list(HEAD)
    for name, text in defs:
        out += [f'-- BEGIN {name}', text.rstrip('\n'), f'-- END {name}', '']
    out.append(f'end {NS}')
    return '\n'.join(out) + '\n', {n: 'regenerated' for n, _ in defs}, {}


def regenerate():
    path = os.path.join(LEAN, OUT)
    try:
        old = open(path).read()
    except FileNotFoundError:
        old = None
    text, info, lost = generate(old=old)
    changed = write_if_changed(path, text)
    h = hashlib.sha256(text.encode())
    for f in (TX, ACC, BLK, 'pytoniq_core/boc/builder.py', 'pytoniq_core/boc/slice.py'):
        h.update(open(os.path.join(REPO, f), 'rb').read())
    for f in (__file__, pytlb.__file__, pybytes.__file__, pybytes.pyarith.__file__, os.path.join(LEAN, 'TonVerif/PyTlb.lean'),
              os.path.join(LEAN, 'TonVerif/Model/Builder.lean'), os.path.join(os.path.dirname(os.path.dirname(__file__)), 'props', 'C15.py')):
        h.update(open(f, 'rb').read())
    stamp = os.path.join(LEAN, '.lake', 'srcval_MsgSrc.stamp')
    try:
        cached = open(stamp).read() == h.hexdigest()
    except OSError:
        cached = False
    n = None
    if not cached and not lost:
        bad, n = validate()
        if bad:
            keep = committed_text() or old
            if keep is None:
                raise Untranslatable(bad)
            changed = write_if_changed(path, keep) or changed
            lost = {'MsgSrc': bad}
        else:
            try:
                with open(stamp, 'w') as f:
                    f.write(h.hexdigest())
            except OSError:
                pass
    if lost:
        raise Untranslatable(f'kept the previous translation: {lost} (file changed: {changed})')
    return changed, {'definitions': sorted(info), 'validated': 'cached' if cached else
                     f'Lean evaluation = the library on {n} requests (messages, state-inits, currency collections: serialize and parse)'}


# ---------------------------------------------------------------------------- structured inputs

OPS = ('msgser', 'msgpar', 'siser', 'sipar', 'ccser', 'ccpar')


class _Rec:
    """stands in for the harness context: records the model requests of the C15 harness together with what the LIBRARY answered"""
    search = False
    thorough = False
    driver_ok = True

    def __init__(self, seed):
        self.rng = random.Random(seed)
        self.lines = []
        self.failures = []
        self.notes = []

    def n(self, q, t):
        return q

    def case(self, *a, **k):
        pass

    def count(self, *a, **k):
        pass

    def fail(self, *a, **k):
        pass

    def corr_broken(self, *a, **k):
        pass

    def expect_model(self, line, expected, detail):
        op = line.split(' ', 1)[0]
        if op not in OPS:
            return
        if op.endswith('par'):
            # the harness records the EXPECTED logical value for a parse request (and reports a library that differs as a failure);
            # the translator validation needs what the library's parser really returns on that cell
            expected = _lib_parse(op, line)
        self.lines.append((line, expected))


def _lib_parse(op, line):
    from ..gen import cells as G
    from ..gen import msgs as M
    _, dag, node = line.split(' ')
    nodes = []
    for t in dag.split('|'):
        k, b, r = t.split(',')
        nodes.append((int(k), '' if b == '-' else b, tuple(int(x) for x in r.split('.')) if r != '-' else ()))
    cell = G.lib_build(nodes)[int(node)]
    try:
        if op == 'msgpar':
            from pytoniq_core.tlb.transaction import MessageAny
            return 'ok ' + M.canon_lib_msg(MessageAny.deserialize(cell.begin_parse()))
        if op == 'sipar':
            from pytoniq_core.tlb.account import StateInit
            return 'ok ' + M.canon_lib_init(StateInit.deserialize(cell.begin_parse()))
        from pytoniq_core.tlb.block import CurrencyCollection
        return 'ok ' + M.canon_lib_currency(CurrencyCollection.deserialize(cell.begin_parse()))
    except RecursionError:
        raise
    except Exception:
        return 'err'


def harness_requests(seed=20240921, nrand=150):
    """[(request line, library answer)]: the boundary sweep, random messages, state-inits and currency collections of the C15
    harness (deterministic)"""
    from ..props import C15
    from ..gen import msgs as M
    from ..gen import scripts as S
    rec = _Rec(seed)
    pool = M.leaf_pool(rec.rng)
    f17 = dict(info=('I', True, False, False, ['s', 0, '11' * 32], ['s', 0, '11' * 32], 5, {1: 5}, 0, 0, 0, 0),
               init=dict(sd=None, tt=None, code=pool[1], data=pool[1], lib=pool[1]), body=M.mk_cell('', [pool[1]]))
    C15.check_msg(rec, f17, 'F17')
    C15.sweep(rec, pool)
    C15.header_limit(rec, pool)
    C15.random_msgs(rec, pool, nrand)
    for nr in range(4):
        for sd in (False, True):
            for tt in (False, True):
                C15.check_state_init(rec, M.rand_state_init(rec.rng, pool, nrefs=nr, sd=sd, tt=tt), 'si-shape')
    for t in range(20):
        C15.check_state_init(rec, M.rand_state_init(rec.rng, pool), 'si')
    for nb in range(0, 16):
        for v in S.varint_values(nb)[0]:
            C15.check_currency(rec, v, M.rand_extra(rec.rng, rec.rng.choice([0, 1, 3])), 'cc-grams')
    seen, out = set(), []
    for l in rec.lines:
        if l[0] not in seen:
            seen.add(l[0])
            out.append(l)
    # the boundary sweep is large: every fourth message request of it, everything else
    keep = [l for i, l in enumerate(out) if not l[0].startswith('msg') or i % 4 == 0]
    return keep


LEAN_EVAL = """import TonVerif.Drv.Message
import TonVerif.Generated.MsgSrc
open TonVerif TonVerif.Model TonVerif.Model.Vm TonVerif.Spec.Tlb TonVerif.Drv TonVerif.Drv.Msg TonVerif.Generated.MsgSrc
def rv (c : RCell) : Bits × List RCell := (c.bits, c.refs)
def genLine (l : String) : String :=
  match l.splitOn " " with
  | ["msgser", dag, m] => withDag dag fun ctx => do pure (showCell ((MessageAny_serialize mkCell (← pMsg ctx m)).map (·.cell)))
  | ["msgpar", dag, n] => withDag dag fun ctx => do
      let c ← node ctx n
      pure (showOpt showMsg ((MessageAny_deserialize rv ⟨c.bits, c.refs⟩).2))
  | ["siser", dag, s] => withDag dag fun ctx => do pure (showCell ((StateInit_serialize mkCell (← pStateInit ctx s)).map (·.cell)))
  | ["sipar", dag, n] => withDag dag fun ctx => do
      let c ← node ctx n
      pure (showOpt showStateInit ((StateInit_deserialize rv ⟨c.bits, c.refs⟩).2))
  | ["ccser", dag, g, d] => withDag dag fun ctx => do
      pure (showCell ((CurrencyCollection_serialize mkCell ⟨← g.toInt?, ← optNode ctx d⟩).map (·.cell)))
  | ["ccpar", dag, n] => withDag dag fun ctx => do
      let c ← node ctx n
      pure (showOpt showCurrency ((CurrencyCollection_deserialize rv ⟨c.bits, c.refs⟩).2))
  | _ => "bad-op"
def modLine (l : String) : String :=
  match l.splitOn " " with
  | op :: args => (Msg.handle? op args).getD "bad-op"
  | _ => "bad-op"
def runLine (mode : String) (l : String) : String :=
  if mode == "val" then genLine l else (if genLine l == modLine l then "same" else "DIFF")
"""


def lean_eval(lines, mode):
    tmp = os.path.join(LEAN, f'.srcmsg_{os.getpid()}.lean')
    inp = os.path.join(LEAN, f'.srcmsg_{os.getpid()}.txt')
    with open(inp, 'w') as f:
        f.write('\n'.join(lines) + '\n')
    src = LEAN_EVAL + f'\n#eval (do let txt ← IO.FS.readFile "{inp}"; for l in (txt.splitOn "\\n") do (if l != "" then IO.println ("VAL " ++ runLine "{mode}" l) else pure ()) : IO Unit)\n'
    with open(tmp, 'w') as f:
        f.write(src)
    try:
        _lake_build(['TonVerif.Generated.MsgSrc', 'TonVerif.Drv.Message'])
        p = subprocess.run(['lake', 'env', 'lean', tmp], cwd=LEAN, capture_output=True, text=True, timeout=1200)
    finally:
        for x in (tmp, inp):
            try:
                os.unlink(x)
            except OSError:
                pass
    got = re.findall(r'^VAL (.*)$', p.stdout, re.M)
    if len(got) != len(lines) or 'bad-op' in got:
        raise RuntimeError('lean evaluation failed: ' + (p.stdout + p.stderr)[-400:])
    return got


def validate():
    """Lean evaluation of the regenerated methods = what the library answered on the same requests.  -> (None | reason, n)"""
    try:
        cases = harness_requests()
    except Exception as e:
        return f'validation: the library could not be run on the validation inputs: {type(e).__name__}: {e}', 0
    try:
        got = lean_eval([c[0] for c in cases], 'val')
    except Exception as e:
        return f'validation: the regenerated definitions could not be evaluated: {e}', len(cases)
    for (line, want), g in zip(cases, got):
        if g != want:
            return f'validation: on `{line[:60]} .. {line[-160:]}` Lean computes "{g[:160]}", the library computes "{want[:160]}"', len(cases)
    return None, len(cases)


def diff_requests(ctx, lines):
    """search hook: the request lines on which the regenerated method and the hand model differ (evaluated by Lean).  Never raises."""
    if not lines:
        return []
    try:
        got = lean_eval(lines, 'diff')
    except Exception as e:
        ctx.notes.append(f'source-diff search (MsgSrc) failed: {type(e).__name__}: {e}')
        return []
    found = [l for l, g in zip(lines, got) if g == 'DIFF']
    ctx.notes.append(f'source-diff search: regenerated message methods vs hand model on {len(lines)} requests: '
                     + (f'{len(found)} differ, e.g. {found[0][:60]} .. {found[0][-100:]}' if found else 'no difference'))
    return found


if __name__ == '__main__':
    text, info, lost = generate(old='')
    print(info, lost)
    if not lost:
        print(write_if_changed(os.path.join(LEAN, OUT), text))
