"""Python -> Lean translator for "conversion glue" read at the VALUE level: short methods / classmethods that build a new object
from the attributes of another one, or parse an input and pick a result (the `one_from_boc` entry points, `begin_parse`,
`to_builder`, `copy`, `to_cell`, `end_cell`).  The companion of pyheap.py (same statement subset, which reads the same methods as
alias-graph transformers): here a container is its CONTENT (`x.copy()` is `x`, `xs[k:]` is `xs.drop k`) and every method is

    def <Class>_<method> (H : Bytes → Bytes) (<parameter> : T) : Option R        `none` = the Python code raises

No knowledge of pytoniq: the classes, the Lean reading of their attributes, the constructors, library calls and their meaning are
DECLARED by the caller (entrysrc.py) and checked against the source there.

SUBSET
  types       BITS, LIST(<Class>) (a list of objects), INT, NAT, BOOL, OBJ(<Class>), OPT(<Class>) (an object or None), OPTLIST(<Class>)
              (a list whose items may be None), declared opaque types (the `str | bytes` argument, a parsed container)
  expressions a local | a parameter | X.<attr> (declared attribute of the class of X: a Lean template; or a declared derived boolean
              given by an expression over the other attributes) | <Consts>.<name> | int literal | True | False | not b
              a == b | a != b | a < b | a <= b | a > b | a >= b   (ints)   | len(<list>)
              E.copy()            E : BITS | LIST -> E
              E[k:]               E : LIST, k : NAT -> E.drop k
              E[n]                E : OPTLIST, n a non-negative literal -> hoisted `E[n]?` (IndexError = none) : OPT
              C(a, b, c) | cls(a, b, c) in a classmethod of C    declared constructor (may raise)
              C()                 declared nullary constructor
              F(x)                declared library call (e.g. the container class taking the input)
              X.m(args)           declared primitive of the class / opaque type of X (e.g. `store_cell`, `deserialize`); an argument
                                  `cls` inside a classmethod of C is the declared class callback of C
              X.m()               another translated method of the class of X; X : OPT(C) raises on None (AttributeError)
  statements  x = E | if <bool>: raise ... | return E | `from .m import C` (checked) | docstring
"""
import ast

from .pyexpr import Untranslatable

BITS, INT, NAT, BOOL = 'bits', 'int', 'nat', 'bool'


def OBJ(c):
    return f'obj:{c}'


def OPT(c):
    return f'opt:{c}'


def LIST(c):
    return f'list:{c}'


def OPTLIST(c):
    return f'optlist:{c}'


class Decl:
    """classes: {name: dict(node=ClassDef, lean=<Lean type>, attrs={py attr: (type, template with {} | '=<expr over self>')},
                            ctor=(lean fn with H if needed, [arg types], raises) | None, nullary=lean term | None,
                            callback=lean term | None)}
       opaque:  {type name: lean type}
       calls:   {python callee text: dict(lean=, args=[types], ret=type, raises=bool)}
       prims:   {(receiver type, method): dict(lean=, args=[types | 'cls:<Class>'], ret=type | 'self', raises=bool, optional=n)}
       params:  {(class, method): [types of the parameters after self / cls]}
       consts:  {('CellTypes', 'ordinary'): -1, ...};  imports: {local name: (module, level)}"""

    def __init__(self, classes, opaque, calls, prims, params, consts, imports):
        self.classes, self.opaque, self.calls, self.prims = classes, opaque, calls, prims
        self.params, self.consts, self.imports = params, consts, imports
        self.defs, self.done, self.stack = [], {}, []

    def lean_ty(self, t):
        if t == BITS:
            return 'Bits'
        if t == INT:
            return 'Int'
        if t == NAT:
            return 'Nat'
        if t == BOOL:
            return 'Bool'
        if t.startswith('obj:'):
            return self.classes[t[4:]]['lean']
        if t.startswith('opt:'):
            return f'Option {self.par(self.classes[t[4:]]["lean"])}'
        if t.startswith('list:'):
            return f'List {self.par(self.classes[t[5:]]["lean"])}'
        if t.startswith('optlist:'):
            return f'List (Option {self.par(self.classes[t[8:]]["lean"])})'
        if t in self.opaque:
            return self.opaque[t]
        raise Untranslatable(f'no Lean type for {t}')

    @staticmethod
    def par(s):
        return f'({s})' if ' ' in s else s

    def find(self, cls, name):
        fs = [n for n in self.classes[cls]['node'].body if isinstance(n, ast.FunctionDef) and n.name == name]
        if len(fs) != 1:
            raise Untranslatable(f'method {cls}.{name} not found (or defined twice)')
        return fs[0]

    def method(self, cls, name):
        key = (cls, name)
        if key in self.done:
            return self.done[key]
        if key in self.stack:
            raise Untranslatable(f'recursive method {cls}.{name}')
        self.stack.append(key)
        try:
            info = VTr(self, cls, self.find(cls, name)).translate()
        finally:
            self.stack.pop()
        self.done[key] = info
        self.defs.append((info['lean'], info['text']))
        return info


class VTr:
    def __init__(self, decl, cls, fn):
        self.d, self.cls, self.fn = decl, cls, fn
        decs = [ast.unparse(x) for x in fn.decorator_list]
        self.classmethod = decs == ['classmethod']
        if decs not in ([], ['classmethod']):
            raise Untranslatable(f'{cls}.{fn.name} is decorated')
        a = fn.args
        if a.vararg or a.kwarg or a.kwonlyargs or a.posonlyargs or a.defaults:
            raise Untranslatable(f'{fn.name}: parameter list')
        names = [x.arg for x in a.args]
        if not names or names[0] != ('cls' if self.classmethod else 'self'):
            raise Untranslatable(f'{fn.name}: first parameter {names[:1]}')
        ptypes = decl.params.get((cls, fn.name), [])
        if len(ptypes) != len(names) - 1:
            raise Untranslatable(f'{fn.name}: has {len(names) - 1} parameters, {len(ptypes)} are declared')
        self.env = {}
        self.sig = []
        if not self.classmethod:
            self.env['self'] = ('self', OBJ(cls))
            self.sig.append(('self', OBJ(cls)))
        for n, t in zip(names[1:], ptypes):
            if n in ('H', 'self', 'cls') or not n.isidentifier():
                raise Untranslatable(f'parameter name {n}')
            self.env[n] = (n, t)
            self.sig.append((n, t))
        self.n = 0
        self.lines = []
        self.ret = None

    def fresh(self, p):
        self.n += 1
        return f'{p}_{self.n}'

    def bind(self, term, prefix):
        v = self.fresh(prefix)
        self.lines.append(f'({term}).bind fun {v} =>')
        return v

    # ---- expressions -> (lean text, type)
    def expr(self, e):
        if isinstance(e, ast.Constant):
            if isinstance(e.value, bool):
                return ('true' if e.value else 'false'), BOOL
            if isinstance(e.value, int):
                return f'({e.value} : Int)', INT
            raise Untranslatable(f'constant {e.value!r}')
        if isinstance(e, ast.UnaryOp) and isinstance(e.op, ast.USub) and isinstance(e.operand, ast.Constant) and \
                isinstance(e.operand.value, int) and not isinstance(e.operand.value, bool):
            return f'(-{e.operand.value} : Int)', INT
        if isinstance(e, ast.UnaryOp) and isinstance(e.op, ast.Not):
            v, t = self.expr(e.operand)
            if t != BOOL:
                raise Untranslatable('not of a non-boolean')
            return f'(!{v})', BOOL
        if isinstance(e, ast.Name):
            if e.id in self.env:
                return self.env[e.id]
            raise Untranslatable(f'undeclared name {e.id}')
        if isinstance(e, ast.Attribute):
            if isinstance(e.value, ast.Name) and e.value.id not in self.env and (e.value.id, e.attr) in self.d.consts:
                return f'({self.d.consts[(e.value.id, e.attr)]} : Int)', INT
            base, bt = self.expr(e.value)
            if not bt.startswith('obj:'):
                raise Untranslatable(f'attribute .{e.attr} of a {bt}')
            at = self.d.classes[bt[4:]]['attrs'].get(e.attr)
            if at is None:
                raise Untranslatable(f'attribute {bt[4:]}.{e.attr} is not declared')
            t, tmpl = at
            if tmpl.startswith('='):                      # derived: an expression over the object's other attributes
                sub = VTr.__new__(VTr)
                sub.__dict__.update(self.__dict__)
                sub.env = {'self': (base, bt)}
                n_lines = len(self.lines)
                v, vt = sub.expr(ast.parse(tmpl[1:], mode='eval').body)
                if vt != t or len(self.lines) != n_lines:
                    raise Untranslatable(f'derived attribute {e.attr}')
                return v, t
            return tmpl.format(base), t
        if isinstance(e, ast.Compare) and len(e.ops) == 1:
            ops = {ast.Eq: '==', ast.NotEq: '!=', ast.Lt: '<', ast.LtE: '≤', ast.Gt: '>', ast.GtE: '≥'}
            op = ops.get(type(e.ops[0]))
            l, r = self.expr(e.left), self.expr(e.comparators[0])
            if op is None or l[1] not in (INT, NAT, BOOL) or r[1] not in (INT, NAT, BOOL) or (BOOL in (l[1], r[1]) and (l[1] != r[1] or op not in ('==', '!='))):
                raise Untranslatable(f'comparison {ast.unparse(e)[:40]}')
            lv, rv = l[0], r[0]
            if l[1] != r[1]:                              # a Nat against an Int literal
                lv = f'(({lv} : Nat) : Int)' if l[1] == NAT else lv
                rv = f'(({rv} : Nat) : Int)' if r[1] == NAT else rv
            return (f'({lv} {op} {rv})' if op in ('==', '!=') else f'(decide ({lv} {op} {rv}))'), BOOL
        if isinstance(e, ast.Subscript):
            base, bt = self.expr(e.value)
            s = e.slice
            if isinstance(s, ast.Slice):
                if not bt.startswith('list:') or s.upper is not None or s.step is not None or s.lower is None:
                    raise Untranslatable(f'subscript {ast.unparse(e)[:40]}')
                if isinstance(s.lower, ast.Constant) and isinstance(s.lower.value, int) and not isinstance(s.lower.value, bool) and s.lower.value >= 0:
                    k, kt = str(s.lower.value), NAT
                else:
                    k, kt = self.expr(s.lower)
                if kt != NAT:
                    raise Untranslatable('list slice bound is not a known non-negative int')
                return f'({base}.drop {k})', bt
            if bt.startswith('optlist:') and isinstance(s, ast.Constant) and isinstance(s.value, int) and not isinstance(s.value, bool) and s.value >= 0:
                return self.bind(f'{base}[{s.value}]?', 'item'), OPT(bt[8:])
            raise Untranslatable(f'subscript {ast.unparse(e)[:40]}')
        if isinstance(e, ast.Call):
            return self.call(e)
        raise Untranslatable(f'expression {ast.unparse(e)[:60]}')

    def args_of(self, e, want, what):
        if e.keywords or len(e.args) != len(want):
            raise Untranslatable(f'{what}: arguments')
        out = []
        for a, w in zip(e.args, want):
            if w.startswith('cls:'):
                if not (isinstance(a, ast.Name) and a.id == 'cls' and self.classmethod and self.cls == w[4:] and 'cls' not in self.env):
                    raise Untranslatable(f'{what}: the class argument is not `cls` of {w[4:]}')
                cb = self.d.classes[w[4:]].get('callback')
                if not cb:
                    raise Untranslatable(f'{w[4:]} has no declared class callback')
                out.append(cb)
                continue
            v, t = self.expr(a)
            if t != w:
                raise Untranslatable(f'{what}: argument of type {t}, expected {w}')
            out.append(v)
        return out

    def call(self, e):
        f = e.func
        txt = ast.unparse(f)
        if isinstance(f, ast.Name) and f.id == 'len' and len(e.args) == 1 and not e.keywords and 'len' not in self.env:
            v, t = self.expr(e.args[0])
            if t.startswith(('list:', 'optlist:')) or t == BITS:
                return f'{v}.length', NAT
            raise Untranslatable(f'len of a {t}')
        if isinstance(f, ast.Name) and f.id not in self.env:
            cname = self.cls if (f.id == 'cls' and self.classmethod) else f.id
            c = self.d.classes.get(cname)
            if c is not None:
                if not e.args and not e.keywords:
                    if not c.get('nullary'):
                        raise Untranslatable(f'{cname}() is not a declared constructor')
                    return c['nullary'], OBJ(cname)
                if not c.get('ctor'):
                    raise Untranslatable(f'{cname}(...) is not a declared constructor call')
                fn, want, raises = c['ctor']
                args = self.args_of(e, want, f'{cname}(...)')
                term = f'{fn} {" ".join(args)}'
                return (self.bind(term, 'obj') if raises else f'({term})'), OBJ(cname)
        if txt in self.d.calls and not (isinstance(f, ast.Name) and f.id in self.env):
            d = self.d.calls[txt]
            args = self.args_of(e, d['args'], txt)
            term = f'{d["lean"]} {" ".join(args)}'
            return (self.bind(term, 'call') if d['raises'] else f'({term})'), d['ret']
        if isinstance(f, ast.Attribute):
            if f.attr == 'copy' and not e.args and not e.keywords:
                base, bt = self.expr(f.value)
                if bt == BITS or bt.startswith('list:'):
                    return base, bt
            base, bt = self.expr(f.value)
            if bt.startswith('opt:'):                      # a method of an object that may be None: AttributeError on None
                base, bt = self.bind(base, 'recv'), OBJ(bt[4:])
            p = self.d.prims.get((bt, f.attr))
            if p is not None:
                want = list(p['args'])
                if len(e.args) < len(want) and len(want) - len(e.args) <= p.get('optional', 0):
                    dflt = p['defaults'][len(e.args) - len(want):]
                    args = self.args_of(ast.Call(func=f, args=list(e.args), keywords=e.keywords), want[:len(e.args)], f'.{f.attr}') + dflt
                else:
                    args = self.args_of(e, want, f'.{f.attr}')
                term = f'{p["lean"]} {base} {" ".join(args)}'.rstrip()
                rt = bt if p['ret'] == 'self' else p['ret']
                return (self.bind(term, 'call') if p['raises'] else f'({term})'), rt
            if not bt.startswith('obj:'):
                raise Untranslatable(f'method .{f.attr} of a {bt}')
            if e.args or e.keywords:
                raise Untranslatable(f'call of {bt[4:]}.{f.attr} with arguments')
            info = self.d.method(bt[4:], f.attr)
            if info['classmethod'] or [t for _, t in info['sig']] != [bt]:
                raise Untranslatable(f'{bt[4:]}.{f.attr} is not a method of one object')
            return self.bind(f'{info["lean"]} H {base}', 'call'), info['ret']
        raise Untranslatable(f'call {ast.unparse(e)[:60]}')

    def check_imports(self, fn):
        for s in ast.walk(fn):
            if isinstance(s, ast.ImportFrom):
                for a in s.names:
                    if a.asname or self.d.imports.get(a.name) != (s.module, s.level):
                        raise Untranslatable(f'import of {a.name} from {"." * s.level}{s.module}')
            elif isinstance(s, ast.Import):
                raise Untranslatable('import statement')

    # ---- statements
    def block(self, stmts):
        if not stmts:
            raise Untranslatable('control reaches the end of the method without return')
        s, rest = stmts[0], stmts[1:]
        if isinstance(s, ast.Expr) and isinstance(s.value, ast.Constant):
            return self.block(rest)
        if isinstance(s, ast.ImportFrom):
            return self.block(rest)
        if isinstance(s, ast.Return):
            if s.value is None:
                raise Untranslatable('bare return')
            v, t = self.expr(s.value)
            self.lean_ret = self.d.lean_ty(t)
            self.ret = t
            self.lines.append(f'some {v}')
            return
        if isinstance(s, ast.If):
            if s.orelse or len(s.body) != 1 or not isinstance(s.body[0], ast.Raise):
                raise Untranslatable('if statement other than `if c: raise`')
            n_lines = len(self.lines)
            c, t = self.expr(s.test)
            if t != BOOL or len(self.lines) != n_lines:
                raise Untranslatable('condition')
            self.lines.append(f'if {c} then none else')
            return self.block(rest)
        if isinstance(s, ast.Assign) and len(s.targets) == 1 and isinstance(s.targets[0], ast.Name):
            tg = s.targets[0]
            if tg.id in ('self', 'cls', 'H') or tg.id in self.d.classes or not tg.id.isidentifier():
                raise Untranslatable(f'assignment to {tg.id}')
            v, t = self.expr(s.value)
            nm = self.fresh(tg.id)
            self.lines.append(f'let {nm} : {self.d.lean_ty(t)} := {v}')
            self.env[tg.id] = (nm, t)
            return self.block(rest)
        raise Untranslatable(f'statement {ast.unparse(s)[:50]}')

    def translate(self):
        self.check_imports(self.fn)
        for n in ast.walk(self.fn):
            if isinstance(n, (ast.For, ast.While, ast.Try, ast.With, ast.Lambda, ast.Global, ast.Nonlocal, ast.Yield, ast.Await, ast.NamedExpr, ast.Starred)) or \
                    (isinstance(n, ast.FunctionDef) and n is not self.fn):
                raise Untranslatable(f'{self.fn.name}: {type(n).__name__}')
        self.block(list(self.fn.body))
        lean = f'{self.cls}_{self.fn.name}'
        text = ' '.join(ast.unparse(self.fn).split()).replace('-/', '- /').replace('/-', '/ -')
        body = '\n'.join('  ' + l for l in self.lines)
        ps = ' '.join(f'({n} : {self.d.lean_ty(t)})' for n, t in self.sig)
        return dict(lean=lean, ret=self.ret, sig=list(self.sig), classmethod=self.classmethod,
                    text=f'/-- {self.cls}.{self.fn.name}\n    source: `{text[:240]}` -/\n'
                         f'def {lean} (H : Bytes → Bytes) {ps} : Option ({self.lean_ret}) :=\n{body}\n')
