"""Python -> Lean translator for "glue code over declared primitives": module-level functions and methods that pass byte
strings through library primitives (hash, key agreement, cipher, signature ...), slice / concatenate / reverse / compare them,
decide with if / elif / else, and store the results in attributes of `self`.  Built on pyobj.py (methods, attributes, the
`Option` monad, callee-by-callee definitions) / pybytes.py / pyarith.py.  No knowledge of pytoniq: the classes, the attribute
types and EVERY library primitive are DECLARED by the caller (adnlsrc.py) as typed source patterns and checked there.

Every translated function / method becomes ONE Lean definition
    def <name> {W : Type} (P : Prims W) (<python parameter> : T)... (self_<attr> : T)... : Option R
`P` = the record of primitives (every declared primitive is a field of it or a hand-written `Py.*` function), `none` = the Python
code raises.  Parameters first (in source order), then the attributes of `self` the code reads (sorted by name).

ADDITIONS to the subset of pyobj.py
  types       an OPAQUE declared class (a key object, a cipher object ...) with a declared Lean representation; PAIR (a 2-tuple of
              bytes); `list:W` (a list of words, elements opaque); NONE (`None`, e.g. an unused default argument)
  expressions a declared primitive: a source PATTERN with typed holes `__x__`, e.g. `hashlib.sha256(__x__).digest()` -> `(P.H {x})`;
              the pattern must match the expression exactly (keywords included), the holes are translated and type-checked
              f(x..) for a module-level function of the same file -> its own definition (argument types from the call site;
                     missing trailing arguments take the DEFAULT of the definition, which must be `None` or a declared primitive)
              a < b, a > b, a <= b, a >= b on bytes -> Py.bytesLt;  x[::-1] on bytes -> x.reverse;  bytes(n) -> n zero bytes
              'text'.encode('utf-8') -> the byte literal;  NAME for a module-level int / bytes constant bound once, or a declared
              imported constant;  self.NAME for a class-level bytes constant that is never assigned;  math.floor(a / K) -> a / K
  statements  a, b = <PAIR> (`_` = ignored)
              try: <declared test primitive>; <return const>?  except <declared exception>: ...   -> if <test> then .. else ..
              return a and b / return a or b with a raising right operand -> if a: return b else: return False (True)
"""
import ast
import copy

from . import pyobj, pybytes
from .pyobj import MTr, NAT, INT, PROP, BOOL, BYTES, NONE, POISON, lname, par, is_self, is_self_attr, tpar
from .pyexpr import Untranslatable

PAIR = 'Bytes × Bytes'
WORDS = 'list:W'
MODULE = 'Module'


def OPQ(name):
    return f'opq:{name}'


def _holes(p):
    return [n.id[2:-2] for n in ast.walk(p) if isinstance(n, ast.Name) and n.id.startswith('__') and n.id.endswith('__') and len(n.id) > 4]


def _match(p, n, cap):
    """structural match of pattern p against node n; `__x__` captures an expression (the same hole twice must capture equal code)"""
    if isinstance(p, ast.Name) and p.id.startswith('__') and p.id.endswith('__') and len(p.id) > 4:
        if not isinstance(n, ast.expr):
            return False
        k = p.id[2:-2]
        if k in cap and ast.dump(cap[k]) != ast.dump(n):
            return False
        cap[k] = n
        return True
    if type(p) is not type(n):
        return False
    for field in p._fields:
        if field in ('ctx', 'type_comment', 'kind'):
            continue
        a, b = getattr(p, field, None), getattr(n, field, None)
        if isinstance(a, list):
            if not isinstance(b, list) or len(a) != len(b):
                return False
            if field == 'keywords':                       # keyword order does not matter
                b = sorted(b, key=lambda k: k.arg or '')
                a = sorted(a, key=lambda k: k.arg or '')
            if not all(_match(x, y, cap) for x, y in zip(a, b)):
                return False
        elif isinstance(a, ast.AST):
            if not isinstance(b, ast.AST) or not _match(a, b, cap):
                return False
        elif a != b:
            return False
    return True


class Prim:
    """a declared primitive.  pattern: Python source of an expression with holes `__x__`; holes: {x: type | tuple of types};
    lean: template over `{x}`; ret: result type (or a function of the hole types); raises: the Lean term is an `Option`"""

    def __init__(self, pattern, holes, lean, ret, raises=False):
        self.src = pattern
        self.pattern = ast.parse(pattern, mode='eval').body
        self.holes = {k: (v if isinstance(v, tuple) else (v,)) for k, v in holes.items()}
        if sorted(set(_holes(self.pattern))) != sorted(self.holes):
            raise ValueError(f'holes of `{pattern}` are not the declared ones')
        self.lean, self.ret, self.raises = lean, ret, raises


class PProgram(pyobj.Program):
    """classes as pyobj.Program (object classes) plus
         opaque   {name: Lean type}                       representation of the opaque classes
         prims    [Prim]                                  expression primitives, tried in order
         tests    [(Prim, exception source text)]         `try: <prim> except <exception>:` (prim.lean is a Prop)
         consts   {NAME: int | bytes}                     module-level / imported constants
         functions {name: FunctionDef}                    module-level functions of the file"""

    def __init__(self, classes, functions, opaque, prims, tests=(), consts=None, src='', env_decl='{W : Type} (P : Prims W)'):
        classes = dict(classes)
        body = []
        for name, fn in functions.items():
            f = copy.deepcopy(fn)
            if f.args.posonlyargs or (f.args.args and f.args.args[0].arg == 'self'):
                raise Untranslatable(f'{name}: parameter list')
            f.args.args.insert(0, ast.arg(arg='self'))
            body.append(f)
        node = ast.ClassDef(name=MODULE, bases=[], keywords=[], body=body, decorator_list=[])
        classes[MODULE] = dict(kind='object', node=node, lean='Unit', attrs={}, fields={}, derived={}, base=None)
        super().__init__(classes, hashlib=None, bitarray=None, src=src)
        self.functions = {f.name: f for f in body}
        self.opaque, self.prims, self.tests, self.consts, self.env_decl = dict(opaque), list(prims), list(tests), dict(consts or {}), env_decl

    def lean_ty(self, t):
        if t.startswith('opq:'):
            return self.opaque[t[4:]]
        if t == PAIR:
            return PAIR
        if t == WORDS:
            return 'List W'
        return super().lean_ty(t)

    def method(self, cls, name, argtypes, ctor=None, ctor_struct=None):
        """as pyobj.Program.method with deterministic names: `f` for a module function, `Class_method` for a method"""
        owner, fn = self.find_method(cls, name)
        key = (owner, name, tuple(argtypes))
        if key in self.done:
            return self.done[key]
        if (owner, name) in self.stack:
            raise Untranslatable(f'recursive function {owner}.{name}')
        base = name.strip('_') if name.startswith('__') else name
        lean = lname(base) if owner == MODULE else f'{owner}_{base}'
        if self.names.get(lean, key) != key:
            raise Untranslatable(f'{owner}.{name} is used with different argument types')
        self.names[lean] = key
        self.stack.append((owner, name))
        try:
            info = PTr(self, cls, owner, fn, list(argtypes), lean, ctor=ctor, ctor_struct=ctor_struct).translate()
        finally:
            self.stack.pop()
        self.done[key] = info
        self.defs.append((lean, info['text']))
        return info

    def function(self, name, argtypes):
        return self.method(MODULE, name, argtypes)

    def class_const(self, cls, attr):
        """class-level `NAME = b'..'` in cls or a base, never assigned as an attribute anywhere in the declared classes"""
        c = cls
        while c is not None and c != MODULE:
            d = self.classes.get(c)
            if d is None:
                return None
            hits = [n for n in d['node'].body if isinstance(n, ast.Assign) and len(n.targets) == 1 and isinstance(n.targets[0], ast.Name)
                    and n.targets[0].id == attr]
            if hits:
                if len(hits) != 1 or not (isinstance(hits[0].value, ast.Constant) and isinstance(hits[0].value.value, bytes)):
                    return None
                for k in self.classes.values():
                    if k.get('kind') == 'object' and any(isinstance(n, ast.Attribute) and n.attr == attr and isinstance(n.ctx, (ast.Store, ast.Del))
                                                          for n in ast.walk(k['node'])):
                        return None
                return hits[0].value.value
            c = d.get('base')
        return None


class PTr(MTr):
    FORBIDDEN = tuple(t for t in MTr.FORBIDDEN if t is not ast.Try)
    ENV_NAME = 'P'

    def __init__(self, prog, cls, owner, fn, argtypes, lean, ctor=None, ctor_struct=None):
        super().__init__(prog, cls, owner, fn, argtypes, lean, ctor=ctor, ctor_struct=ctor_struct)
        self.ENV_DECL = prog.env_decl
        self.uses_H = True                      # every definition takes the primitives (uniform signatures)
        for n in ast.walk(fn):
            if isinstance(n, ast.Name) and isinstance(n.ctx, ast.Store) and n.id == 'P':
                raise Untranslatable('local name P')
        if any(a.arg == 'P' for a in fn.args.args):
            raise Untranslatable('parameter name P')

    # ------------------------------------------------------------------ expressions
    def try_prim(self, prim, e):
        cap = {}
        if not _match(prim.pattern, e, cap):
            return None
        pre0, fresh0 = list(self.pre), self.fresh
        vals, types = {}, {}
        try:
            for k in _holes(prim.pattern):
                if k in vals:
                    continue
                v, t = self.expr(cap[k])
                if t == PROP:
                    v, t = f'(decide {v})', BOOL
                if t not in prim.holes[k]:
                    raise Untranslatable(f'hole {k} of `{prim.src}` has type {t}')
                vals[k], types[k] = par(v), t
        except Untranslatable:
            self.pre, self.fresh = pre0, fresh0
            return None
        term = prim.lean.format(**vals)
        ret = prim.ret(types) if callable(prim.ret) else prim.ret
        return term, ret

    def expr(self, e):
        if isinstance(e, (ast.Call, ast.Attribute)) and not is_self_attr(e):
            for prim in self.prog.prims:
                r = self.try_prim(prim, e)
                if r is not None:
                    term, ret = r
                    if prim.raises:
                        return self.hoist(term, 'prim'), ret
                    return term, ret
        if isinstance(e, ast.Name) and e.id not in self.env and e.id in self.prog.consts:
            v = self.prog.consts[e.id]
            if isinstance(v, bytes):
                return '([' + ', '.join(str(b) for b in v) + '] : Bytes)', BYTES
            if isinstance(v, int) and not isinstance(v, bool) and v >= 0:
                return f'({v} : Nat)', NAT
            raise Untranslatable(f'constant {e.id}')
        if isinstance(e, ast.Constant) and e.value is None:
            return '()', NONE
        if isinstance(e, ast.Compare) and len(e.ops) == 1 and isinstance(e.ops[0], (ast.Lt, ast.Gt, ast.LtE, ast.GtE)):
            pre0, fresh0 = list(self.pre), self.fresh
            l, r = self.expr(e.left), self.expr(e.comparators[0])
            if l[1] == BYTES and r[1] == BYTES:
                op = type(e.ops[0])
                if op is ast.Lt:
                    return f'(Py.bytesLt {l[0]} {r[0]} = true)', PROP
                if op is ast.Gt:
                    return f'(Py.bytesLt {r[0]} {l[0]} = true)', PROP
                if op is ast.LtE:
                    return f'(¬ Py.bytesLt {r[0]} {l[0]} = true)', PROP
                return f'(¬ Py.bytesLt {l[0]} {r[0]} = true)', PROP
            if BYTES in (l[1], r[1]):
                raise Untranslatable('ordering of bytes and a non-bytes value')
            self.pre, self.fresh = pre0, fresh0
        return super().expr(e)

    def attribute(self, e):
        if is_self(e.value) and 'self_' + e.attr not in self.env and e.attr not in self.decl['attrs']:
            c = self.prog.class_const(self.cls, e.attr)
            if c is not None:
                return '([' + ', '.join(str(b) for b in c) + '] : Bytes)', BYTES
        return super().attribute(e)

    def subscript(self, e):
        s = e.slice
        if isinstance(s, ast.Slice) and s.lower is None and s.upper is None and s.step is not None:
            st = s.step
            if isinstance(st, ast.UnaryOp) and isinstance(st.op, ast.USub) and isinstance(st.operand, ast.Constant) and st.operand.value == 1:
                base, bt = self.expr(e.value)
                if bt != BYTES:
                    raise Untranslatable(f'[::-1] of a {bt}')
                return f'({base}).reverse', BYTES
        return super().subscript(e)

    def call(self, e, key):
        f = e.func
        if isinstance(f, ast.Name) and f.id not in self.env:
            if f.id in self.prog.functions:
                return self.function_call(e, f.id)
            if f.id == 'bytes' and len(e.args) == 1 and not e.keywords and isinstance(e.args[0], ast.Constant) and \
                    isinstance(e.args[0].value, int) and not isinstance(e.args[0].value, bool) and 0 <= e.args[0].value <= 4096:
                n = e.args[0].value
                return ('([] : Bytes)' if n == 0 else f'(List.replicate {n} 0 : Bytes)'), BYTES
        if isinstance(f, ast.Attribute) and f.attr == 'encode' and isinstance(f.value, ast.Constant) and isinstance(f.value.value, str):
            enc = [a.value for a in e.args if isinstance(a, ast.Constant)] + [k.value.value for k in e.keywords if k.arg == 'encoding' and isinstance(k.value, ast.Constant)]
            if len(enc) == len(e.args) + len(e.keywords) <= 1 and all(x in ('utf-8', 'utf8', 'UTF-8', 'ascii') for x in enc):
                try:
                    b = f.value.value.encode(enc[0] if enc else 'utf-8')
                except UnicodeError:
                    raise Untranslatable('string literal cannot be encoded')
                return '([' + ', '.join(str(x) for x in b) + '] : Bytes)', BYTES
            raise Untranslatable('str.encode call shape')
        if (isinstance(f, ast.Attribute) and f.attr == 'floor' and isinstance(f.value, ast.Name) and f.value.id == 'math'
                and 'math' not in self.env and len(e.args) == 1 and not e.keywords and isinstance(e.args[0], ast.BinOp)
                and isinstance(e.args[0].op, ast.Div)):
            d = e.args[0].right
            if not (isinstance(d, ast.Constant) and isinstance(d.value, int) and not isinstance(d.value, bool) and d.value > 0):
                raise Untranslatable('math.floor(a / k): k must be a positive int literal')
            a = self.as_nat(self.expr(e.args[0].left), 'math.floor(a / k)')
            return f'({a} / {d.value})', NAT
        return super().call(e, key)

    def function_call(self, e, name):
        fn = self.prog.functions[name]
        if e.keywords:
            raise Untranslatable(f'{name}: keyword arguments')
        npar = len(fn.args.args) - 1
        args = list(e.args)
        if len(args) < npar:
            dfl = fn.args.defaults
            first = npar - len(dfl)
            for i in range(len(args), npar):
                if i < first:
                    raise Untranslatable(f'{name}: missing argument')
                args.append(dfl[i - first])
        call = ast.Call(func=e.func, args=args, keywords=[])
        v, t = self.method_call(call, None, MODULE, name)
        return ((f'({v} = true)', PROP) if t == BOOL else (v, t))

    def method_call(self, e, recv, cls, name, statement=False):
        r = super().method_call(e, recv, cls, name, statement=statement)
        if not statement and r[1] == BOOL:
            return f'({r[0]} = true)', PROP
        return r

    # ------------------------------------------------------------------ statements
    def block(self, stmts, kont):
        if not stmts:
            return kont()
        s, rest = stmts[0], stmts[1:]
        if isinstance(s, ast.Try):
            return self.try_(s, rest, kont)
        if isinstance(s, ast.Assign) and len(s.targets) == 1 and isinstance(s.targets[0], (ast.Tuple, ast.List)):
            return self.unpack(s, rest, kont)
        if isinstance(s, ast.Return) and isinstance(s.value, ast.BoolOp) and len(s.value.values) == 2 and not self.loops:
            snap = (list(self.pre), self.fresh, dict(self.env), self.ret_type, list(self.sig))
            try:
                return super().block(stmts, kont)
            except Untranslatable as ex:
                if 'conditionally' not in str(ex):
                    raise
                self.pre, self.fresh, self.env, self.ret_type, self.sig = snap
            a, b = s.value.values
            const = ast.Return(value=ast.Constant(value=isinstance(s.value.op, ast.Or)))
            first = self.expr(a)
            self.pre = snap[0]
            self.fresh = snap[1]
            if first[1] != PROP:
                raise Untranslatable('`return a and/or b` with a non-boolean left operand and a raising right operand')
            if isinstance(s.value.op, ast.And):
                node = ast.If(test=a, body=[ast.Return(value=b)], orelse=[const])
            else:
                node = ast.If(test=a, body=[const], orelse=[ast.Return(value=b)])
            return super().block([node] + list(rest), kont)
        return super().block(stmts, kont)

    def unpack(self, s, rest, kont):
        tg = s.targets[0]
        if len(tg.elts) != 2 or not all(isinstance(t, ast.Name) for t in tg.elts):
            raise Untranslatable('tuple assignment other than `a, b = <pair>`')
        v, t = self.expr(s.value)
        pre = self.take_pre()
        if t != PAIR:
            raise Untranslatable(f'unpacking of a {t}')
        names = [t.id for t in tg.elts]
        if names[0] == names[1] and names[0] != '_':
            raise Untranslatable('the same target twice')
        lets = ''
        for i, n in enumerate(names):
            if n == '_':
                continue
            key = self.key_of_target(tg.elts[i])
            self.env[key] = BYTES
            lets += f'let {lname(key)} : Bytes := ({v}).{i + 1}\n'
        return self.wrap(pre, lets + self.block(rest, kont))

    def try_(self, s, rest, kont):
        if s.orelse or s.finalbody or len(s.handlers) != 1 or not s.body or not isinstance(s.body[0], ast.Expr):
            raise Untranslatable('try statement shape')
        h = s.handlers[0]
        if h.name is not None or h.type is None:
            raise Untranslatable('except clause shape')
        tail = s.body[1:]
        if len(tail) > 1 or (tail and not (isinstance(tail[0], ast.Return) and isinstance(tail[0].value, ast.Constant))):
            raise Untranslatable('statements after the guarded call that could raise themselves')
        for prim, exc in self.prog.tests:
            if ast.unparse(h.type) != exc:
                continue
            r = self.try_prim(prim, s.body[0].value)
            if r is None:
                continue
            c = r[0]
            pre = self.take_pre()
            env0 = dict(self.env)
            a = par(self.block(list(tail) + list(rest), kont))
            self.env = dict(env0)
            b = par(self.block(list(h.body) + list(rest), kont))
            return self.wrap(pre, f'if {c} then\n{a}\nelse\n{b}')
        raise Untranslatable('try / except around something else than a declared test primitive')

    def translate(self):
        body = self.block(list(self.fn.body), self.end)
        if self.has_value_return and self.mutated:
            raise Untranslatable(f'{self.fn.name} returns a value and assigns attributes of self')
        if self.has_value_return:
            if self.ret_type is None:
                raise Untranslatable(f'{self.fn.name}: no path returns a value')
            rt = self.prog.lean_ty(self.ret_type)
        elif self.ctor is not None:
            rt = self.ctor_struct or self.decl['lean']
        else:
            rt = ' × '.join(tpar(self.prog.lean_ty(self.attr_type(m))) for m in self.mutated) if self.mutated else 'Unit'
        args = [x for x in self.sig if x[0] == 'arg']
        attrs = sorted((x for x in self.sig if x[0] == 'attr'), key=lambda x: x[1])
        sig = [('H', 'P', 'P', None)] + args + attrs
        ps = ' '.join(self.ENV_DECL if k == 'H' else f'({ln} : {self.prog.lean_ty(t)})' for k, _, ln, t in sig)
        owner = '' if self.owner == MODULE else self.owner + '.'
        doc = pybytes.doc_of(self.fn, f'{self.prog.src}: {owner}{self.fn.name}').replace('(self, ', '(').replace('(self)', '()') \
            if self.owner == MODULE else pybytes.doc_of(self.fn, f'{self.prog.src}: {owner}{self.fn.name}')
        text = f'{doc}def {self.lean} {ps} : Option ({rt}) :=\n{pybytes.indent(body)}\n'
        return dict(lean=self.lean, sig=sig, ret=self.ret_type if self.has_value_return else None,
                    mutated=[] if (self.has_value_return or self.ctor is not None) else list(self.mutated), text=text)
