"""Python -> Lean translator for small "bytes programs": functions that take a `bytes` value apart with len / index /
slice / big-endian numbers / integer arithmetic / if-elif-else / raise, and collect what they read in a dict used as a
record.  Built on pyarith.py (integer expressions); no knowledge of pytoniq.

A function becomes ONE Lean definition  `def f (data : Bytes) ... : Option <Record>`;  `none` = the Python code
raises (which exception is not distinguished).  Everything outside the subset raises `Untranslatable` (the caller then
records the translator tie as 'lost'; never a violation by itself).

SUBSET
  types       Nat (int known >= 0), Int (any int), Prop (bool expression) / Bool (bool stored in a variable), Bytes
              (= List Nat, a Python `bytes`), List Nat (a Python list of non-negative ints), Unit (None), Option T
              (a variable that is None on some paths and a T on others; may only be stored and returned).
              Parameters are declared by the caller; the type of every local is inferred.
  expressions everything of pyarith.py on Nat/Int/Prop (literals, + * // % << >> & | ^ **, comparisons, and/or/not,
              conditional expression, min/max/abs, bit_length, bin(x).count('1')) with these differences:
                a - b                  exact: both sides are cast to Int, the result is an Int
                a // b, a % b          a non-literal divisor d adds the check `if d = 0: raise`
              and in addition
                len(x)                 x : Bytes / List Nat                      -> x.length
                x[i]                   x : Bytes / List Nat, i : Nat             -> x[i]?  (IndexError = none)
                x[a:b] x[:b] x[a:]     x : Bytes, a b : Nat (never raises)       -> Py.slice x a b / Py.slice x 0 b / x.drop a
                x == y, x != y         both Bytes or both List Nat               -> x = y, x ≠ y
                NAME                   a module-level constant `NAME = b'...'`   -> def NAME : Bytes
                [e1, ..., en]          all e : Nat                               -> List Nat
                int.from_bytes(x, 'big'|'little'[, signed=False])               -> natOfBE x / natOfBE x.reverse
                helper(x...)           a declared helper function of the library, translated as its own definition
                extern(x...)           a declared external function with a hand-written / separately tied Lean model
                                       (may be declared raising: then `none` of the model = raise)
                [e for j in range(a[, b[, w]])]   a b w : Nat, e : Nat total     -> (Py.range? a b w).bind (·.map fun j => e)
                                       (range(_, _, 0) raises ValueError = none)
                R['k']                 R the record variable (see below)
              An expression that can raise (x[i], range step, extern, division) is evaluated BEFORE the statement it occurs
              in (hoisted `Option.bind`); this is only sound where Python evaluates it unconditionally, so such an
              expression inside `and` / `or` / a conditional expression / a comprehension element is Untranslatable.
              A number used as a condition means `≠ 0`, a Bytes value means `≠ []`; a bool used as a number means 0/1.
  statements  NAME = e | NAME op= e | R['k'] = e | R['k'] op= e
              t1, ..., tn = e        e : List Nat, n = 2..4; another length = ValueError   -> (Py.unpack<n>? e).bind fun (t1, ..) =>
              R = { 'k1': e1, ... }  exactly once, first: R is then a RECORD: a set of locals `R_k`; R may otherwise only
              occur as R['const'] and in the final `return R`
              if / elif / else | raise ... (= none; the raised expression is not evaluated) | docstrings | pass
              return R | return e   only as the LAST statement of the function
  control     a block is a Lean term in the Option monad; an `if` whose branches both continue passes the variables
              assigned in either branch through a tuple: `(if c then ..some (x, y) else ..some (x, y)).bind fun (x, y) => rest`.
              Variables that have different types at the end of the two branches are joined (bool/Nat -> Nat,
              Nat/Int -> Int, None/T -> Option T); a variable defined on one path only, or with unjoinable types, may not
              be read afterwards.
  result      `return R` builds the structure declared by the caller: fields = [(key, kind)], kind one of
              'truth' (Bool: Python truthiness of the value), 'nat', 'int', 'bytes', 'natlist', 'natlist?' (Option (List Nat)).
"""
import ast

from . import pyarith
from .pyexpr import Untranslatable

NAT, INT, PROP = pyarith.NAT, pyarith.INT, pyarith.PROP
BOOL, BYTES, NATLIST, NONE = 'Bool', 'Bytes', 'List Nat', 'Unit'
POISON = '?'


LEAN_RESERVED = {'end', 'from', 'at', 'fun', 'then', 'open', 'do', 'let', 'have', 'show', 'match', 'with', 'where', 'by', 'of', 'theorem', 'def',
                 'namespace', 'section', 'instance', 'structure', 'inductive', 'variable', 'universe', 'import', 'private', 'protected', 'mutual',
                 'deriving', 'extends', 'using', 'calc', 'suffices', 'obtain', 'exists', 'forall', 'Type', 'Prop', 'Sort', 'some', 'none',
                 'this', 'nomatch', 'nofun', 'example', 'axiom', 'opaque', 'abbrev', 'macro', 'syntax', 'notation', 'infix', 'prefix',
                 'postfix', 'local', 'scoped', 'attribute', 'export', 'set_option', 'noncomputable', 'partial', 'termination_by', 'decreasing_by'}


def lname(py):
    """Lean identifier for a Python local"""
    return f'«{py}»' if py in LEAN_RESERVED else py


def OPT(t):
    return f'Option ({t})'


def is_opt(t):
    return t.startswith('Option (')


def opt_of(t):
    return t[len('Option ('):-1]


NUMERIC = (NAT, INT, PROP)


def join(a, b):
    """type of a variable after an if whose branches leave it with types a and b (stored types: no PROP)"""
    if a == b:
        return a
    if a is None or b is None or POISON in (a, b):
        return POISON
    s = {a, b}
    if s == {BOOL, NAT}:
        return NAT
    if s == {NAT, INT} or s == {BOOL, INT}:
        return INT
    if NONE in s:
        o = (s - {NONE}).pop()
        return o if is_opt(o) else OPT(o)
    if is_opt(a) and opt_of(a) == b:
        return a
    if is_opt(b) and opt_of(b) == a:
        return b
    return POISON


def coerce(name, have, want):
    """Lean text of variable `name` (stored type `have`) as a value of type `want`"""
    name = lname(name)
    if have == want:
        return name
    if want == NAT and have == BOOL:
        return f'(if {name} = true then 1 else 0)'
    if want == INT and have == NAT:
        return f'(({name} : Nat) : Int)'
    if want == INT and have == BOOL:
        return f'(if {name} = true then (1 : Int) else 0)'
    if is_opt(want):
        if have == NONE:
            return 'none'
        return f'some {coerce(name, have, opt_of(want))}'
    raise Untranslatable(f'cannot pass {name} : {have} as {want}')


def definitely_raises(stmts):
    """syntactic: every path through the block ends in `raise`"""
    for s in stmts:
        if isinstance(s, ast.Raise):
            return True
        if isinstance(s, ast.If) and s.orelse and definitely_raises(s.body) and definitely_raises(s.orelse):
            return True
    return False


class BTr(pyarith.Tr):
    SEP = '_'                                     # record entry R['k'] is the local R<SEP>k
    def __init__(self, params, consts=None, helpers=None, externs=None, record=None, fields=None):
        super().__init__({})
        self.env = {n: t for n, t in params}      # variable -> stored type
        self.consts = consts or {}                # NAME -> bytes value
        self.helpers = helpers or {}              # python name -> (lean name, [param types], result type)
        self.externs = externs or {}              # python name -> dict(lean=, args=[types], ret=type, raises=bool, kw={..})
        self.record = record
        self.fields = fields
        self.pre = []                             # hoisted partial evaluations of the statement being translated
        self.nohoist = 0
        self.fresh = 0
        self.used_consts = []

    # ---- partial expressions
    def tmp(self, hint):
        self.fresh += 1
        return f'{hint}_{self.fresh}'

    def hoist(self, term, hint):
        if self.nohoist:
            raise Untranslatable('an expression that can raise occurs where Python evaluates it conditionally')
        for kind, name, t in self.pre:            # the same partial expression twice in one statement: evaluate once
            if kind == 'bind' and t == term:
                return name
        name = self.tmp(hint)
        self.pre.append(('bind', name, term))
        return name

    def need(self, cond):                         # pyarith: non-literal divisor must be positive -> Python raises otherwise
        if self.nohoist:
            raise Untranslatable('a division that can raise occurs where Python evaluates it conditionally')
        self.pre.append(('guard', None, cond))

    def guarded(self, f):
        self.nohoist += 1
        try:
            return f()
        finally:
            self.nohoist -= 1

    def under(self, cond, f):                     # branches of a conditional expression
        return self.guarded(f)

    # ---- numeric coercions with type checks
    def num(self, et):
        e, t = et
        if t not in NUMERIC:
            raise Untranslatable(f'{t} value used as a number')
        return super().num(et)

    def truth(self, et):
        e, t = et
        if t == BYTES or t == NATLIST:
            return f'({e} ≠ [])'
        if t not in NUMERIC:
            raise Untranslatable(f'{t} value used as a condition')
        return super().truth(et)

    def read(self, name):
        t = self.env.get(name)
        if t is None:
            raise Untranslatable(f'undeclared name {name}')
        if t == POISON:
            raise Untranslatable(f'{name} is not defined (or has different types) on all paths reaching this use')
        if t == BOOL:
            return f'({lname(name)} = true)', PROP
        return lname(name), t

    def rec_key(self, e):
        """R['k'] -> local name or None"""
        if (isinstance(e, ast.Subscript) and isinstance(e.value, ast.Name) and e.value.id == self.record
                and self.record is not None):
            if not (isinstance(e.slice, ast.Constant) and isinstance(e.slice.value, str) and e.slice.value.isidentifier()):
                raise Untranslatable('record subscript is not a constant key')
            return f'{self.record}{self.SEP}{e.slice.value}'
        return None

    # ---- expressions
    def expr(self, e):
        if isinstance(e, ast.Constant):
            if e.value is None:
                return '()', NONE
            if isinstance(e.value, bytes):
                return '[' + ', '.join(str(b) for b in e.value) + ']', BYTES
            return super().expr(e)
        if isinstance(e, ast.Name):
            if e.id == self.record:
                raise Untranslatable(f'the record {e.id} is used as a value')
            if e.id in self.env:
                return self.read(e.id)
            if e.id in self.consts:
                if e.id not in self.used_consts:
                    self.used_consts.append(e.id)
                return e.id, BYTES
            raise Untranslatable(f'undeclared name {e.id}')
        if isinstance(e, ast.Subscript):
            k = self.rec_key(e)
            if k is not None:
                if k not in self.env:
                    raise Untranslatable(f'record key {k} read before it is set')
                return self.read(k)
            return self.subscript(e)
        if isinstance(e, ast.List):
            xs = [self.expr(x) for x in e.elts]
            if any(t != NAT for _, t in xs):
                raise Untranslatable('list literal with non-Nat elements')
            return '[' + ', '.join(x for x, _ in xs) + ']', NATLIST
        if isinstance(e, ast.ListComp):
            return self.listcomp(e)
        if isinstance(e, ast.BoolOp):
            # operands after the first are evaluated conditionally
            first = self.expr(e.values[0])
            rest = [self.guarded(lambda v=v: self.expr(v)) for v in e.values[1:]]
            parts = [first] + rest
            if any(t != PROP for _, t in parts):
                raise Untranslatable('and/or over non-boolean operands')
            conn = ' ∨ ' if isinstance(e.op, ast.Or) else ' ∧ '
            return '(' + conn.join(x for x, _ in parts) + ')', PROP
        if isinstance(e, ast.Compare) and len(e.ops) > 1:
            # a < b < c: c is evaluated only if a < b holds
            for c in e.comparators[1:]:
                self.guarded(lambda c=c: self.expr(c))
        if isinstance(e, ast.Compare) and len(e.ops) == 1 and isinstance(e.ops[0], (ast.Eq, ast.NotEq)):
            l, r = self.expr(e.left), self.expr(e.comparators[0])
            if l[1] in (BYTES, NATLIST) or r[1] in (BYTES, NATLIST):
                if l[1] != r[1]:
                    raise Untranslatable(f'comparison of {l[1]} with {r[1]}')
                return (f'({l[0]} = {r[0]})' if isinstance(e.ops[0], ast.Eq) else f'({l[0]} ≠ {r[0]})'), PROP
            if l[1] not in NUMERIC or r[1] not in NUMERIC:
                raise Untranslatable(f'comparison of {l[1]} with {r[1]}')
            # fall through to pyarith (re-translates the operands: pure, or hoisted once per statement)
        return super().expr(e)

    def binop(self, e):
        if isinstance(e.op, ast.Sub):
            l, r = self.num(self.expr(e.left)), self.num(self.expr(e.right))
            return f'({self.cast(l)} - {self.cast(r)})', INT
        return super().binop(e)

    def index_nat(self, node, what):
        v, t = self.expr(node)
        if t == PROP:
            v, t = self.num((v, t))
        if t != NAT:
            raise Untranslatable(f'{what} is not known to be non-negative')
        return v

    def subscript(self, e):
        base, bt = self.expr(e.value)
        if bt not in (BYTES, NATLIST):
            raise Untranslatable(f'subscript of a {bt}')
        s = e.slice
        if isinstance(s, ast.Slice):
            if s.step is not None:
                raise Untranslatable('slice with a step')
            if bt != BYTES:
                raise Untranslatable('slice of a list')
            lo = self.index_nat(s.lower, 'slice bound') if s.lower is not None else None
            hi = self.index_nat(s.upper, 'slice bound') if s.upper is not None else None
            if hi is None:
                return (base if lo is None else f'({base}.drop {lo})'), BYTES
            return f'(Py.slice {base} {lo if lo is not None else 0} {hi})', BYTES
        i = self.index_nat(s, 'index')
        return self.hoist(f'{base}[{i}]?', 'item'), NAT

    def listcomp(self, e):
        if len(e.generators) != 1:
            raise Untranslatable('comprehension with several generators')
        g = e.generators[0]
        if g.ifs or g.is_async or not isinstance(g.target, ast.Name):
            raise Untranslatable('comprehension shape')
        it = g.iter
        if not (isinstance(it, ast.Call) and isinstance(it.func, ast.Name) and it.func.id == 'range' and not it.keywords
                and 1 <= len(it.args) <= 3 and 'range' not in self.env):
            raise Untranslatable('comprehension over something else than range(...)')
        args = [self.index_nat(a, 'range argument') for a in it.args]
        if len(args) == 1:
            a, b, w = '0', args[0], '1'
        elif len(args) == 2:
            a, b, w = args[0], args[1], '1'
        else:
            a, b, w = args
        js = self.hoist(f'Py.range? {a} {b} {w}', 'range')
        j = g.target.id
        if j in self.env or j == self.record:
            raise Untranslatable(f'comprehension variable {j} shadows a local')
        if j in LEAN_RESERVED:
            raise Untranslatable(f'comprehension variable {j}')
        self.env[j] = NAT
        try:
            body, bt = self.guarded(lambda: self.expr(e.elt))
        finally:
            del self.env[j]
        if bt != NAT:
            raise Untranslatable('comprehension element is not a Nat')
        return f'({js}.map fun {j} => {body})', NATLIST

    def call(self, e, key):
        f = e.func
        if isinstance(f, ast.Name) and f.id == 'len' and len(e.args) == 1 and not e.keywords and 'len' not in self.env:
            v, t = self.expr(e.args[0])
            if t not in (BYTES, NATLIST):
                raise Untranslatable(f'len of a {t}')
            return f'{v}.length', NAT
        if (isinstance(f, ast.Attribute) and f.attr == 'from_bytes' and isinstance(f.value, ast.Name) and f.value.id == 'int'
                and 'int' not in self.env):
            args = list(e.args)
            kws = {k.arg: k.value for k in e.keywords}
            if len(args) > 2 or set(kws) - {'byteorder', 'signed'} or (len(args) == 2 and 'byteorder' in kws) or not args:
                raise Untranslatable('int.from_bytes call shape')
            order = args[1] if len(args) == 2 else kws.get('byteorder')
            if order is None:
                order = ast.Constant(value='big')          # Python >= 3.11 default
            if not (isinstance(order, ast.Constant) and order.value in ('big', 'little')):
                raise Untranslatable('int.from_bytes byte order is not a literal')
            sg = kws.get('signed')
            if sg is not None and not (isinstance(sg, ast.Constant) and sg.value is False):
                raise Untranslatable('int.from_bytes signed')
            v, t = self.expr(args[0])
            if t != BYTES:
                raise Untranslatable('int.from_bytes of a non-bytes value')
            return (f'(natOfBE {v})' if order.value == 'big' else f'(natOfBE {v}.reverse)'), NAT
        if isinstance(f, ast.Name) and f.id in self.helpers and f.id not in self.env and not e.keywords:
            lean, ptypes, rt = self.helpers[f.id]
            if len(e.args) != len(ptypes):
                raise Untranslatable(f'{f.id}: argument count')
            args = []
            for a, pt in zip(e.args, ptypes):
                v, t = self.expr(a)
                if t != pt:
                    raise Untranslatable(f'{f.id}: argument of type {t}, expected {pt}')
                args.append(v)
            return f'({lean} {" ".join(args)})', rt
        if isinstance(f, ast.Name) and f.id in self.externs and f.id not in self.env:
            x = self.externs[f.id]
            if len(e.args) != len(x['args']) or e.keywords:
                raise Untranslatable(f'{f.id}: call shape outside the declared model')
            args = []
            for a, pt in zip(e.args, x['args']):
                v, t = self.expr(a)
                if t != pt:
                    raise Untranslatable(f'{f.id}: argument of type {t}, expected {pt}')
                args.append(v)
            term = f'{x["lean"]} {" ".join(args)}'
            if x.get('raises'):
                return self.hoist(term, f.id), x['ret']
            return f'({term})', x['ret']
        return super().call(e, key)

    # ---- statements
    def stored(self, et):
        """(text, type) of an expression -> (text, stored type)"""
        v, t = et
        if t == PROP:
            return f'(decide {v})', BOOL
        return v, t

    def take_pre(self):
        pre, self.pre = self.pre, []
        return pre

    @staticmethod
    def wrap(pre, body):
        for kind, name, t in reversed(pre):
            if kind == 'bind':
                body = f'({t}).bind fun {name} =>\n{body}'
            else:
                body = f'if ¬ {t} then none else\n{body}'
        return body

    def target_name(self, t):
        if isinstance(t, ast.Name):
            if t.id == self.record or t.id in self.consts or t.id in self.helpers or t.id in self.externs:
                raise Untranslatable(f'assignment to {t.id}')
            return t.id
        k = self.rec_key(t)
        if k is None:
            raise Untranslatable('assignment target')
        return k

    def assigned(self, stmts):
        out = []
        for s in stmts:
            for n in ast.walk(s):
                ts = []
                if isinstance(n, ast.Assign):
                    for t in n.targets:
                        ts += list(t.elts) if isinstance(t, (ast.Tuple, ast.List)) else [t]
                elif isinstance(n, ast.AugAssign):
                    ts = [n.target]
                for t in ts:
                    try:
                        name = self.target_name(t)
                    except Untranslatable:
                        continue
                    if name not in out:
                        out.append(name)
        return out

    def block(self, stmts, kont):
        """Lean term (type Option _) for the statements followed by kont() ; kont reads self.env"""
        if not stmts:
            return kont()
        s, rest = stmts[0], stmts[1:]
        if isinstance(s, ast.Expr) and isinstance(s.value, ast.Constant) and isinstance(s.value.value, str):
            return self.block(rest, kont)
        if isinstance(s, ast.Pass):
            return self.block(rest, kont)
        if isinstance(s, ast.Raise):
            return 'none'
        if isinstance(s, ast.Return):
            if rest or kont is not self.top_kont:
                raise Untranslatable('return that is not the last statement of the function')
            return self.ret(s)
        if isinstance(s, ast.Assign):
            if len(s.targets) != 1:
                raise Untranslatable('chained assignment')
            tg = s.targets[0]
            if isinstance(tg, ast.Name) and tg.id == self.record:
                return self.record_init(s, rest, kont)
            if isinstance(tg, (ast.Tuple, ast.List)):
                names = [self.target_name(t) for t in tg.elts]
                if len(set(names)) != len(names):
                    raise Untranslatable('the same target twice in one unpacking')
                v, t = self.expr(s.value)
                pre = self.take_pre()
                if t != NATLIST:
                    raise Untranslatable(f'unpacking of a {t}')
                for n in names:
                    self.env[n] = NAT
                body = self.block(rest, kont)
                if not 2 <= len(names) <= 4:
                    raise Untranslatable(f'unpacking into {len(names)} targets')
                pat = ', '.join(lname(n) for n in names)
                return self.wrap(pre, f'(Py.unpack{len(names)}? {v}).bind fun (({pat}) : {" × ".join([NAT] * len(names))}) =>\n{body}')
            name = self.target_name(tg)
            v, t = self.stored(self.expr(s.value))
            pre = self.take_pre()
            return self.let(pre, name, v, t, rest, kont)
        if isinstance(s, ast.AugAssign):
            name = self.target_name(s.target)
            load = ast.Name(id=name, ctx=ast.Load()) if isinstance(s.target, ast.Name) else \
                ast.Subscript(value=s.target.value, slice=s.target.slice, ctx=ast.Load())
            v, t = self.stored(self.expr(ast.BinOp(left=load, op=s.op, right=s.value)))
            pre = self.take_pre()
            return self.let(pre, name, v, t, rest, kont)
        if isinstance(s, ast.If):
            return self.if_(s, rest, kont)
        raise Untranslatable(f'statement {type(s).__name__}')

    def let(self, pre, name, v, t, rest, kont):
        self.env[name] = t
        # `x = data[4]`: bind the item directly to x
        if pre and pre[-1][0] == 'bind' and pre[-1][1] == v:
            pre = pre[:-1] + [('bind', lname(name), pre[-1][2])]
            return self.wrap(pre, self.block(rest, kont))
        return self.wrap(pre, f'let {lname(name)} : {t} := {v}\n{self.block(rest, kont)}')

    def record_init(self, s, rest, kont):
        if any(k.startswith(self.record + self.SEP) for k in self.env):
            raise Untranslatable(f'{self.record} is bound twice')
        d = s.value
        if not (isinstance(d, ast.Dict) and all(isinstance(k, ast.Constant) and isinstance(k.value, str) and k.value.isidentifier()
                                                 for k in d.keys)):
            raise Untranslatable(f'{self.record} is not initialised with a dict literal of constant keys')
        if len({k.value for k in d.keys}) != len(d.keys):
            raise Untranslatable('duplicate key in the dict literal')
        items = []
        pre = []
        for k, val in zip(d.keys, d.values):
            v, t = self.stored(self.expr(val))
            p = self.take_pre()
            name = f'{self.record}{self.SEP}{k.value}'
            if p and p[-1][0] == 'bind' and p[-1][1] == v:
                items.append(p[:-1] + [('bind', name, p[-1][2])])
                items.append(None)
            else:
                items.append(p)
                items.append(f'let {name} : {t} := {v}\n')
            self.env[name] = t
        body = self.block(rest, kont)
        for p, l in reversed(list(zip(items[0::2], items[1::2]))):
            body = self.wrap(p, (l or '') + body)
        return body

    def if_(self, s, rest, kont):
        c = self.truth(self.expr(s.test))
        pre = self.take_pre()
        tl, el = not definitely_raises(s.body), not definitely_raises(s.orelse)
        env0 = dict(self.env)

        def branch(stmts, k):
            self.env = dict(env0)
            return par(self.block(stmts, k))

        if not tl and not el:
            return self.wrap(pre, 'none')
        if not (tl and el):
            # only one branch continues: the rest of the block runs inside it
            live = list(s.body if tl else s.orelse) + list(rest)
            body = branch(live, kont)
            return self.wrap(pre, f'if {c} then\n{body}\nelse none' if tl else f'if {c} then none else\n{body}')
        if not rest:
            a = branch(s.body, kont)
            b = branch(s.orelse, kont)
            return self.wrap(pre, f'if {c} then\n{a}\nelse\n{b}')
        # both branches continue: join the assigned variables through a tuple
        M = self.assigned(list(s.body) + list(s.orelse))
        ends = []

        def probe():
            ends.append(dict(self.env))
            return '_'
        f0 = self.fresh
        branch(s.body, probe)
        branch(s.orelse, probe)
        self.fresh = f0
        J = {}
        for m in M:
            t = None
            for i, e in enumerate(ends):
                t = e.get(m) if i == 0 else join(t, e.get(m))
            J[m] = POISON if t is None else t
        passed = [m for m in M if J[m] != POISON]

        def pack():
            vals = [coerce(m, self.env[m], J[m]) for m in passed]
            return 'some (' + ', '.join(vals) + ')' if vals else 'some ()'
        a = branch(s.body, pack)
        b = branch(s.orelse, pack)
        self.env = dict(env0)
        for m in M:
            self.env[m] = J[m]
        # anything a branch defined that is not passed on is not visible afterwards
        r = self.block(rest, kont)
        pat = '(' + ', '.join(lname(m) for m in passed) + ')' if passed else '()'
        ty = ' × '.join(f'({J[m]})' if ' ' in J[m] else J[m] for m in passed) if passed else 'Unit'
        return self.wrap(pre, f'(if {c} then\n{a}\nelse\n{b}).bind fun (({pat[1:-1] if passed else "_u"}) : {ty}) =>\n{r}')

    def ret(self, s):
        if not (isinstance(s.value, ast.Name) and s.value.id == self.record and self.fields):
            raise Untranslatable('the function does not end in `return <record>`')
        items = []
        for key, kind in self.fields:
            name = f'{self.record}{self.SEP}{key}'
            t = self.env.get(name)
            if t is None or t == POISON:
                raise Untranslatable(f'result field {key} is not set (or has different types) on all paths')
            items.append(f'{key} := {field_value(name, t, kind, key)}')
        return 'some { ' + ', '.join(items) + ' }'


FIELD_TYPES = {'truth': 'Bool', 'nat': 'Nat', 'int': 'Int', 'bytes': 'Bytes', 'natlist': 'List Nat', 'natlist?': 'Option (List Nat)'}


def field_value(name, t, kind, key):
    name = lname(name)
    if kind == 'truth':
        if t == BOOL:
            return name
        if t in (NAT, INT):
            return f'decide ({name} ≠ 0)'
        if t in (BYTES, NATLIST):
            return f'decide ({name} ≠ [])'
        if t == NONE:
            return 'false'
    elif kind == 'nat':
        if t == NAT:
            return name
        if t == BOOL:
            return f'(if {name} = true then 1 else 0)'
    elif kind == 'int':
        if t in (NAT, BOOL, INT):
            return coerce(name, t, INT)
    elif kind == 'bytes' and t == BYTES:
        return name
    elif kind == 'natlist' and t == NATLIST:
        return name
    elif kind == 'natlist?':
        if t == NATLIST:
            return f'some {name}'
        if t == NONE:
            return 'none'
        if t == OPT(NATLIST):
            return name
    raise Untranslatable(f'result field {key} has type {t}, declared {kind}')


def par(text):
    return f'({text})' if '\n' in text or ' ' in text else text


# ---------------------------------------------------------------------------- entry points

def indent(text, by='  '):
    """cosmetic: indentation by parenthesis / if depth is not needed by Lean here (every block is parenthesised)"""
    return '\n'.join(by + l for l in text.split('\n'))


def module_bytes_consts(tree):
    """module-level `NAME = b'...'` bound exactly once"""
    out, seen = {}, {}
    for n in ast.walk(tree):
        if isinstance(n, ast.Name) and isinstance(n.ctx, (ast.Store, ast.Del)):
            seen[n.id] = seen.get(n.id, 0) + 1
    for n in tree.body:
        if (isinstance(n, ast.Assign) and len(n.targets) == 1 and isinstance(n.targets[0], ast.Name)
                and isinstance(n.value, ast.Constant) and isinstance(n.value.value, bytes) and seen.get(n.targets[0].id) == 1):
            out[n.targets[0].id] = n.value.value
    return out


def imported_from(tree, name):
    """-> (module text, level) of `from <module> import name` at module level, None if not imported that way / rebound"""
    hits = [n for n in tree.body if isinstance(n, ast.ImportFrom) and any((a.asname or a.name) == name for a in n.names)]
    stores = [n for n in ast.walk(tree) if isinstance(n, ast.Name) and n.id == name and isinstance(n.ctx, (ast.Store, ast.Del))]
    defs = [n for n in ast.walk(tree) if isinstance(n, (ast.FunctionDef, ast.ClassDef)) and n.name == name]
    if len(hits) != 1 or stores or defs:
        return None
    a = [a for a in hits[0].names if (a.asname or a.name) == name][0]
    if a.asname and a.asname != a.name:
        return None
    return hits[0].module, hits[0].level


def doc_of(fn, src):
    text = ' '.join(ast.unparse(fn).split())
    text = text.replace('-/', '- /').replace('/-', '/ -')
    return f'/-- {src}\n    source: `{text[:200]} ...` -/\n'


def translate_simple(fn, lean_name, params, ret_type, **kw):
    """a helper function whose body is `return <expr>` (after an optional docstring) -> Lean def text"""
    tr = BTr(params, **kw)
    body = [s for s in fn.body if not (isinstance(s, ast.Expr) and isinstance(s.value, ast.Constant))]
    if len(body) != 1 or not isinstance(body[0], ast.Return) or body[0].value is None:
        raise Untranslatable(f'{fn.name}: body is not a single return')
    got = [a.arg for a in fn.args.args]
    if got != [n for n, _ in params] or fn.args.vararg or fn.args.kwarg or fn.args.kwonlyargs:
        raise Untranslatable(f'{fn.name}: parameters {got}')
    v, t = tr.expr(body[0].value)
    if tr.pre:
        raise Untranslatable(f'{fn.name}: can raise')
    if t != ret_type:
        raise Untranslatable(f'{fn.name}: result type {t}, declared {ret_type}')
    sig = ' '.join(f'({n} : {t})' for n, t in params)
    return f'@[reducible] def {lean_name} {sig} : {ret_type} :=\n  {v}\n'


def translate_function(fn, lean_name, params, record, fields, struct, consts=None, helpers=None, externs=None, until=None):
    """-> dict(lean=<def text>, consts=[names used]).
    until = None: the whole function, which must end in `return <record>`.
    until = predicate on a statement: PREFIX mode - the top-level statements before the first one satisfying it; the result
    is the record of the LOCALS named by `fields` at that point (record = None; says nothing about what follows)."""
    got = [a.arg for a in fn.args.args]
    if got != [n for n, _ in params] or fn.args.vararg or fn.args.kwarg or fn.args.kwonlyargs:
        raise Untranslatable(f'{fn.name}: parameters {got}')
    stmts = list(fn.body)
    if until is not None:
        cut = [k for k, st in enumerate(stmts) if until(st)]
        if len(cut) != 1:
            raise Untranslatable(f'{fn.name}: expected exactly one statement ending the translated prefix, found {len(cut)}')
        stmts = stmts[:cut[0]]
    for st in stmts:
        for n in ast.walk(st):
            if isinstance(n, (ast.FunctionDef, ast.Lambda, ast.Global, ast.Nonlocal, ast.While, ast.For, ast.Try, ast.With, ast.Return if until else ast.While)):
                raise Untranslatable(f'statement {type(n).__name__}')
    tr = BTr(params, consts=consts, helpers=helpers, externs=externs, record=record, fields=fields)

    def end():
        if until is None:
            raise Untranslatable('control reaches the end of the function without return')
        items = []
        for key, kind in fields:
            t = tr.env.get(key)
            if t is None or t == POISON:
                raise Untranslatable(f'local {key} is not set (or has different types) on all paths reaching the end of the prefix')
            items.append(f'{key} := {field_value(key, t, kind, key)}')
        return 'some { ' + ', '.join(items) + ' }'
    tr.top_kont = end
    body = tr.block(stmts, end)
    sig = ' '.join(f'({n} : {t})' for n, t in params)
    return dict(lean=f'def {lean_name} {sig} : Option {struct} :=\n{indent(body)}\n', consts=tr.used_consts)
