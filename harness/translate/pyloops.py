"""Extension of the bytes-program translator (pybytes.py) by loops, bit lists, records held in lists and callbacks - what the
second half of `Boc.deserialize_cell` and the three loops of `Boc.deserialize` need.  No knowledge of pytoniq: the caller
declares which names are the library's helpers / built-ins and where they come from.

A function still becomes ONE Lean term in the `Option` monad (`none` = the Python code raises); a part of it can be given
its own name (continuation naming, `split=`), which changes nothing in its meaning.

ADDED SUBSET (everything of pybytes.py stays)
  types       Bits (= List Bool: a `bitarray`; an element read is the int 0 / 1), Option Int (a variable that is `None` or an
              int, e.g. a slice bound), REC S (a dict used as a record with declared constant keys = Lean structure S; may be a
              function result, a list element, a local), List (REC S), a callback result type R (opaque; `None`-able as Option R).
  expressions bitarray()                       -> ([] : Bits)                       (declared built-in)
              ba2int(b, signed=True|False)     -> Py.ba2int? s b                    (none = ValueError on an empty bitarray)
              TvmBitarray(k, b)                -> Py.tvmBitarray? k b               (none = size > 1023; the bits are not checked)
              len(b), b as a condition         b : Bits
              x[i] with i : Int                -> Py.getI? x i / Py.bitAt? b i      (negative = from the end, IndexError = none)
              x[a:b] with a, b : Nat | Int | Option Int | None | absent  -> Py.sliceI x a b  (x : Bytes | Bits; never raises)
              -k (negative literals), Int arithmetic as in pybytes.py
              a and b / a or b / not a USED AS A CONDITION over numbers, bytes, bits (truthiness of the operands)
              v['k']                           v : REC S                            -> v.k
              xs[i]                            xs : List (REC S), i : Nat           -> xs[i]?  (IndexError = none)
              helper(x...) returning a record or a tuple (record, nat); `self.helper(...)` when the caller declares `self`
              callback(x...)                   a declared parameter of function type; result Option R, `none` = it raises
  statements  x.append(e)                      x : List Nat (e : Nat) | List (REC S) (e : REC S) | List (Option R)
              b.frombytes(e)                   b : Bits, e : Bytes                  -> Py.frombytes b e
              xs[i]['k'] = e                   xs : List (REC S)                    -> Py.setAt? xs i (fun c => { c with k := e })
              a, b = helper(...)               helper returning a pair
              for j in range(a[, b[, w]]) | reversed(range(..)) | <List Nat variable or record entry>:  body
                                               -> (Py.loop? <list> <state> fun j st => body).bind fun st => rest
                  state = the variables assigned in the body that exist before the loop (their types are joined over all
                  iterations: None/int -> Option Int); variables first assigned inside the body are local to one iteration and
                  unreadable afterwards, as is the loop variable; the iterated list may not be changed in the body
              break                            -> the body ends with (state, true)
              return r, e                      (record, number) as declared by the caller
  aliasing    Python lists / bitarrays / dicts are mutable objects; the translation copies values.  The two readings agree as
              long as no object is changed through one name and read through another: a list / bit variable whose bare name
              was assigned to another variable, stored in a dict or passed to a callback is FROZEN (a later mutation through
              it is Untranslatable) until it is re-bound to a fresh value; a local bound to a list ELEMENT (`c = xs[i]`) becomes
              unreadable when that list is updated.
Everything else (while, try, with, continue, for-else, return inside a loop, comprehension over a list, ...) is Untranslatable.
"""
import ast

from . import pybytes
from .pybytes import (BTr, NAT, INT, PROP, BOOL, BYTES, NATLIST, NONE, POISON, OPT, is_opt, opt_of, coerce, lname, par,
                      definitely_raises, LEAN_RESERVED, indent)
from .pyexpr import Untranslatable

BITS = 'Bits'
OPTINT = OPT(INT)
MUTATORS = ('append', 'frombytes')


def REC(s):
    return f'REC {s}'


def is_rec(t):
    return isinstance(t, str) and t.startswith('REC ')


def rec_of(t):
    return t[4:]


def LIST(t):
    return f'List ({t})'


def is_list(t):
    return isinstance(t, str) and t.startswith('List (')


def elt_of(t):
    return t[len('List ('):-1]


def lean_type(t):
    """Lean text of a stored type"""
    if is_rec(t):
        return rec_of(t)
    if is_list(t):
        return f'List ({lean_type(elt_of(t))})'
    if is_opt(t):
        return f'Option ({lean_type(opt_of(t))})'
    return t


def is_mutable(t):
    return t in (NATLIST, BITS) or is_list(t) or is_rec(t)


def join(a, b):
    if a == b:
        return a
    return pybytes.join(a, b)


FIELD_TYPES = dict(pybytes.FIELD_TYPES, bits='Bits', optR='Option R')


def field_value(name, t, kind, key):
    if kind == 'bits':
        if t == BITS:
            return lname(name)
    elif kind == 'optR':
        if t == NONE:
            return 'none'
        if t == OPT('R'):
            return lname(name)
        if t == 'R':
            return f'some {lname(name)}'
    else:
        return pybytes.field_value(name, t, kind, key)
    raise Untranslatable(f'result field {key} has type {t}, declared {kind}')


def definitely_exits(stmts):
    """syntactic: every path through the block ends in `raise` or `break`"""
    for s in stmts:
        if isinstance(s, (ast.Raise, ast.Break)):
            return True
        if isinstance(s, ast.If) and s.orelse and definitely_exits(s.body) and definitely_exits(s.orelse):
            return True
    return False


def has_break(stmts):
    """a `break` of the ENCLOSING loop occurs in the block (nested loops keep their own)"""
    for s in stmts:
        if isinstance(s, ast.Break):
            return True
        if isinstance(s, ast.If) and (has_break(s.body) or has_break(s.orelse)):
            return True
    return False


def proj(st, k, n):
    if n == 1:
        return st
    return st + '.2' * k + ('.1' if k < n - 1 else '')


def tup_type(ts):
    if not ts:
        return 'Unit'
    return ' × '.join(f'({lean_type(t)})' if ' ' in lean_type(t) else lean_type(t) for t in ts)


class LTr(BTr):
    SEP = '__'
    def __init__(self, params, builtins=(), records=None, callbacks=None, self_name=None, attrs=None, **kw):
        super().__init__(params, **kw)
        self.builtins = set(builtins)      # names verified by the caller: bitarray, ba2int, TvmBitarray
        self.records = records or {}       # struct name -> [(key, stored type)]
        self.callbacks = callbacks or {}   # parameter name -> dict(args=[stored types], ret=stored type)
        self.self_name = self_name         # `self`: only self.<declared attr> and self.<helper>(...) are allowed
        self.attrs = attrs or {}           # 'self.data' -> (lean name, type)
        self.loops = []                    # `break` continuations of the enclosing loops
        self.frozen = set()
        self.elem_alias = {}               # local -> list variable whose element it names
        self.ret_shape = None

    # ---- conditions
    def truth(self, et):
        if et[1] == BITS or is_list(et[1]):
            return f'({et[0]} ≠ [])'
        return super().truth(et)

    def cond(self, e):
        """an expression used ONLY for its truth value"""
        if isinstance(e, ast.BoolOp):
            first = self.cond(e.values[0])
            rest = [self.guarded(lambda v=v: self.cond(v)) for v in e.values[1:]]
            return '(' + (' ∨ ' if isinstance(e.op, ast.Or) else ' ∧ ').join([first] + rest) + ')'
        if isinstance(e, ast.UnaryOp) and isinstance(e.op, ast.Not):
            return f'(¬ {self.cond(e.operand)})'
        return self.truth(self.expr(e))

    # ---- expressions
    def read(self, name):
        if name in self.elem_alias and self.env.get(name) == POISON:
            raise Untranslatable(f'{name} names an element of a list that has been updated since')
        return super().read(name)

    def expr(self, e):
        if isinstance(e, ast.Attribute) and isinstance(e.value, ast.Name) and e.value.id == self.self_name and self.self_name:
            key = ast.unparse(e)
            if key in self.attrs:
                return self.attrs[key]
            raise Untranslatable(f'undeclared attribute read {key}')
        if isinstance(e, ast.Name) and e.id == self.self_name and self.self_name:
            raise Untranslatable(f'{e.id} used as a value')
        if isinstance(e, ast.Name) and e.id in self.callbacks:
            raise Untranslatable(f'the callback {e.id} is used as a value')
        return super().expr(e)

    def bound(self, x):
        if x is None:
            return 'none'
        v, t = x
        if t == PROP:
            v, t = self.num(x)
        if t == NAT:
            return f'(some (({v} : Nat) : Int))'
        if t == INT:
            return f'(some {v})'
        if t == OPTINT:
            return v
        if t == NONE:
            return 'none'
        raise Untranslatable(f'slice bound of type {t}')

    def subscript(self, e):
        s = e.slice
        # v['k'] of a record value
        if isinstance(s, ast.Constant) and isinstance(s.value, str):
            base, bt = self.expr(e.value)
            if not is_rec(bt):
                raise Untranslatable(f'string subscript of a {bt}')
            for k, t in self.records[rec_of(bt)]:
                if k == s.value:
                    if t == BOOL:
                        return f'({base}.{k} = true)', PROP
                    return f'{base}.{k}', t
            raise Untranslatable(f'{rec_of(bt)} has no declared key {s.value}')
        base, bt = self.expr(e.value)
        if isinstance(s, ast.Slice):
            if s.step is not None:
                raise Untranslatable('slice with a step')
            if bt not in (BYTES, BITS):
                raise Untranslatable(f'slice of a {bt}')
            lo = self.expr(s.lower) if s.lower is not None else None
            hi = self.expr(s.upper) if s.upper is not None else None
            if all(x is None or x[1] in (NAT, PROP) for x in (lo, hi)):
                lo = self.num(lo)[0] if lo is not None else None
                hi = self.num(hi)[0] if hi is not None else None
                if hi is None:
                    return (base if lo is None else f'({base}.drop {lo})'), bt
                return f'(Py.slice {base} {lo if lo is not None else 0} {hi})', bt
            return f'(Py.sliceI {base} {self.bound(lo)} {self.bound(hi)})', bt
        iv, it = self.expr(s)
        if it == PROP:
            iv, it = self.num((iv, it))
        if it not in (NAT, INT):
            raise Untranslatable(f'index of type {it}')
        ii = iv if it == INT else f'(({iv} : Nat) : Int)'
        if bt == BITS:
            return self.hoist(f'Py.bitAt? {base} {ii}', 'bit'), NAT
        if bt in (BYTES, NATLIST):
            if it == NAT:
                return self.hoist(f'{base}[{iv}]?', 'item'), NAT
            return self.hoist(f'Py.getI? {base} {ii}', 'item'), NAT
        if is_list(bt):
            if it != NAT:
                raise Untranslatable('index of a record list is not known to be non-negative')
            return self.hoist(f'{base}[{iv}]?', 'elem'), elt_of(bt)
        raise Untranslatable(f'subscript of a {bt}')

    def call(self, e, key):
        f = e.func
        if isinstance(f, ast.Name) and f.id == 'len' and len(e.args) == 1 and not e.keywords and 'len' not in self.env:
            v, t = self.expr(e.args[0])
            if t == BITS or is_list(t):
                return f'{v}.length', NAT
        if isinstance(f, ast.Name) and f.id in self.builtins and f.id not in self.env:
            if f.id == 'bitarray' and not e.args and not e.keywords:
                return '([] : Bits)', BITS
            if f.id == 'ba2int' and len(e.args) == 1 and set(k.arg for k in e.keywords) <= {'signed'}:
                sg = e.keywords[0].value if e.keywords else ast.Constant(value=False)
                if not (isinstance(sg, ast.Constant) and isinstance(sg.value, bool)):
                    raise Untranslatable('ba2int: signed is not a literal')
                v, t = self.expr(e.args[0])
                if t != BITS:
                    raise Untranslatable('ba2int of a non-bitarray')
                return self.hoist(f'Py.ba2int? {"true" if sg.value else "false"} {v}', 'ba2int'), INT
            if f.id == 'TvmBitarray' and len(e.args) == 2 and not e.keywords:
                k, kt = self.num(self.expr(e.args[0]))
                v, t = self.expr(e.args[1])
                if kt != NAT or t != BITS:
                    raise Untranslatable('TvmBitarray(size, bits): argument types')
                return self.hoist(f'Py.tvmBitarray? {k} {v}', 'tvm'), BITS
            raise Untranslatable(f'{f.id}: call shape outside the declared meaning')
        # self.helper(...) = helper(...)
        if (isinstance(f, ast.Attribute) and isinstance(f.value, ast.Name) and f.value.id == self.self_name and self.self_name
                and f.attr in self.externs):
            return self.extern_call(f.attr, e)
        if isinstance(f, ast.Name) and f.id in self.externs and f.id not in self.env:
            return self.extern_call(f.id, e)
        if isinstance(f, ast.Name) and f.id in self.callbacks:
            cb = self.callbacks[f.id]
            if len(e.args) != len(cb['args']) or e.keywords:
                raise Untranslatable(f'{f.id}: call shape')
            args = []
            for a, pt in zip(e.args, cb['args']):
                v, t = self.stored(self.expr(a))
                if isinstance(a, ast.Name) and is_mutable(t):
                    self.frozen.add(a.id)
                if t != pt:
                    raise Untranslatable(f'{f.id}: argument of type {t}, expected {pt}')
                args.append(par(v))
            return self.hoist(f'{f.id} {" ".join(args)}', f.id), cb['ret']
        return super().call(e, key)

    def extern_call(self, name, e):
        x = self.externs[name]
        if len(e.args) != len(x['args']) or e.keywords:
            raise Untranslatable(f'{name}: call shape outside the declared model')
        args = []
        for a, pt in zip(e.args, x['args']):
            v, t = self.expr(a)
            if t != pt:
                raise Untranslatable(f'{name}: argument of type {t}, expected {pt}')
            args.append(par(v))
        term = f'{x["lean"]} {" ".join(args)}'
        if x.get('raises'):
            return self.hoist(term, name), x['ret']
        return f'({term})', x['ret']

    # ---- statements
    def assigned(self, stmts):
        out = super().assigned(stmts)
        for s in stmts:
            for n in ast.walk(s):
                names = []
                if isinstance(n, ast.For):
                    names = [t.id for t in ast.walk(n.target) if isinstance(t, ast.Name)]
                elif (isinstance(n, ast.Expr) and isinstance(n.value, ast.Call) and isinstance(n.value.func, ast.Attribute)
                      and isinstance(n.value.func.value, ast.Name)):
                    names = [n.value.func.value.id]
                elif isinstance(n, ast.Assign):
                    for t in n.targets:
                        root = t
                        while isinstance(root, ast.Subscript):
                            root = root.value
                        if isinstance(root, ast.Name) and root is not t and root.id != self.record:
                            names.append(root.id)
                for m in names:
                    if m not in out:
                        out.append(m)
        return out

    def track_alias(self, target, value):
        """`target = value` is about to be translated"""
        self.elem_alias.pop(target, None)
        src = None
        if isinstance(value, ast.Name) and value.id in self.env:
            src = value.id
        if src is not None and is_mutable(self.env[src]):
            self.frozen.add(src)
            self.frozen.add(target)
            return
        self.frozen.discard(target)
        # c = xs[i] : c names an element of xs
        if isinstance(value, ast.Subscript) and isinstance(value.value, ast.Name) and is_list(self.env.get(value.value.id, '')):
            self.elem_alias[target] = value.value.id

    def block(self, stmts, kont):
        if not stmts:
            return kont()
        s, rest = stmts[0], stmts[1:]
        if isinstance(s, ast.Break):
            if not self.loops:
                raise Untranslatable('break outside a loop')
            return self.loops[-1]()
        if isinstance(s, ast.For):
            return self.for_(s, rest, kont)
        if (isinstance(s, ast.Expr) and isinstance(s.value, ast.Call) and isinstance(s.value.func, ast.Attribute)
                and isinstance(s.value.func.value, ast.Name) and s.value.func.value.id != self.self_name):
            return self.method_stmt(s.value, rest, kont)
        if isinstance(s, ast.Assign) and len(s.targets) == 1:
            tg = s.targets[0]
            if isinstance(tg, ast.Name) and tg.id != self.record:
                self.track_alias(tg.id, s.value)
                v = s.value
                # x = []  : the element type is fixed by the first append
                if isinstance(v, ast.List) and not v.elts:
                    name = self.target_name(tg)
                    self.env[name] = 'List ?'
                    return self.empty_list(name, rest, kont)
            if isinstance(tg, ast.Subscript) and self.rec_key(tg) is None:
                return self.elem_update(s, rest, kont)
            if isinstance(tg, (ast.Tuple, ast.List)):
                r = self.pair_unpack(s, rest, kont)
                if r is not None:
                    return r
        return super().block(stmts, kont)

    def let(self, pre, name, v, t, rest, kont):
        if t == 'List ?':
            raise Untranslatable('an empty list of unknown element type is used as a value')
        self.env[name] = t
        if pre and pre[-1][0] == 'bind' and pre[-1][1] == v:
            pre = pre[:-1] + [('bind', lname(name), pre[-1][2])]
            return self.wrap(pre, self.block(rest, kont))
        return self.wrap(pre, f'let {lname(name)} : {lean_type(t)} := {v}\n{self.block(rest, kont)}')

    def empty_list(self, name, rest, kont):
        """`name = []`: translate the rest once to learn the element type from the first append, then emit the typed let"""
        found = {}
        self.pending = getattr(self, 'pending', {})
        self.pending[name] = found
        env0, f0, fr0, ea0, pre0 = dict(self.env), self.fresh, set(self.frozen), dict(self.elem_alias), list(self.pre)
        try:
            self.block(rest, lambda: '_')
        except Untranslatable:
            if 't' not in found:
                raise
        finally:
            self.pending.pop(name, None)
        if 't' not in found:
            found['t'] = NATLIST
        self.env, self.fresh, self.frozen, self.elem_alias, self.pre = env0, f0, fr0, ea0, pre0
        self.env[name] = found['t']
        return f'let {lname(name)} : {lean_type(found["t"])} := []\n{self.block(rest, kont)}'

    def method_stmt(self, c, rest, kont):
        x, m = c.func.value.id, c.func.attr
        t = self.env.get(x)
        if x == self.record or t is None or t == POISON:
            raise Untranslatable(f'method call on {x}')
        if m not in MUTATORS or c.keywords or len(c.args) != 1:
            raise Untranslatable(f'statement {x}.{m}(...)')
        if x in self.frozen:
            raise Untranslatable(f'{x} may be shared with another name when it is changed by .{m}')
        if m == 'frombytes':
            if t != BITS:
                raise Untranslatable(f'{x}.frombytes on a {t}')
            v, vt = self.expr(c.args[0])
            if vt != BYTES:
                raise Untranslatable('frombytes of a non-bytes value')
            new = f'(Py.frombytes {lname(x)} {v})'
        else:
            a = c.args[0]
            v, vt = self.expr(a)
            if vt == PROP:
                v, vt = self.num((v, vt))
            if t == 'List ?':
                if vt in (NAT,):
                    t = NATLIST
                elif is_rec(vt) or vt in ('R', OPT('R')):
                    t = LIST(vt)
                else:
                    raise Untranslatable(f'list of {vt}')
                pend = getattr(self, 'pending', {}).get(x)
                if pend is not None and 't' not in pend:
                    pend['t'] = t
                    raise Untranslatable('(element type found)')
                self.env[x] = t
            want = NAT if t == NATLIST else elt_of(t) if is_list(t) else None
            if want is None:
                raise Untranslatable(f'{x}.append on a {t}')
            if vt != want:
                if is_opt(want) and opt_of(want) == vt:
                    v = f'(some {v})'
                elif is_opt(want) and vt == NONE:
                    v = 'none'
                else:
                    raise Untranslatable(f'{x}.append of a {vt} to a {t}')
            if isinstance(a, ast.Name) and is_mutable(vt):
                self.frozen.add(a.id)
            new = f'({lname(x)} ++ [{v}])'
        pre = self.take_pre()
        self.poison_aliases(x)
        return self.wrap(pre, f'let {lname(x)} : {lean_type(t)} := {new}\n{self.block(rest, kont)}')

    def poison_aliases(self, xs):
        for a, l in list(self.elem_alias.items()):
            if l == xs:
                self.env[a] = POISON

    def elem_update(self, s, rest, kont):
        """xs[i]['k'] = e"""
        tg = s.targets[0]
        if not (isinstance(tg.slice, ast.Constant) and isinstance(tg.slice.value, str) and isinstance(tg.value, ast.Subscript)
                and isinstance(tg.value.value, ast.Name)):
            raise Untranslatable('assignment target')
        xs, key = tg.value.value.id, tg.slice.value
        t = self.env.get(xs)
        if t is None or not is_list(t) or not is_rec(elt_of(t)):
            raise Untranslatable(f'element update of {xs}')
        if xs in self.frozen:
            raise Untranslatable(f'{xs} may be shared with another name when it is changed')
        ft = dict(self.records[rec_of(elt_of(t))]).get(key)
        if ft is None:
            raise Untranslatable(f'{rec_of(elt_of(t))} has no declared key {key}')
        iv, it = self.expr(tg.value.slice)
        if it != NAT:
            raise Untranslatable('index of a record list is not known to be non-negative')
        v, vt = self.stored(self.expr(s.value))
        if vt != ft:
            if is_opt(ft) and opt_of(ft) == vt:
                v = f'(some {v})'
            elif is_opt(ft) and vt == NONE:
                v = 'none'
            else:
                raise Untranslatable(f'{xs}[..][{key!r}] = value of type {vt}, declared {ft}')
        pre = self.take_pre()
        self.poison_aliases(xs)
        # Python evaluates the right-hand side first, then xs[i] (IndexError)
        return self.wrap(pre, f'(Py.setAt? {lname(xs)} {iv} fun c => {{ c with {key} := {v} }}).bind fun {lname(xs)} =>\n{self.block(rest, kont)}')

    def pair_unpack(self, s, rest, kont):
        """a, b = helper(...) where the helper returns a pair; None = not this shape"""
        tg = s.targets[0]
        v = s.value
        f = v.func if isinstance(v, ast.Call) else None
        name = None
        if isinstance(f, ast.Attribute) and isinstance(f.value, ast.Name) and f.value.id == self.self_name and self.self_name:
            name = f.attr
        elif isinstance(f, ast.Name):
            name = f.id
        x = self.externs.get(name) if name else None
        if x is None or not isinstance(x['ret'], tuple):
            return None
        names = [self.target_name(t) for t in tg.elts]
        if len(names) != len(x['ret']) or len(set(names)) != len(names):
            raise Untranslatable(f'unpacking the result of {name} into {len(names)} targets')
        x1 = dict(x, ret='?pair')
        saved = self.externs[name]
        self.externs[name] = x1
        try:
            term, _ = self.expr(v)
        finally:
            self.externs[name] = saved
        pre = self.take_pre()
        for n, t in zip(names, x['ret']):
            self.env[n] = t
            self.frozen.discard(n)
            self.elem_alias.pop(n, None)
        body = self.block(rest, kont)
        lets = ''.join(f'let {lname(n)} : {lean_type(t)} := {proj(term, k, len(names))}\n' for k, (n, t) in enumerate(zip(names, x['ret'])))
        return self.wrap(pre, lets + body)

    def record_init(self, s, rest, kont):
        if isinstance(s.value, ast.Dict):
            for v in s.value.values:
                if isinstance(v, ast.Name) and is_mutable(self.env.get(v.id, '')):
                    self.frozen.add(v.id)
        return super().record_init(s, rest, kont)

    def if_(self, s, rest, kont):
        c = self.cond(s.test)
        pre = self.take_pre()
        tl, el = not definitely_exits(s.body), not definitely_exits(s.orelse)
        env0 = dict(self.env)

        def branch(stmts, k):
            self.env = dict(env0)
            return par(self.block(stmts, k))

        def dead(stmts):
            return 'none' if definitely_raises(stmts) else branch(stmts, kont)

        if not tl and not el:
            if definitely_raises(s.body) and definitely_raises(s.orelse):
                return self.wrap(pre, 'none')
            return self.wrap(pre, f'if {c} then\n{dead(s.body)}\nelse\n{dead(s.orelse)}')
        if not (tl and el):
            live = list(s.body if tl else s.orelse) + list(rest)
            other = dead(s.orelse if tl else s.body)
            body = branch(live, kont)
            if tl:
                return self.wrap(pre, f'if {c} then\n{body}\nelse {other}')
            return self.wrap(pre, f'if {c} then {other} else\n{body}')
        if not rest and not getattr(kont, 'join', False):
            a = branch(s.body, kont)
            b = branch(s.orelse, kont)
            return self.wrap(pre, f'if {c} then\n{a}\nelse\n{b}')
        if has_break(s.body) or has_break(s.orelse):
            raise Untranslatable('break inside an if whose other paths continue behind it')
        M = self.assigned(list(s.body) + list(s.orelse))
        ends = []

        def probe():
            ends.append(dict(self.env))
            return '_'
        f0 = self.fresh
        branch(s.body, probe)
        branch(s.orelse, probe)
        self.fresh = f0
        J = {}
        for m in M:
            t = None
            for i, e in enumerate(ends):
                t = e.get(m) if i == 0 else join(t, e.get(m))
            J[m] = POISON if t is None or t == 'List ?' else t
        passed = [m for m in M if J[m] != POISON]

        def pack():
            vals = [coerce(m, self.env[m], J[m]) for m in passed]
            return 'some (' + ', '.join(vals) + ')' if vals else 'some ()'
        a = branch(s.body, pack)
        b = branch(s.orelse, pack)
        self.env = dict(env0)
        for m in M:
            self.env[m] = J[m]
        r = self.block(rest, kont)
        pat = ', '.join(lname(m) for m in passed) if passed else '_u'
        ty = tup_type([J[m] for m in passed])
        return self.wrap(pre, f'(if {c} then\n{a}\nelse\n{b}).bind fun (({pat}) : {ty}) =>\n{r}')

    # ---- loops
    def iterable(self, it, body):
        """-> (Lean term : List T, T)"""
        rev = False
        if (isinstance(it, ast.Call) and isinstance(it.func, ast.Name) and it.func.id == 'reversed' and len(it.args) == 1
                and not it.keywords and 'reversed' not in self.env):
            rev, it = True, it.args[0]
        if (isinstance(it, ast.Call) and isinstance(it.func, ast.Name) and it.func.id == 'range' and not it.keywords
                and 1 <= len(it.args) <= 3 and 'range' not in self.env):
            vs = []
            for a in it.args:
                v, t = self.expr(a)
                if t == PROP:
                    v, t = self.num((v, t))
                if t not in (NAT, INT):
                    raise Untranslatable(f'range argument of type {t}')
                vs.append((v, t))
            if all(t == NAT for _, t in vs):
                xs = [v for v, _ in vs]
                a, b, w = ('0', xs[0], '1') if len(xs) == 1 else (xs[0], xs[1], '1') if len(xs) == 2 else xs
                term, jt = self.hoist(f'Py.range? {a} {b} {w}', 'range'), NAT
            else:
                xs = [self.cast(x) for x in vs]
                a, b, w = ('(0 : Int)', xs[0], '(1 : Int)') if len(xs) == 1 else (xs[0], xs[1], '(1 : Int)') if len(xs) == 2 else xs
                term, jt = self.hoist(f'Py.rangeI? {a} {b} {w}', 'range'), INT
        else:
            term, t = self.expr(it)
            if t != NATLIST:
                raise Untranslatable(f'loop over a {t}')
            root = it
            while isinstance(root, ast.Subscript):
                root = root.value
            if isinstance(root, ast.Name) and root.id in self.assigned(body):
                raise Untranslatable('the iterated list is changed inside the loop')
            jt = NAT
        return (f'{term}.reverse' if rev else term), jt

    def for_(self, s, rest, kont):
        if s.orelse:
            raise Untranslatable('for ... else')
        if not isinstance(s.target, ast.Name):
            raise Untranslatable('loop target')
        j = s.target.id
        if self.env.get(j) not in (None, POISON) or j == self.record or j in LEAN_RESERVED or j in self.callbacks or j == self.self_name:
            raise Untranslatable(f'loop variable {j} shadows another name')
        for n in ast.walk(ast.Module(body=list(s.body), type_ignores=[])):
            if isinstance(n, (ast.Continue, ast.Return, ast.While, ast.Try, ast.With, ast.FunctionDef, ast.Lambda)):
                raise Untranslatable(f'{type(n).__name__} inside a loop')
        assigned = self.assigned(s.body)
        if j in assigned:
            raise Untranslatable(f'the loop variable {j} is assigned in the body')
        term, jt = self.iterable(s.iter, s.body)
        pre = self.take_pre()
        env0 = dict(self.env)
        M = [m for m in assigned if env0.get(m) not in (None, POISON)]
        J = {m: env0[m] for m in M}
        st = self.tmp('st')

        def enter():
            self.env = dict(env0)
            self.env.update(J)
            self.env[j] = jt

        for _ in range(4):
            ends = []

            def probe():
                ends.append(dict(self.env))
                return '_'
            f0 = self.fresh
            enter()
            self.loops.append(probe)
            try:
                self.block(list(s.body), probe)
            finally:
                self.loops.pop()
            self.fresh = f0
            J2 = {}
            for m in M:
                t = J[m]
                for e in ends:
                    t = join(t, e.get(m))
                J2[m] = t
            if J2 == J:
                break
            J = J2
        else:
            raise Untranslatable('the types of the loop-carried variables do not stabilise')
        bad = [m for m in M if J[m] in (POISON, 'List ?')]
        if bad:
            raise Untranslatable(f'loop-carried variable(s) {bad} change type inside the loop')

        def pack(flag):
            vals = [coerce(m, self.env[m], J[m]) for m in M]
            return f'some (({", ".join(vals)}), {flag})' if vals else f'some ((), {flag})'

        def lets():
            return ''.join(f'let {lname(m)} : {lean_type(J[m])} := {proj(st, k, len(M))}\n' for k, m in enumerate(M))
        enter()
        self.loops.append(lambda: pack('true'))
        try:
            body = self.block(list(s.body), lambda: pack('false'))
        finally:
            self.loops.pop()
        self.env = dict(env0)
        init = ', '.join(coerce(m, env0[m], J[m]) for m in M)
        self.env.update(J)
        for m in assigned:
            if m not in M:
                self.env[m] = POISON
        r = self.block(rest, kont)
        sty = tup_type([J[m] for m in M])
        return self.wrap(pre, f'(Py.loop? {term} ({init}) fun ({lname(j)} : {jt}) ({st} : {sty}) =>\n{lets()}{body}).bind fun ({st} : {sty}) =>\n{lets()}{r}')

    # ---- results
    def record_value(self, struct):
        items = []
        for key, kind in self.fields:
            name = f'{self.record}{self.SEP}{key}'
            t = self.env.get(name)
            if t is None or t == POISON:
                raise Untranslatable(f'result field {key} is not set (or has different types) on all paths')
            items.append(f'{key} := {field_value(name, t, kind, key)}')
        return '{ ' + ', '.join(items) + ' }'

    def ret(self, s):
        v = s.value
        if self.ret_shape is None:
            if not (isinstance(v, ast.Name) and v.id == self.record and self.fields):
                raise Untranslatable('the function does not end in `return <record>`')
            return f'some {self.record_value(None)}'
        if len(self.ret_shape) == 1:
            elts = [v]
        elif isinstance(v, ast.Tuple) and len(v.elts) == len(self.ret_shape):
            elts = list(v.elts)
        else:
            raise Untranslatable('shape of the returned value')
        parts = []
        for elt, kind in zip(elts, self.ret_shape):
            if kind[0] == 'record':
                if not (isinstance(elt, ast.Name) and elt.id == self.record and self.fields):
                    raise Untranslatable('the returned record')
                parts.append(f'({self.record_value(kind[1])} : {kind[1]})')
            else:
                x, t = self.stored(self.expr(elt))
                if self.pre:
                    raise Untranslatable('the returned expression can raise')
                if t != kind[1]:
                    raise Untranslatable(f'returned value of type {t}, declared {kind[1]}')
                parts.append(x)
        return 'some (' + ', '.join(parts) + ')'


def struct_text(name, fields, doc, tparams=''):
    lines = [f'/-- {doc} -/', f'structure {name}{(" " + tparams) if tparams else ""} where']
    lines += [f'  {k} : {FIELD_TYPES[kind]}' for k, kind in fields]
    lines += ['  deriving Repr, DecidableEq']
    return '\n'.join(lines) + '\n'


def translate_function(fn, lean_name, params, ret_type, record=None, fields=None, ret_shape=None, tparams='', targs='', split=None, skip=None,
                       sig_extra='', py_sig=None, **kw):
    """-> dict(lean=<text of the definition(s)>, consts=[...]).
    params     [(python name, stored type)] in the order of the Python signature (without `self` when kw['self_name'] is given)
    ret_type   Lean text of the result type inside `Option`
    ret_shape  None: `return <record>`; else [('record', Struct) | ('val', stored type)] for `return a, b`
    split      predicate on a top-level statement: the statements from the unique matching one on are emitted as their own
               definition `<lean_name>_rest` whose parameters are the function's parameters and the locals it reads
               (continuation naming; the meaning of `<lean_name>` is unchanged)
    skip       predicate: leading top-level statements that are declared to be no-ops for the translation (reported by the caller)
    sig_extra  Lean binders appended to the parameter list (callback parameters)"""
    got = [a.arg for a in fn.args.args]
    want = py_sig if py_sig is not None else [n for n, _ in params]
    if got != want or fn.args.vararg or fn.args.kwarg or fn.args.kwonlyargs:
        raise Untranslatable(f'{fn.name}: parameters {got}')
    stmts = list(fn.body)
    while stmts and skip is not None and skip(stmts[0]):
        stmts = stmts[1:]
    tr = LTr(params, record=record, fields=fields, **kw)
    tr.ret_shape = ret_shape

    def end():
        raise Untranslatable('control reaches the end of the function without return')
    tr.top_kont = end
    sig = ' '.join(f'({lname(n)} : {lean_type(t)})' for n, t in params) + ((' ' + sig_extra) if sig_extra else '')
    cb_names = ' '.join(kw.get('callbacks') or {})
    head = f'{(tparams + " ") if tparams else ""}{sig}'
    if split is None:
        body = tr.block(stmts, end)
        return dict(lean=f'def {lean_name} {head} : Option ({ret_type}) :=\n{indent(body)}\n', consts=tr.used_consts)
    splits = list(split) if isinstance(split, (list, tuple)) else [split]
    cuts = []
    for sp in splits:
        cut = [k for k, st in enumerate(stmts) if sp(st)]
        if len(cut) != 1:
            raise Untranslatable(f'{fn.name}: expected exactly one statement starting a named part, found {len(cut)}')
        cuts.append(cut[0])
    if cuts != sorted(set(cuts)) or cuts[0] == 0:
        raise Untranslatable(f'{fn.name}: the named parts are not in order')
    bounds = [0] + cuts + [len(stmts)]
    parts = [stmts[a:b] for a, b in zip(bounds, bounds[1:])]
    names = [lean_name] + [f'{lean_name}_rest{"" if k == 0 else k + 1}' for k in range(len(cuts))]
    pnames = [n for n, _ in params]
    defs = {}

    def caller(k):
        """continuation that calls part k (translating it on first use)"""
        used = {n.id for st in stmts[bounds[k]:] for n in ast.walk(st) if isinstance(n, ast.Name)}
        state = {}

        def call():
            live = [(n, t) for n, t in tr.env.items() if n not in pnames and t != POISON and t != 'List ?'
                    and (n in used or (record and n.startswith(record + LTr.SEP) and record in used))]
            if tr.pre:
                raise Untranslatable('pending partial expression at the start of a named part')
            if 'live' not in state:
                state['live'] = live
                saved = (dict(tr.env), set(tr.frozen), dict(tr.elem_alias))
                defs[k] = (live, tr.block(parts[k], caller(k + 1) if k + 1 < len(parts) else end))
                tr.env, tr.frozen, tr.elem_alias = saved
            elif live != state['live']:
                raise Untranslatable(f'the locals reaching a named part differ between paths: {live} / {state["live"]}')
            args = ' '.join([lname(n) for n in pnames] + ([cb_names] if cb_names else []) + [lname(n) for n, _ in live])
            return f'{names[k]} {targs + " " if targs else ""}{args}'
        call.join = True          # a named part has ONE parameter list: the paths of a final `if` are joined in front of it
        return call
    body = tr.block(parts[0], caller(1))
    text = ''
    for k in range(len(parts) - 1, 0, -1):
        if k not in defs:
            raise Untranslatable('a named part is unreachable')
        live, b = defs[k]
        lsig = ' '.join(f'({lname(n)} : {lean_type(t)})' for n, t in live)
        text += f'def {names[k]} {head} {lsig} : Option ({ret_type}) :=\n{indent(b)}\n\n'
    text += f'def {lean_name} {head} : Option ({ret_type}) :=\n{indent(body)}\n'
    return dict(lean=text, consts=tr.used_consts, live={names[k]: defs[k][0] for k in defs})
