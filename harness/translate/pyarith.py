"""Python -> Lean translator for straight-line integer arithmetic (whole small methods and code slices).

Sibling of pyexpr.py (which handles the CRC byte loops).  Everything outside the subset raises
Untranslatable; the caller then records the translator tie as 'lost' (DESIGN §3).

SUBSET
  types      : Nat (Python int known to be >= 0: lengths, masks, levels), Int (any Python int), Prop (Python bool).
               Every free name / attribute read / len(...) of the source must be DECLARED by the caller in
               `binds` = {source text: (lean parameter name, type)}; an undeclared name is Untranslatable.
  expr       : int literals, True/False, declared names, declared attribute reads (`self._m`), declared `len(x)`,
               + * (Nat or Int), - (see below), // % (Nat; divisor a positive literal or a side condition `0 < d`),
               << >> & | ^ ** (Nat only), unary - and ~ (result Int), comparisons (chains allowed),
               and / or / not over booleans, `a if c else b`, min/max/abs,
               `x.bit_length()`        -> Py.bitLength x        (|x| for an Int, as Python does)
               `bin(x).count('1')`     -> Py.popcount x         (x : Nat)
               `math.ceil(a / k)`      -> Py.ceilDiv a k        ONLY for a : Nat and k a positive int literal.
                                          (Python computes this through a float; it equals the integer ceiling
                                          for a < 2**53, which every bit length on a real machine satisfies.)
               a bool used as a number (`8 * self.is_exotic`) -> (if b then 1 else 0); a number used as a
               condition (`1 if n % 8 else 0`) -> n % 8 != 0.
  statements : NAME = expr | NAME op= expr | if/elif/else | return expr | raise (only in 'raises' mode) | docstrings.
               A block is turned into nested `let` / `if then else`; statements after an `if` are copied into both
               branches (functions are tiny).  'raises' mode translates a checker (`if c: raise ...`) to the Prop
               "an exception is raised".
  SUBTRACTION on Nat operands is emitted as Lean's truncated `a - b` TOGETHER WITH the side condition `b <= a`
  under the path condition of the place where it is evaluated (short-circuit `or`/`and`, conditional branches).
  All side conditions of a definition are emitted as `<name>_sideOk : Prop`; the source theorems prove
  `<name>_sideOk` next to the equation, so Python's unbounded subtraction and Lean's truncated one agree wherever the
  code evaluates it.  With an Int operand, subtraction is exact Int subtraction.

ROUND 2 EXTENSIONS (design/translators.md "Round 2")
  opaque operands : ANY sub-expression whose source text is declared in `binds` is read as that parameter
               (`'node_id in seen': ('dup', Bool)`, `'cell[0].get_hash(0)': ('h0', Bytes)`).
  Bytes      : a fourth type (Lean `Bytes` = list of byte values, lean/TonVerif/PyBytes.lean): bytes literals, declared names,
               `a + b` (concatenation), `x[lo:hi]` / `x[lo:]` / `x[:hi]` with non-negative Nat bounds (Python's clamping slice =
               `Py.slice`), `x[i]` (-> `Py.byteAt x i` with side condition `i < len(x)`), `len(x)`, `==` / `!=`,
               `e.to_bytes(w, 'big'|'little')` for e : Nat and a literal w (-> `Py.toBytes big w e`, side condition `e < 256^w`
               = "no OverflowError"), `int.from_bytes(x, 'big'|'little')` (-> `Py.fromBytes big x`), `n * x` / `x * n` (n : Nat).
  statements : assignment to a declared Nat/Int input shadows it (`i += 4`); assignment to an attribute (`self.flag = True`)
               is a local too; a read of a never-assigned attribute is the declared input.
  selectors  : ('match', PATTERN), ('stmts', FIRST, LAST, RESULT), ('class_attr', NAME) - see `pick`.
"""
import ast

from .pyexpr import Untranslatable

NAT, INT, PROP, BYTES = 'Nat', 'Int', 'Prop', 'Bytes'

ARITH = {ast.Add: '+', ast.Mult: '*'}
NATOPS = {ast.FloorDiv: '/', ast.Mod: '%', ast.LShift: '<<<', ast.RShift: '>>>', ast.BitAnd: '&&&', ast.BitOr: '|||',
          ast.BitXor: '^^^', ast.Pow: '^'}
CMPS = {ast.Eq: '=', ast.NotEq: '≠', ast.Lt: '<', ast.LtE: '≤', ast.Gt: '>', ast.GtE: '≥'}


class Tr:
    def __init__(self, binds, unwrap=(), raises=False):
        self.binds = dict(binds)      # source text -> (lean name, type)
        self.unwrap = set(unwrap)     # constructor names whose single argument is the value (`LevelMask(e)` -> e)
        self.raises = raises
        self.params = []              # [(lean name, type)] in order of first use
        self.locals = {}              # let-bound python name -> type
        self.bool_locals = set()      # locals whose value is a Python bool (carried as Nat 0/1)
        self.path = []                # path condition (list of Lean Props)
        self.side = []                # side conditions (Lean Props, already under their path condition)
        self.notes = []

    # ---- helpers
    def param(self, key):
        name, ty = self.binds[key]
        if (name, ty) not in self.params:
            self.params.append((name, ty))
        return (f'({name} = true)' if ty == 'Bool' else name), (PROP if ty == 'Bool' else ty)

    @staticmethod
    def lname(key):
        return key.replace('.', '_')

    def need(self, cond):
        pc = ' → '.join(self.path + [cond])
        c = f'({pc})'
        if c not in self.side:
            self.side.append(c)

    def num(self, et):
        e, t = et
        return (f'(if {e} then 1 else 0)', NAT) if t == PROP else et

    def truth(self, et):
        e, t = et
        if t == BYTES:
            return f'({e} ≠ [])'
        return e if t == PROP else f'({e} ≠ 0)'

    def unify(self, a, b):
        a, b = self.num(a), self.num(b)
        if a[1] == b[1]:
            return a[0], b[0], a[1]
        if BYTES in (a[1], b[1]):
            raise Untranslatable('bytes mixed with a number')
        return self.cast(a), self.cast(b), INT

    @staticmethod
    def cast(x):
        if x[1] == INT:
            return x[0]
        return f'({x[0]} : Int)' if x[0].isdigit() else f'(({x[0]} : Nat) : Int)'

    def nat(self, et, what):
        e, t = self.num(et)
        if t != NAT:
            raise Untranslatable(f'{what} needs a non-negative int operand')
        return e

    def under(self, cond, f):
        self.path.append(cond)
        try:
            return f()
        finally:
            self.path.pop()

    # ---- expressions: returns (lean text, type)
    def expr(self, e):
        key = ast.unparse(e)
        if isinstance(e, ast.Constant):
            if isinstance(e.value, bool):
                return ('True' if e.value else 'False'), PROP
            if isinstance(e.value, int) and e.value >= 0:
                return str(e.value), NAT
            if isinstance(e.value, bytes):
                return '([' + ', '.join(str(b) for b in e.value) + '] : Bytes)', BYTES
            raise Untranslatable(f'constant {e.value!r}')
        if key in self.locals and isinstance(e, (ast.Name, ast.Attribute)):
            return self.lname(key), self.locals[key]
        if key in self.binds and not isinstance(e, (ast.Name, ast.Attribute, ast.Call)):
            return self.param(key)            # a declared opaque operand
        if isinstance(e, ast.Subscript):
            return self.subscript(e)
        if isinstance(e, ast.Name):
            if e.id in self.locals:
                return e.id, self.locals[e.id]
            if key in self.binds:
                return self.param(key)
            raise Untranslatable(f'undeclared name {e.id}')
        if isinstance(e, ast.Attribute):
            if key in self.binds:
                return self.param(key)
            raise Untranslatable(f'undeclared attribute read {key}')
        if isinstance(e, ast.BinOp):
            return self.binop(e)
        if isinstance(e, ast.UnaryOp):
            if isinstance(e.op, ast.Not):
                return f'(¬ {self.truth(self.expr(e.operand))})', PROP
            v = self.cast(self.num(self.expr(e.operand)))
            if isinstance(e.op, ast.USub):
                return f'(-{v})', INT
            if isinstance(e.op, ast.Invert):
                return f'(-{v} - 1)', INT
            raise Untranslatable('unary operator')
        if isinstance(e, ast.BoolOp):
            parts = []
            conn = ' ∨ ' if isinstance(e.op, ast.Or) else ' ∧ '
            depth = 0
            try:
                for v in e.values:
                    x = self.expr(v)
                    if x[1] == NAT and ast.unparse(v) in self.bool_locals:
                        x = (f'({x[0]} ≠ 0)', PROP)          # a local that holds a Python bool (carried as 0/1)
                    if x[1] != PROP:
                        raise Untranslatable('and/or over non-boolean operands')
                    parts.append(x[0])
                    self.path.append(f'(¬ {x[0]})' if isinstance(e.op, ast.Or) else x[0])   # later operands run only then
                    depth += 1
            finally:
                del self.path[len(self.path) - depth:]
            return '(' + conn.join(parts) + ')', PROP
        if isinstance(e, ast.Compare) and len(e.ops) == 1 and isinstance(e.ops[0], (ast.NotIn, ast.IsNot)):
            pos = ast.unparse(ast.Compare(left=e.left, ops=[ast.In() if isinstance(e.ops[0], ast.NotIn) else ast.Is()], comparators=e.comparators))
            if pos in self.binds:         # the negation of a declared opaque truth value
                return f'(¬ {self.truth(self.param(pos))})', PROP
        if isinstance(e, ast.Compare):
            parts = []
            left = self.expr(e.left)
            for op, right in zip(e.ops, e.comparators):
                sym = CMPS.get(type(op))
                if sym is None:
                    raise Untranslatable(f'comparison {type(op).__name__}')
                r = self.expr(right)
                if BYTES in (left[1], r[1]) and not (left[1] == r[1] and sym in ('=', '≠')):
                    raise Untranslatable('bytes comparison other than == / != between bytes')
                if left[1] == PROP and r[1] == PROP and sym in ('=', '≠'):
                    a, b = left[0], r[0]
                    parts.append(f'({a} ↔ {b})' if sym == '=' else f'(¬ ({a} ↔ {b}))')
                else:
                    a, b, _ = self.unify(left, r)
                    parts.append(f'({a} {sym} {b})')
                left = r
            return (parts[0] if len(parts) == 1 else '(' + ' ∧ '.join(parts) + ')'), PROP
        if isinstance(e, ast.IfExp):
            c = self.truth(self.expr(e.test))
            a = self.under(c, lambda: self.expr(e.body))
            b = self.under(f'(¬ {c})', lambda: self.expr(e.orelse))
            return self.ite(c, a, b)
        if isinstance(e, ast.Call):
            return self.call(e, key)
        raise Untranslatable(f'expression {key[:60]}')

    def ite(self, c, a, b):
        if a[1] == PROP and b[1] == PROP:
            return f'(if {c} then {a[0]} else {b[0]})', PROP
        x, y, t = self.unify(a, b)
        return f'(if {c} then {x} else {y})', t

    def binop(self, e):
        l, r = self.expr(e.left), self.expr(e.right)
        ty = type(e.op)
        if ty is ast.Add and l[1] == BYTES and r[1] == BYTES:
            return f'({l[0]} ++ {r[0]})', BYTES
        if ty is ast.Mult and {l[1], r[1]} == {BYTES, NAT}:
            bs, n = (l, r) if l[1] == BYTES else (r, l)
            return f'(Py.repeatBytes {bs[0]} {n[0]})', BYTES
        if BYTES in (l[1], r[1]):
            raise Untranslatable('bytes operand of an arithmetic operator')
        if ty in ARITH:
            a, b, t = self.unify(l, r)
            return f'({a} {ARITH[ty]} {b})', t
        if ty is ast.Sub:
            a, b, t = self.unify(l, r)
            if t == NAT:
                self.need(f'{b} ≤ {a}')
            return f'({a} - {b})', t
        if ty in NATOPS:
            a, b = self.nat(l, NATOPS[ty]), self.nat(r, NATOPS[ty])
            if ty in (ast.FloorDiv, ast.Mod) and not (isinstance(e.right, ast.Constant) and e.right.value > 0):
                self.need(f'0 < {b}')
            return f'({a} {NATOPS[ty]} {b})', NAT
        raise Untranslatable(f'operator {ty.__name__}')

    def subscript(self, e):
        base = self.expr(e.value)
        if base[1] != BYTES:
            raise Untranslatable(f'subscript of a non-bytes value {ast.unparse(e)[:60]}')
        if isinstance(e.slice, ast.Slice):
            if e.slice.step is not None:
                raise Untranslatable('slice step')
            lo = '0' if e.slice.lower is None else self.nat(self.expr(e.slice.lower), 'slice bound')
            if e.slice.upper is None:
                return f'(Py.sliceFrom {base[0]} {lo})', BYTES
            return f'(Py.slice {base[0]} {lo} {self.nat(self.expr(e.slice.upper), "slice bound")})', BYTES
        i = self.nat(self.expr(e.slice), 'index')
        self.need(f'{i} < ({base[0]}).length')       # otherwise IndexError
        return f'(Py.byteAt {base[0]} {i})', NAT

    @staticmethod
    def _order(node):
        if isinstance(node, ast.Constant) and node.value in ('big', 'little'):
            return 'true' if node.value == 'big' else 'false'
        raise Untranslatable('byte order must be the literal "big" or "little"')

    def bytes_call(self, e):
        """`e.to_bytes(w, order)` / `int.from_bytes(x, order)`; None = not one of them."""
        f = e.func
        if not isinstance(f, ast.Attribute) or f.attr not in ('to_bytes', 'from_bytes'):
            return None
        names = ('length', 'byteorder') if f.attr == 'to_bytes' else ('bytes', 'byteorder')
        args = dict(zip(names, e.args))
        if len(e.args) > 2:
            raise Untranslatable(f'{f.attr}: too many positional arguments')
        for k in e.keywords:
            if k.arg == 'signed' and isinstance(k.value, ast.Constant) and k.value.value is False:
                continue
            if k.arg not in names or k.arg in args:
                raise Untranslatable(f'{f.attr}: argument {k.arg}')
            args[k.arg] = k.value
        if set(args) != set(names):
            raise Untranslatable(f'{f.attr}: needs {names}')
        big = self._order(args['byteorder'])
        if f.attr == 'to_bytes':
            w = args['length']
            if not (isinstance(w, ast.Constant) and isinstance(w.value, int) and not isinstance(w.value, bool) and w.value >= 0):
                raise Untranslatable('to_bytes: the length must be an int literal')
            v = self.nat(self.expr(f.value), 'to_bytes (unsigned)')
            self.need(f'{v} < 256 ^ {w.value}')      # otherwise OverflowError
            return f'(Py.toBytes {big} {w.value} {v})', BYTES
        if not (isinstance(f.value, ast.Name) and f.value.id == 'int'):
            return None
        x = self.expr(args['bytes'])
        if x[1] != BYTES:
            raise Untranslatable('int.from_bytes of a non-bytes value')
        return f'(Py.fromBytes {big} {x[0]})', NAT

    def call(self, e, key):
        f = e.func
        if key in self.binds:
            return self.param(key)
        r = self.bytes_call(e)
        if r is not None:
            return r
        if isinstance(f, ast.Name) and f.id == 'len' and len(e.args) == 1 and not e.keywords:
            try:
                x = self.expr(e.args[0])
            except Untranslatable:
                x = None
            if x is not None and x[1] == BYTES:
                return f'({x[0]}).length', NAT
        if e.keywords:
            raise Untranslatable(f'call {key[:60]}')
        if isinstance(f, ast.Attribute) and f.attr == 'bit_length' and not e.args:
            v, t = self.num(self.expr(f.value))
            return (f'(Py.bitLength {v})' if t == NAT else f'(Py.bitLength ({v}).natAbs)'), NAT
        if (isinstance(f, ast.Attribute) and f.attr == 'count' and len(e.args) == 1 and isinstance(e.args[0], ast.Constant)
                and e.args[0].value == '1' and isinstance(f.value, ast.Call) and isinstance(f.value.func, ast.Name)
                and f.value.func.id == 'bin' and len(f.value.args) == 1 and not f.value.keywords):
            return f'(Py.popcount {self.nat(self.expr(f.value.args[0]), "bin(x).count")})', NAT
        if (isinstance(f, ast.Attribute) and f.attr == 'ceil' and isinstance(f.value, ast.Name) and f.value.id == 'math'
                and len(e.args) == 1 and isinstance(e.args[0], ast.BinOp) and isinstance(e.args[0].op, ast.Div)):
            d = e.args[0].right
            if not (isinstance(d, ast.Constant) and isinstance(d.value, int) and not isinstance(d.value, bool) and d.value > 0):
                raise Untranslatable('math.ceil(a / k): k must be a positive int literal')
            a = self.nat(self.expr(e.args[0].left), 'math.ceil(a / k)')
            self.notes.append(f'math.ceil({ast.unparse(e.args[0])}) read as integer ceiling division (exact below 2**53)')
            return f'(Py.ceilDiv {a} {d.value})', NAT
        if isinstance(f, ast.Name) and f.id in ('min', 'max') and len(e.args) >= 2:
            acc = self.expr(e.args[0])
            for x in e.args[1:]:
                a, b, t = self.unify(acc, self.expr(x))
                acc = (f'({f.id} {a} {b})', t)
            return acc
        if isinstance(f, ast.Name) and f.id == 'abs' and len(e.args) == 1:
            v, t = self.num(self.expr(e.args[0]))
            return (v, NAT) if t == NAT else (f'({v}).natAbs', NAT)
        if isinstance(f, ast.Name) and f.id == 'len' and key in self.binds:
            return self.param(key)
        if isinstance(f, ast.Name) and f.id in self.unwrap and len(e.args) == 1:
            self.notes.append(f'{f.id}(e) read as e')
            return self.expr(e.args[0])
        if key in self.binds:
            return self.param(key)
        raise Untranslatable(f'call {key[:60]}')

    # ---- statements: a block becomes one Lean term
    def block(self, stmts):
        if not stmts:
            if self.raises:
                return 'False', PROP
            raise Untranslatable('control reaches the end without return')
        s, rest = stmts[0], stmts[1:]
        if isinstance(s, ast.Expr) and isinstance(s.value, ast.Constant) and isinstance(s.value.value, str):
            return self.block(rest)
        if isinstance(s, ast.Return):
            if self.raises:
                return 'False', PROP
            if s.value is None:
                raise Untranslatable('bare return')
            return self.expr(s.value)
        if isinstance(s, ast.Raise):
            if self.raises:
                return 'True', PROP
            raise Untranslatable('raise')
        if isinstance(s, (ast.Assign, ast.AugAssign)):
            def target(t):
                if isinstance(t, ast.Name) or (isinstance(t, ast.Attribute) and isinstance(t.value, ast.Name)):
                    return ast.unparse(t)
                raise Untranslatable('assignment target')
            if isinstance(s, ast.Assign):
                if len(s.targets) != 1:
                    raise Untranslatable('assignment target')
                key, val = target(s.targets[0]), self.expr(s.value)
            else:
                key = target(s.target)
                load = ast.parse(key, mode='eval').body
                val = self.expr(ast.BinOp(left=load, op=s.op, right=s.value))
            v, t = self.num(val)
            (self.bool_locals.add if val[1] == PROP else self.bool_locals.discard)(key)
            if key in self.binds and key not in self.locals:
                if self.binds[key][1] == 'Bool':
                    if t != NAT:
                        raise Untranslatable(f'assignment of a non-boolean to the declared flag {key}')
                elif self.binds[key][1] != t and not (self.binds[key][1] == INT and t == NAT):
                    raise Untranslatable(f'assignment to the declared input {key} changes its type')
            name = self.lname(key)
            old = self.locals.get(key)
            self.locals[key] = t
            # side conditions of the rest mention the local: keep them under the binding
            n0 = len(self.side)
            body = self.block(rest)
            self.side[n0:] = [f'(let {name} : {t} := {v}; {c})' for c in self.side[n0:]]
            if old is None:
                del self.locals[key]
            else:
                self.locals[key] = old
            return f'(let {name} : {t} := {v}; {body[0]})', body[1]
        if isinstance(s, ast.If):
            c = self.truth(self.expr(s.test))
            a = self.under(c, lambda: self.block(s.body + rest))
            b = self.under(f'(¬ {c})', lambda: self.block(s.orelse + rest))
            return self.ite(c, a, b)
        raise Untranslatable(f'statement {type(s).__name__}')


# ---------------------------------------------------------------------------- locating code

def find_def(tree, cls, name):
    body = tree.body
    if cls:
        cs = [n for n in body if isinstance(n, ast.ClassDef) and n.name == cls]
        if len(cs) != 1:
            raise Untranslatable(f'class {cls} not found')
        body = cs[0].body
    if name is None:
        return cs[0]
    fs = [n for n in body if isinstance(n, ast.FunctionDef) and n.name == name]
    if len(fs) != 1:
        raise Untranslatable(f'function {cls}.{name} not found (or defined twice)')
    return fs[0]


def _one(xs, what):
    if len(xs) != 1:
        raise Untranslatable(f'{what}: expected exactly one, found {len(xs)}')
    return xs[0]


def pick(fn, how):
    """Selects what is translated.  Returns ('block', stmts) or ('expr', node).
       ('whole',)              the whole body
       ('assign', NAME)        the right-hand side of the only assignment to NAME in the function
       ('raise_if', TEXT)      the test of the only `if c: raise X(..TEXT..)`
       ('early_return',)       the test of the first top-level `if c: ... return`
       ('slice', BASE, 0|1)    lower / upper bound of the only subscript `BASE[lo:hi]` (BASE as source text)
       ('call_arg', ATTR, i)   i-th positional argument of the only call `<..>.ATTR(...)`
       ('class_attr', NAME)    (fn is a ClassDef) the value of the only class-level `NAME = expr`
       ('match', PATTERN)      the sub-expression captured by `__X__` in the only place of the function that matches PATTERN
                               (Python source of one statement / expression; `__ANY..__` = any expression; a final `...` in a
                               block = any remaining statements); e.g. "if __X__:\n    return"
       ('stmts', P1, P2, RES)  the consecutive statements (of one block, anywhere in the function) from the only statement
                               matching pattern P1 through the next one matching P2, followed by `return RES`; RES is Python
                               source or a nested expression selector such as ('match', PATTERN)"""
    kind = how[0]
    if kind == 'whole':
        return 'block', fn.body
    if kind == 'assign':
        stores = [n for n in ast.walk(fn) if isinstance(n, ast.Name) and n.id == how[1] and isinstance(n.ctx, (ast.Store, ast.Del))]
        st = _one(stores, f'binding of {how[1]}')
        hits = [n for n in ast.walk(fn) if isinstance(n, ast.Assign) and len(n.targets) == 1 and n.targets[0] is st]
        return 'expr', _one(hits, f'plain assignment to {how[1]}').value
    if kind == 'raise_if':
        hits = [n for n in ast.walk(fn) if isinstance(n, ast.If) and len(n.body) == 1 and isinstance(n.body[0], ast.Raise)
                and how[1] in ast.unparse(n.body[0]) and not n.orelse]
        return 'expr', _one(hits, f'if ...: raise ...{how[1]}...').test
    if kind == 'early_return':
        for n in fn.body:
            if isinstance(n, ast.If):
                if isinstance(n.body[-1], ast.Return) and not n.orelse:
                    return 'expr', n.test
                break
            if not (isinstance(n, ast.Expr) and isinstance(n.value, ast.Constant)):
                break
        raise Untranslatable('no leading `if c: ... return`')
    if kind == 'slice':
        hits = [n for n in ast.walk(fn) if isinstance(n, ast.Subscript) and isinstance(n.slice, ast.Slice)
                and ast.unparse(n.value) == how[1]]
        s = _one(hits, f'{how[1]}[lo:hi]').slice
        b = (s.lower, s.upper)[how[2]]
        if b is None or s.step is not None:
            raise Untranslatable('slice bound missing')
        return 'expr', b
    if kind == 'call_arg':
        hits = [n for n in ast.walk(fn) if isinstance(n, ast.Call) and isinstance(n.func, ast.Attribute) and n.func.attr == how[1]]
        c = _one(hits, f'call of .{how[1]}')
        if len(c.args) <= how[2] or c.keywords:
            raise Untranslatable('call shape')
        return 'expr', c.args[how[2]]
    if kind == 'class_attr':
        hits = [n for n in fn.body if isinstance(n, ast.Assign) and len(n.targets) == 1 and isinstance(n.targets[0], ast.Name)
                and n.targets[0].id == how[1]]
        return 'expr', _one(hits, f'class attribute {how[1]}').value
    if kind == 'match':
        pat = _pattern(how[1])
        hits = []
        for n in ast.walk(fn):
            cap = {}
            if type(n) is type(pat) and _match(pat, n, cap) and 'X' in cap:
                hits.append(cap['X'])
        return 'expr', _one(hits, f'match of `{" ".join(how[1].split())[:80]}`')
    if kind == 'stmts':
        first, last = _pattern(how[1]), _pattern(how[2])
        hits = []
        for lst in _stmt_lists(fn):
            for i, st in enumerate(lst):
                if type(st) is type(first) and _match(first, st, {}):
                    js = [j for j in range(i, len(lst)) if type(lst[j]) is type(last) and _match(last, lst[j], {})]
                    if js:
                        hits.append(lst[i:js[0] + 1])
        stmts = _one(hits, f'statements `{how[1][:40]}` .. `{how[2][:40]}`')
        if isinstance(how[3], (tuple, list)):       # the result is itself a selected expression of the function (e.g. an `if` test)
            what, res = pick(fn, tuple(how[3]))
            if what != 'expr':
                raise Untranslatable('stmts: the result selector must select an expression')
        else:
            res = ast.parse(how[3], mode='eval').body
        return 'block', list(stmts) + [ast.Return(value=res)]
    raise Untranslatable(f'selector {kind}')


def _pattern(text):
    """A pattern is Python source: a statement or an expression.  `__X__` captures (the selected expression), names starting
    with `__ANY` match any expression, a statement `...` at the end of a block matches the remaining statements."""
    body = ast.parse(text).body
    if len(body) != 1:
        raise Untranslatable('pattern must be one statement or expression')
    st = body[0]
    return st.value if isinstance(st, ast.Expr) else st


def _stmt_lists(fn):
    for n in ast.walk(fn):
        for f in ('body', 'orelse', 'finalbody'):
            lst = getattr(n, f, None)
            if isinstance(lst, list) and lst and isinstance(lst[0], ast.stmt):
                yield lst


def _match(p, n, cap):
    if isinstance(p, ast.Name) and p.id == '__X__':
        if not isinstance(n, ast.expr):
            return False
        if 'X' in cap and ast.dump(cap['X']) != ast.dump(n):
            return False
        cap['X'] = n
        return True
    if isinstance(p, ast.Name) and p.id.startswith('__ANY'):
        return isinstance(n, ast.expr)
    if type(p) is not type(n):
        return False
    for field in p._fields:
        if field in ('ctx', 'type_comment', 'kind'):
            continue
        a, b = getattr(p, field, None), getattr(n, field, None)
        if isinstance(a, list):
            if not isinstance(b, list):
                return False
            if a and isinstance(a[-1], ast.Expr) and isinstance(a[-1].value, ast.Constant) and a[-1].value.value is Ellipsis:
                a = a[:-1]
                if len(b) < len(a):
                    return False
                b = b[:len(a)]
            if len(a) != len(b) or not all(_match(x, y, cap) for x, y in zip(a, b)):
                return False
        elif isinstance(a, ast.AST):
            if not isinstance(b, ast.AST) or not _match(a, b, cap):
                return False
        elif a != b:
            return False
    return True


def translate(fn, lean_name, how, binds, params=None, ret=None, unwrap=(), strip_to_bytes=False, src=''):
    """-> dict(lean=<text of the definitions>, notes=[...], to_bytes=(width, order)|None).
    `params` fixes the parameter list and order (all must be declared in binds); `ret` = 'Bool' wraps a Prop in decide."""
    tr = Tr(binds, unwrap, raises=(ret == 'raises'))
    what, node = pick(fn, how)
    to_bytes = None
    if what == 'block':
        stmts = list(node)
        if strip_to_bytes:
            last = stmts[-1] if stmts else None
            v = last.value if isinstance(last, ast.Return) else None
            if not (isinstance(v, ast.Call) and isinstance(v.func, ast.Attribute) and v.func.attr == 'to_bytes' and len(v.args) == 2
                    and not v.keywords and all(isinstance(a, ast.Constant) for a in v.args) and v.args[1].value in ('big', 'little')
                    and isinstance(v.args[0].value, int)):
                raise Untranslatable('final return is not <expr>.to_bytes(<int>, "big"|"little")')
            to_bytes = (v.args[0].value, v.args[1].value)
            stmts = stmts[:-1] + [ast.Return(value=v.func.value)]
        body, ty = tr.block(stmts)
    else:
        body, ty = tr.expr(node)
    if ty == PROP:
        if ret not in ('Bool', 'raises'):
            raise Untranslatable('boolean result where a number was declared')
        body, ty = f'decide {body}', 'Bool'
    elif ret == 'Bool' and ty == NAT and what == 'block':
        body, ty = f'decide ({body} ≠ 0)', 'Bool'      # a flag built by assignments (`x = True`) is carried as 0/1
    elif ret in ('Bool', 'raises'):
        raise Untranslatable('numeric result where a boolean was declared')
    elif ret and ret != ty:
        if ret == INT and ty == NAT:
            body, ty = f'(({body} : Nat) : Int)', INT
        else:
            raise Untranslatable(f'result type {ty}, declared {ret}')
    plist = tr.params
    if params is not None:
        decl = {n: t for n, t in binds.values()}
        extra = [p for p in tr.params if p[0] not in params]
        if extra:
            raise Untranslatable(f'reads inputs outside the declared parameter list: {extra}')
        plist = [(p, decl[p]) for p in params]
    sig = ' '.join(f'({n} : {t})' for n, t in plist)
    sig = (' ' + sig) if sig else ''
    side = ' ∧\n    '.join(tr.side) if tr.side else 'True'
    text = ' '.join(ast.unparse(node if what == 'expr' else ast.Module(body=list(node), type_ignores=[])).split())
    text = text.replace('-/', '- /').replace('/-', '/ -')
    doc = f'/-- {src}\n    source: `{text[:300]}` -/\n'
    lean = (f'{doc}def {lean_name}{sig} : {ty} :=\n  {body}\n'
            f'/-- no-underflow / non-zero-divisor side conditions of `{lean_name}` (Python ints vs Lean Nat) -/\n'
            f'def {lean_name}_sideOk{sig} : Prop :=\n    {side}\n'
            f'instance{sig} : Decidable ({lean_name}_sideOk{"".join(" " + n for n, _ in plist)}) := by\n'
            f'  unfold {lean_name}_sideOk; exact inferInstance\n')
    if to_bytes:
        lean += f'def {lean_name}_width : Nat := {to_bytes[0]}\ndef {lean_name}_bigEndian : Bool := {"true" if to_bytes[1] == "big" else "false"}\n'
    return dict(lean=lean, notes=tr.notes, to_bytes=to_bytes, params=plist, type=ty)
