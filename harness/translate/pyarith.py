"""Python -> Lean translator for straight-line integer arithmetic (whole small methods and code slices).

Sibling of pyexpr.py (which handles the CRC byte loops).  Everything outside the subset raises
Untranslatable; the caller then records the translator tie as 'lost' (DESIGN §3).

SUBSET
  types      : Nat (Python int known to be >= 0: lengths, masks, levels), Int (any Python int), Prop (Python bool).
               Every free name / attribute read / len(...) of the source must be DECLARED by the caller in
               `binds` = {source text: (lean parameter name, type)}; an undeclared name is Untranslatable.
  expr       : int literals, True/False, declared names, declared attribute reads (`self._m`), declared `len(x)`,
               + * (Nat or Int), - (see below), // % (Nat; divisor a positive literal or a side condition `0 < d`),
               << >> & | ^ ** (Nat only), unary - and ~ (result Int), comparisons (chains allowed),
               and / or / not over booleans, `a if c else b`, min/max/abs,
               `x.bit_length()`        -> Py.bitLength x        (|x| for an Int, as Python does)
               `bin(x).count('1')`     -> Py.popcount x         (x : Nat)
               `math.ceil(a / k)`      -> Py.ceilDiv a k        ONLY for a : Nat and k a positive int literal.
                                          (Python computes this through a float; it equals the integer ceiling
                                          for a < 2**53, which every bit length on a real machine satisfies.)
               a bool used as a number (`8 * self.is_exotic`) -> (if b then 1 else 0); a number used as a
               condition (`1 if n % 8 else 0`) -> n % 8 != 0.
  statements : NAME = expr | NAME op= expr | if/elif/else | return expr | raise (only in 'raises' mode) | docstrings.
               A block is turned into nested `let` / `if then else`; statements after an `if` are copied into both
               branches (functions are tiny).  'raises' mode translates a checker (`if c: raise ...`) to the Prop
               "an exception is raised".
  SUBTRACTION on Nat operands is emitted as Lean's truncated `a - b` TOGETHER WITH the side condition `b <= a`
  under the path condition of the place where it is evaluated (short-circuit `or`/`and`, conditional branches).
  All side conditions of a definition are emitted as `<name>_sideOk : Prop`; the source theorems prove
  `<name>_sideOk` next to the equation, so Python's unbounded subtraction and Lean's truncated one agree wherever the
  code evaluates it.  With an Int operand, subtraction is exact Int subtraction.
"""
import ast

from .pyexpr import Untranslatable

NAT, INT, PROP = 'Nat', 'Int', 'Prop'

ARITH = {ast.Add: '+', ast.Mult: '*'}
NATOPS = {ast.FloorDiv: '/', ast.Mod: '%', ast.LShift: '<<<', ast.RShift: '>>>', ast.BitAnd: '&&&', ast.BitOr: '|||',
          ast.BitXor: '^^^', ast.Pow: '^'}
CMPS = {ast.Eq: '=', ast.NotEq: '≠', ast.Lt: '<', ast.LtE: '≤', ast.Gt: '>', ast.GtE: '≥'}


class Tr:
    def __init__(self, binds, unwrap=(), raises=False):
        self.binds = dict(binds)      # source text -> (lean name, type)
        self.unwrap = set(unwrap)     # constructor names whose single argument is the value (`LevelMask(e)` -> e)
        self.raises = raises
        self.params = []              # [(lean name, type)] in order of first use
        self.locals = {}              # let-bound python name -> type
        self.path = []                # path condition (list of Lean Props)
        self.side = []                # side conditions (Lean Props, already under their path condition)
        self.notes = []

    # ---- helpers
    def param(self, key):
        name, ty = self.binds[key]
        if (name, ty) not in self.params:
            self.params.append((name, ty))
        return (f'({name} = true)' if ty == 'Bool' else name), (PROP if ty == 'Bool' else ty)

    def need(self, cond):
        pc = ' → '.join(self.path + [cond])
        c = f'({pc})'
        if c not in self.side:
            self.side.append(c)

    def num(self, et):
        e, t = et
        return (f'(if {e} then 1 else 0)', NAT) if t == PROP else et

    def truth(self, et):
        e, t = et
        return e if t == PROP else f'({e} ≠ 0)'

    def unify(self, a, b):
        a, b = self.num(a), self.num(b)
        if a[1] == b[1]:
            return a[0], b[0], a[1]
        return self.cast(a), self.cast(b), INT

    @staticmethod
    def cast(x):
        if x[1] == INT:
            return x[0]
        return f'({x[0]} : Int)' if x[0].isdigit() else f'(({x[0]} : Nat) : Int)'

    def nat(self, et, what):
        e, t = self.num(et)
        if t != NAT:
            raise Untranslatable(f'{what} needs a non-negative int operand')
        return e

    def under(self, cond, f):
        self.path.append(cond)
        try:
            return f()
        finally:
            self.path.pop()

    # ---- expressions: returns (lean text, type)
    def expr(self, e):
        key = ast.unparse(e)
        if isinstance(e, ast.Constant):
            if isinstance(e.value, bool):
                return ('True' if e.value else 'False'), PROP
            if isinstance(e.value, int) and e.value >= 0:
                return str(e.value), NAT
            raise Untranslatable(f'constant {e.value!r}')
        if isinstance(e, ast.Name):
            if e.id in self.locals:
                return e.id, self.locals[e.id]
            if key in self.binds:
                return self.param(key)
            raise Untranslatable(f'undeclared name {e.id}')
        if isinstance(e, ast.Attribute):
            if key in self.binds:
                return self.param(key)
            raise Untranslatable(f'undeclared attribute read {key}')
        if isinstance(e, ast.BinOp):
            return self.binop(e)
        if isinstance(e, ast.UnaryOp):
            if isinstance(e.op, ast.Not):
                return f'(¬ {self.truth(self.expr(e.operand))})', PROP
            v = self.cast(self.num(self.expr(e.operand)))
            if isinstance(e.op, ast.USub):
                return f'(-{v})', INT
            if isinstance(e.op, ast.Invert):
                return f'(-{v} - 1)', INT
            raise Untranslatable('unary operator')
        if isinstance(e, ast.BoolOp):
            parts = []
            conn = ' ∨ ' if isinstance(e.op, ast.Or) else ' ∧ '
            depth = 0
            try:
                for v in e.values:
                    x = self.expr(v)
                    if x[1] != PROP:
                        raise Untranslatable('and/or over non-boolean operands')
                    parts.append(x[0])
                    self.path.append(f'(¬ {x[0]})' if isinstance(e.op, ast.Or) else x[0])   # later operands run only then
                    depth += 1
            finally:
                del self.path[len(self.path) - depth:]
            return '(' + conn.join(parts) + ')', PROP
        if isinstance(e, ast.Compare):
            parts = []
            left = self.expr(e.left)
            for op, right in zip(e.ops, e.comparators):
                sym = CMPS.get(type(op))
                if sym is None:
                    raise Untranslatable(f'comparison {type(op).__name__}')
                r = self.expr(right)
                if left[1] == PROP and r[1] == PROP and sym in ('=', '≠'):
                    a, b = left[0], r[0]
                    parts.append(f'({a} ↔ {b})' if sym == '=' else f'(¬ ({a} ↔ {b}))')
                else:
                    a, b, _ = self.unify(left, r)
                    parts.append(f'({a} {sym} {b})')
                left = r
            return (parts[0] if len(parts) == 1 else '(' + ' ∧ '.join(parts) + ')'), PROP
        if isinstance(e, ast.IfExp):
            c = self.truth(self.expr(e.test))
            a = self.under(c, lambda: self.expr(e.body))
            b = self.under(f'(¬ {c})', lambda: self.expr(e.orelse))
            return self.ite(c, a, b)
        if isinstance(e, ast.Call):
            return self.call(e, key)
        raise Untranslatable(f'expression {key[:60]}')

    def ite(self, c, a, b):
        if a[1] == PROP and b[1] == PROP:
            return f'(if {c} then {a[0]} else {b[0]})', PROP
        x, y, t = self.unify(a, b)
        return f'(if {c} then {x} else {y})', t

    def binop(self, e):
        l, r = self.expr(e.left), self.expr(e.right)
        ty = type(e.op)
        if ty in ARITH:
            a, b, t = self.unify(l, r)
            return f'({a} {ARITH[ty]} {b})', t
        if ty is ast.Sub:
            a, b, t = self.unify(l, r)
            if t == NAT:
                self.need(f'{b} ≤ {a}')
            return f'({a} - {b})', t
        if ty in NATOPS:
            a, b = self.nat(l, NATOPS[ty]), self.nat(r, NATOPS[ty])
            if ty in (ast.FloorDiv, ast.Mod) and not (isinstance(e.right, ast.Constant) and e.right.value > 0):
                self.need(f'0 < {b}')
            return f'({a} {NATOPS[ty]} {b})', NAT
        raise Untranslatable(f'operator {ty.__name__}')

    def call(self, e, key):
        f = e.func
        if e.keywords:
            raise Untranslatable(f'call {key[:60]}')
        if isinstance(f, ast.Attribute) and f.attr == 'bit_length' and not e.args:
            v, t = self.num(self.expr(f.value))
            return (f'(Py.bitLength {v})' if t == NAT else f'(Py.bitLength ({v}).natAbs)'), NAT
        if (isinstance(f, ast.Attribute) and f.attr == 'count' and len(e.args) == 1 and isinstance(e.args[0], ast.Constant)
                and e.args[0].value == '1' and isinstance(f.value, ast.Call) and isinstance(f.value.func, ast.Name)
                and f.value.func.id == 'bin' and len(f.value.args) == 1 and not f.value.keywords):
            return f'(Py.popcount {self.nat(self.expr(f.value.args[0]), "bin(x).count")})', NAT
        if (isinstance(f, ast.Attribute) and f.attr == 'ceil' and isinstance(f.value, ast.Name) and f.value.id == 'math'
                and len(e.args) == 1 and isinstance(e.args[0], ast.BinOp) and isinstance(e.args[0].op, ast.Div)):
            d = e.args[0].right
            if not (isinstance(d, ast.Constant) and isinstance(d.value, int) and not isinstance(d.value, bool) and d.value > 0):
                raise Untranslatable('math.ceil(a / k): k must be a positive int literal')
            a = self.nat(self.expr(e.args[0].left), 'math.ceil(a / k)')
            self.notes.append(f'math.ceil({ast.unparse(e.args[0])}) read as integer ceiling division (exact below 2**53)')
            return f'(Py.ceilDiv {a} {d.value})', NAT
        if isinstance(f, ast.Name) and f.id in ('min', 'max') and len(e.args) >= 2:
            acc = self.expr(e.args[0])
            for x in e.args[1:]:
                a, b, t = self.unify(acc, self.expr(x))
                acc = (f'({f.id} {a} {b})', t)
            return acc
        if isinstance(f, ast.Name) and f.id == 'abs' and len(e.args) == 1:
            v, t = self.num(self.expr(e.args[0]))
            return (v, NAT) if t == NAT else (f'({v}).natAbs', NAT)
        if isinstance(f, ast.Name) and f.id == 'len' and key in self.binds:
            return self.param(key)
        if isinstance(f, ast.Name) and f.id in self.unwrap and len(e.args) == 1:
            self.notes.append(f'{f.id}(e) read as e')
            return self.expr(e.args[0])
        if key in self.binds:
            return self.param(key)
        raise Untranslatable(f'call {key[:60]}')

    # ---- statements: a block becomes one Lean term
    def block(self, stmts):
        if not stmts:
            if self.raises:
                return 'False', PROP
            raise Untranslatable('control reaches the end without return')
        s, rest = stmts[0], stmts[1:]
        if isinstance(s, ast.Expr) and isinstance(s.value, ast.Constant) and isinstance(s.value.value, str):
            return self.block(rest)
        if isinstance(s, ast.Return):
            if self.raises:
                return 'False', PROP
            if s.value is None:
                raise Untranslatable('bare return')
            return self.expr(s.value)
        if isinstance(s, ast.Raise):
            if self.raises:
                return 'True', PROP
            raise Untranslatable('raise')
        if isinstance(s, (ast.Assign, ast.AugAssign)):
            if isinstance(s, ast.Assign):
                if not (len(s.targets) == 1 and isinstance(s.targets[0], ast.Name)):
                    raise Untranslatable('assignment target')
                name, val = s.targets[0].id, self.expr(s.value)
            else:
                if not isinstance(s.target, ast.Name):
                    raise Untranslatable('assignment target')
                name = s.target.id
                val = self.expr(ast.BinOp(left=ast.Name(id=name, ctx=ast.Load()), op=s.op, right=s.value))
            if name in self.binds:
                raise Untranslatable(f'assignment to the declared input {name}')
            v, t = self.num(val)
            old = self.locals.get(name)
            self.locals[name] = t
            # side conditions of the rest mention the local: keep them under the binding
            n0 = len(self.side)
            body = self.block(rest)
            self.side[n0:] = [f'(let {name} : {t} := {v}; {c})' for c in self.side[n0:]]
            if old is None:
                del self.locals[name]
            else:
                self.locals[name] = old
            return f'(let {name} : {t} := {v}; {body[0]})', body[1]
        if isinstance(s, ast.If):
            c = self.truth(self.expr(s.test))
            a = self.under(c, lambda: self.block(s.body + rest))
            b = self.under(f'(¬ {c})', lambda: self.block(s.orelse + rest))
            return self.ite(c, a, b)
        raise Untranslatable(f'statement {type(s).__name__}')


# ---------------------------------------------------------------------------- locating code

def find_def(tree, cls, name):
    body = tree.body
    if cls:
        cs = [n for n in body if isinstance(n, ast.ClassDef) and n.name == cls]
        if len(cs) != 1:
            raise Untranslatable(f'class {cls} not found')
        body = cs[0].body
    fs = [n for n in body if isinstance(n, ast.FunctionDef) and n.name == name]
    if len(fs) != 1:
        raise Untranslatable(f'function {cls}.{name} not found (or defined twice)')
    return fs[0]


def _one(xs, what):
    if len(xs) != 1:
        raise Untranslatable(f'{what}: expected exactly one, found {len(xs)}')
    return xs[0]


def pick(fn, how):
    """Selects what is translated.  Returns ('block', stmts) or ('expr', node).
       ('whole',)              the whole body
       ('assign', NAME)        the right-hand side of the only assignment to NAME in the function
       ('raise_if', TEXT)      the test of the only `if c: raise X(..TEXT..)`
       ('early_return',)       the test of the first top-level `if c: ... return`
       ('slice', BASE, 0|1)    lower / upper bound of the only subscript `BASE[lo:hi]` (BASE as source text)
       ('call_arg', ATTR, i)   i-th positional argument of the only call `<..>.ATTR(...)`"""
    kind = how[0]
    if kind == 'whole':
        return 'block', fn.body
    if kind == 'assign':
        stores = [n for n in ast.walk(fn) if isinstance(n, ast.Name) and n.id == how[1] and isinstance(n.ctx, (ast.Store, ast.Del))]
        st = _one(stores, f'binding of {how[1]}')
        hits = [n for n in ast.walk(fn) if isinstance(n, ast.Assign) and len(n.targets) == 1 and n.targets[0] is st]
        return 'expr', _one(hits, f'plain assignment to {how[1]}').value
    if kind == 'raise_if':
        hits = [n for n in ast.walk(fn) if isinstance(n, ast.If) and len(n.body) == 1 and isinstance(n.body[0], ast.Raise)
                and how[1] in ast.unparse(n.body[0]) and not n.orelse]
        return 'expr', _one(hits, f'if ...: raise ...{how[1]}...').test
    if kind == 'early_return':
        for n in fn.body:
            if isinstance(n, ast.If):
                if isinstance(n.body[-1], ast.Return) and not n.orelse:
                    return 'expr', n.test
                break
            if not (isinstance(n, ast.Expr) and isinstance(n.value, ast.Constant)):
                break
        raise Untranslatable('no leading `if c: ... return`')
    if kind == 'slice':
        hits = [n for n in ast.walk(fn) if isinstance(n, ast.Subscript) and isinstance(n.slice, ast.Slice)
                and ast.unparse(n.value) == how[1]]
        s = _one(hits, f'{how[1]}[lo:hi]').slice
        b = (s.lower, s.upper)[how[2]]
        if b is None or s.step is not None:
            raise Untranslatable('slice bound missing')
        return 'expr', b
    if kind == 'call_arg':
        hits = [n for n in ast.walk(fn) if isinstance(n, ast.Call) and isinstance(n.func, ast.Attribute) and n.func.attr == how[1]]
        c = _one(hits, f'call of .{how[1]}')
        if len(c.args) <= how[2] or c.keywords:
            raise Untranslatable('call shape')
        return 'expr', c.args[how[2]]
    raise Untranslatable(f'selector {kind}')


def translate(fn, lean_name, how, binds, params=None, ret=None, unwrap=(), strip_to_bytes=False, src=''):
    """-> dict(lean=<text of the definitions>, notes=[...], to_bytes=(width, order)|None).
    `params` fixes the parameter list and order (all must be declared in binds); `ret` = 'Bool' wraps a Prop in decide."""
    tr = Tr(binds, unwrap, raises=(ret == 'raises'))
    what, node = pick(fn, how)
    to_bytes = None
    if what == 'block':
        stmts = list(node)
        if strip_to_bytes:
            last = stmts[-1] if stmts else None
            v = last.value if isinstance(last, ast.Return) else None
            if not (isinstance(v, ast.Call) and isinstance(v.func, ast.Attribute) and v.func.attr == 'to_bytes' and len(v.args) == 2
                    and not v.keywords and all(isinstance(a, ast.Constant) for a in v.args) and v.args[1].value in ('big', 'little')
                    and isinstance(v.args[0].value, int)):
                raise Untranslatable('final return is not <expr>.to_bytes(<int>, "big"|"little")')
            to_bytes = (v.args[0].value, v.args[1].value)
            stmts = stmts[:-1] + [ast.Return(value=v.func.value)]
        body, ty = tr.block(stmts)
    else:
        body, ty = tr.expr(node)
    if ty == PROP:
        if ret not in ('Bool', 'raises'):
            raise Untranslatable('boolean result where a number was declared')
        body, ty = f'decide {body}', 'Bool'
    elif ret in ('Bool', 'raises'):
        raise Untranslatable('numeric result where a boolean was declared')
    elif ret and ret != ty:
        if ret == INT and ty == NAT:
            body, ty = f'(({body} : Nat) : Int)', INT
        else:
            raise Untranslatable(f'result type {ty}, declared {ret}')
    plist = tr.params
    if params is not None:
        decl = {n: t for n, t in binds.values()}
        extra = [p for p in tr.params if p[0] not in params]
        if extra:
            raise Untranslatable(f'reads inputs outside the declared parameter list: {extra}')
        plist = [(p, decl[p]) for p in params]
    sig = ' '.join(f'({n} : {t})' for n, t in plist)
    sig = (' ' + sig) if sig else ''
    side = ' ∧\n    '.join(tr.side) if tr.side else 'True'
    text = ' '.join(ast.unparse(node if what == 'expr' else ast.Module(body=list(node), type_ignores=[])).split())
    text = text.replace('-/', '- /').replace('/-', '/ -')
    doc = f'/-- {src}\n    source: `{text[:300]}` -/\n'
    lean = (f'{doc}def {lean_name}{sig} : {ty} :=\n  {body}\n'
            f'/-- no-underflow / non-zero-divisor side conditions of `{lean_name}` (Python ints vs Lean Nat) -/\n'
            f'def {lean_name}_sideOk{sig} : Prop :=\n    {side}\n'
            f'instance{sig} : Decidable ({lean_name}_sideOk{"".join(" " + n for n, _ in plist)}) := by\n'
            f'  unfold {lean_name}_sideOk; exact inferInstance\n')
    if to_bytes:
        lean += f'def {lean_name}_width : Nat := {to_bytes[0]}\ndef {lean_name}_bigEndian : Bool := {"true" if to_bytes[1] == "big" else "false"}\n'
    return dict(lean=lean, notes=tr.notes, to_bytes=to_bytes, params=plist, type=ty)
