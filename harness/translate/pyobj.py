"""Python -> Lean translator for small "object programs": the methods of a class that build up the state of `self`
(a constructor and the methods it calls), with `for` loops, early `return` / `continue`, `raise`, lists that are appended
to, bit strings, byte strings, a hash object, and calls of methods of `self` and of already constructed objects of the same
class.  Built on pybytes.py (bytes programs) and pyarith.py (integer expressions); no knowledge of pytoniq: which classes,
attributes and external functions exist is DECLARED by the caller (cellctor.py) and checked against the source there.

Every translated method becomes ONE Lean definition

    def <method> [(H : Bytes → Bytes)] (self_<attr> : T)... (<python parameter> : T)... : Option R

`none` = the Python code raises (which exception is not distinguished).  The parameters `self_<attr>` are exactly the
attributes of `self` the method (or a method it calls) reads before assigning them; R is the returned value, or for a method
without `return <value>` the tuple of the attributes of `self` it assigns or mutates (`Unit` if none).  The constructor
(`ctor=` mode) ends in a declared record of expressions over the final state of `self`.
Everything outside the subset raises `Untranslatable` (the caller records the tie as 'lost'; never a violation by itself).

SUBSET (in addition to pybytes.py: len / index / slice of bytes, int.from_bytes, integer arithmetic with exact `-`, comparisons,
and / or / not, conditional expressions, if / elif / else, raise, assignments, augmented assignments)
  types       Nat, Int, Prop/Bool, Bytes, List Nat, List Bytes (a list of bytes objects), Bits (a bitarray), Hasher (a hash
              object = the bytes fed to it so far), a declared VALUE class (an immutable wrapper of one int, e.g. LevelMask;
              written as its Nat), objects of the declared OBJECT class (a Lean structure, e.g. CellInfo) and lists of them.
  expressions self.<attr>                 a local if the method assigned it, else a parameter of the declared type;
                                          a declared DERIVED attribute (assigned once, in the constructor, from a pure method call)
                                          is read as that call
              <Consts>.<name>             class-level int constant of a declared constants class -> Int literal
              <obj>.<attr>                field of the structure (declared field map); <value object>.<property> -> the int
              ValueClass(e)               -> e (must be non-negative)
              <value object>.<method>(..) declared external model (a separately regenerated Lean function)
              self.<method>(..), <obj>.<method>(..), super().<method>(..)
                                          the callee is translated as its own definition (argument types from the call site) and
                                          called with the receiver's attribute values; the call is hoisted before the statement
                                          (`Option.bind`), so it may not occur where Python evaluates conditionally
              xs[i]  with i : Int         Python indexing incl. negative indices (Py.getI?);  xs : List Bytes / list of objects too
              a + b on Bytes              concatenation;  e.to_bytes(w, 'big'|'little') (e : Nat; OverflowError = none)
              e in (c1, .., cn) / not in  disjunction of equalities
              hashlib.sha256([b])         a Hasher;  h.digest() -> H h   (H = the hash function, a parameter)
              bitarray(bits)              a copy;  bits.tobytes() -> bitsToBytes;  int(bits.to01(), 2) -> Py.intOfBits? (ValueError on '')
              bits[a:b], len(bits), len(<any list>);  a list / Bits value used as a condition means "non-empty"
  statements  self.<attr> = e | self.<attr> op= e | NAME: T = e (annotations ignored)
              xs.append(e) | bits.append(0|1|e) | bits.fill() | h.update(b)      on a local or an attribute of self (NOT on a
                                          parameter: a method may not mutate what it was given)
              self.<method>(..) / super().<method>(..) as a statement: the attributes the callee assigns come back as a tuple
              for x in range(..) | for x in <list>:   -> List.foldlM over the tuple of the variables that are assigned in the
                                          body and exist before the loop; variables first assigned inside the body are local
                                          to one iteration (reading them after the loop or in the next iteration before
                                          assignment is Untranslatable); `continue` ends the iteration with the current
                                          values; `break`, `else:`, `return` inside a loop are Untranslatable
              return e                    anywhere outside loops; all returns of a method must have the same type
              `a = b` for a mutable b (list, Bits, Hasher) is only accepted when neither name is mutated in the method
  control     an `if` whose branches both continue and contain no return / continue passes the assigned variables through a
              tuple (as pybytes.py); otherwise the rest of the block is copied into the branches that fall through.
"""
import ast

from . import pybytes
from .pybytes import BTr, NAT, INT, PROP, BOOL, BYTES, NATLIST, NONE, POISON, LEAN_RESERVED, lname, par, indent
from .pyexpr import Untranslatable

BITS, BYTESLIST, HASHER = 'Bits', 'List Bytes', 'Hasher'
MUTABLE_PREFIX = ('list:',)


def VAL(c):
    return f'val:{c}'


def OBJ(c):
    return f'obj:{c}'


def LISTOF(c):
    return f'list:{c}'


def is_mutable(t):
    return t in (BITS, BYTESLIST, NATLIST, HASHER) or t.startswith(('list:', 'dict:', 'set:'))


MUTATORS = ('append', 'fill', 'update', 'extend', 'insert', 'pop', 'remove', 'clear', 'sort', 'reverse', 'setall', 'invert',
            'bytereverse', 'frombytes', 'pack', 'add', 'discard', 'setdefault', 'popitem')


class Program:
    """classes: name -> dict
         kind='value'   repr_field, methods={py name: (lean fn, [arg types], result type)}, props={py property: True}
         kind='consts'  values={name: int}
         kind='object'  node=ClassDef, lean=<structure name>, attrs={attr: type} (declared types of the attributes of self),
                        fields={attr: lean field} (how a CONSTRUCTED object is read), derived={attr: ast expr over self},
                        base=<class name or None>
       hashlib: name of the module whose `.sha256` builds a Hasher (None = not available)."""

    TR = None                    # translator class of the methods (None = MTr); a subclass of Program may set a subclass of MTr

    def __init__(self, classes, hashlib='hashlib', bitarray='bitarray', src=''):
        self.classes = classes
        self.hashlib = hashlib
        self.bitarray = bitarray
        self.src = src
        self.defs = []           # [(lean name, text)] callee before caller
        self.done = {}           # (cls, method, argtypes) -> info
        self.stack = []
        self.names = {}          # lean name -> key  (one definition per method: a second instantiation is Untranslatable)

    def lean_ty(self, t):
        if t in (NAT, INT, BYTES, NATLIST, BITS, BYTESLIST):
            return t
        if t == BOOL:
            return 'Bool'
        if t == HASHER:
            return 'Bytes'
        if t == NONE:
            return 'Unit'
        if t.startswith('val:'):
            return 'Nat'
        if t.startswith('obj:'):
            return self.classes[t[4:]]['lean']
        if t.startswith('list:'):
            return f'List {self.classes[t[5:]]["lean"]}'
        raise Untranslatable(f'no Lean type for {t}')

    def find_method(self, cls, name):
        c = cls
        while c is not None:
            d = self.classes.get(c)
            if d is None or d.get('kind') != 'object':
                raise Untranslatable(f'class {c} is not declared')
            fs = [n for n in d['node'].body if isinstance(n, ast.FunctionDef) and n.name == name]
            if len(fs) > 1:
                raise Untranslatable(f'{c}.{name} is defined twice')
            if fs:
                if fs[0].decorator_list:
                    raise Untranslatable(f'{c}.{name} is decorated')
                return c, fs[0]
            c = d.get('base')
        raise Untranslatable(f'method {cls}.{name} not found')

    def mutated_attrs(self, cls, name, seen=()):
        """syntactic: attributes of self that the method (or a method of self it calls) assigns or mutates, in order"""
        key = (cls, name)
        if key in seen:
            raise Untranslatable(f'recursive method {cls}.{name}')
        owner, fn = self.find_method(cls, name)
        out = []

        def add(x):
            if x not in out:
                out.append(x)
        for n in ast.walk(fn):
            tg = []
            if isinstance(n, ast.Assign):
                for t in n.targets:
                    tg += list(t.elts) if isinstance(t, (ast.Tuple, ast.List)) else [t]
            elif isinstance(n, (ast.AugAssign, ast.AnnAssign)):
                tg = [n.target]
            for t in tg:
                if is_self_attr(t):
                    add(t.attr)
            if isinstance(n, ast.Call) and isinstance(n.func, ast.Attribute):
                f = n.func
                if f.attr in MUTATORS and is_self_attr(f.value):
                    add(f.value.attr)
                elif is_self(f.value):
                    try:
                        self.find_method(cls, f.attr)
                    except Untranslatable:
                        continue
                    for x in self.mutated_attrs(cls, f.attr, seen + (key,)):
                        add(x)
                elif is_super(f.value):
                    base = self.classes[owner].get('base')
                    if base:
                        for x in self.mutated_attrs(base, f.attr, seen + (key,)):
                            add(x)
        return out

    def method(self, cls, name, argtypes, ctor=None, ctor_struct=None):
        owner, fn = self.find_method(cls, name)
        key = (owner, name, tuple(argtypes))
        if key in self.done:
            return self.done[key]
        if (owner, name) in self.stack:
            raise Untranslatable(f'recursive method {owner}.{name}')
        lean = lname(name.strip('_') if name.startswith('__') else name)
        if self.names.get(lean, key)[0] != owner or (owner, name) in self.stack[:-1] and False:
            lean = f'{owner}_{lean}'
        if self.names.get(lean, key) != key:
            raise Untranslatable(f'{owner}.{name} is used with different argument types / in two classes')
        self.names[lean] = key
        self.stack.append((owner, name))
        try:
            tr = (self.TR or MTr)(self, cls, owner, fn, list(argtypes), lean, ctor=ctor, ctor_struct=ctor_struct)
            info = tr.translate()
        finally:
            self.stack.pop()
        self.done[key] = info
        self.defs.append((lean, info['text']))
        return info


def is_self(e):
    return isinstance(e, ast.Name) and e.id == 'self'


def is_self_attr(e):
    return isinstance(e, ast.Attribute) and is_self(e.value)


def is_super(e):
    return isinstance(e, ast.Call) and isinstance(e.func, ast.Name) and e.func.id == 'super' and not e.args and not e.keywords


def nested_jump(stmts):
    """a return / continue / break somewhere inside (not inside a nested loop for continue / break)"""
    def walk(n, in_loop):
        if isinstance(n, ast.Return):
            return True
        if isinstance(n, (ast.Continue, ast.Break)) and not in_loop:
            return True
        if isinstance(n, (ast.FunctionDef, ast.Lambda)):
            return False
        inner = in_loop or isinstance(n, (ast.For, ast.While))
        return any(walk(c, inner) for c in ast.iter_child_nodes(n))
    return any(walk(s, False) for s in stmts)


def falls_through(stmts):
    """syntactic: control can reach the end of the block"""
    for s in stmts:
        if isinstance(s, (ast.Raise, ast.Return, ast.Continue, ast.Break)):
            return False
        if isinstance(s, ast.If) and s.orelse and not falls_through(s.body) and not falls_through(s.orelse):
            return False
    return True


class MTr(BTr):
    # hooks for subclasses (pyprims.py): statement / expression kinds refused outright, and the implicit environment parameter
    FORBIDDEN = (ast.FunctionDef, ast.Lambda, ast.Global, ast.Nonlocal, ast.While, ast.Try, ast.With, ast.Break, ast.Yield,
                 ast.YieldFrom, ast.Await, ast.Delete, ast.NamedExpr, ast.Starred)
    ENV_NAME = 'H'                                # the hash function of hashlib.sha256 (a parameter of every definition using it)
    ENV_DECL = '(H : Bytes → Bytes)'

    def __init__(self, prog, cls, owner, fn, argtypes, lean, ctor=None, ctor_struct=None):
        super().__init__([])
        self.prog, self.cls, self.owner, self.fn, self.lean, self.ctor = prog, cls, owner, fn, lean, ctor
        self.ctor_struct = ctor_struct
        self.decl = prog.classes[cls]
        a = fn.args
        if a.vararg or a.kwarg or a.kwonlyargs or a.posonlyargs or not a.args or a.args[0].arg != 'self':
            raise Untranslatable(f'{fn.name}: parameter list')
        names = [x.arg for x in a.args[1:]]
        if len(names) != len(argtypes):
            raise Untranslatable(f'{fn.name}: called with {len(argtypes)} arguments, has {len(names)} parameters (defaults are not translated)')
        self.sig = []                 # [(kind, python name / attr, lean name, type)] kind in H, attr, arg
        for n, t in zip(names, argtypes):
            if n == 'H' or n.startswith('self_'):
                raise Untranslatable(f'parameter name {n}')
            self.env[n] = t
            self.sig.append(('arg', n, lname(n), t))
        self.py_params = set(names)
        self.uses_H = False
        self.loops = []               # stack of continuations for `continue`
        self.ret_type = None
        self.has_value_return = any(isinstance(n, ast.Return) and n.value is not None and not
                                    (isinstance(n.value, ast.Constant) and n.value.value is None) for n in ast.walk(fn))
        self.mutated = sorted(prog.mutated_attrs(cls, fn.name))
        self.mut_names = self.mutated_names(fn)
        for n in ast.walk(fn):
            if isinstance(n, self.FORBIDDEN) and n is not fn:
                raise Untranslatable(f'{fn.name}: {type(n).__name__}')
            if isinstance(n, ast.Name) and isinstance(n.ctx, ast.Store) and (n.id == 'H' or n.id.startswith('self_') or n.id == 'self'):
                raise Untranslatable(f'local name {n.id}')

    # ------------------------------------------------------------------ names
    @staticmethod
    def mutated_names(fn):
        out = set()
        for n in ast.walk(fn):
            if isinstance(n, ast.Call) and isinstance(n.func, ast.Attribute) and n.func.attr in MUTATORS:
                out.add(ast.unparse(n.func.value))
            if isinstance(n, ast.AugAssign):
                out.add(ast.unparse(n.target))
        return out

    def key_of_target(self, t):
        if isinstance(t, ast.Name):
            if t.id in self.py_params and is_mutable(self.env.get(t.id, '')):
                raise Untranslatable(f'parameter {t.id} is rebound')
            return t.id
        if is_self_attr(t):
            return 'self_' + t.attr
        raise Untranslatable(f'assignment target {ast.unparse(t)[:40]}')

    def attr_type(self, attr):
        t = self.decl['attrs'].get(attr)
        if t is None:
            raise Untranslatable(f'attribute self.{attr} is not declared')
        return t

    def attr_stored(self, attr):
        """(lean name, stored type) of self.<attr>; registers a parameter on first read"""
        key = 'self_' + attr
        t = self.env.get(key)
        if t is None:
            if self.ctor is not None:
                raise Untranslatable(f'the constructor reads self.{attr} before assigning it')
            t = self.attr_type(attr)
            if not any(s[0] == 'attr' and s[1] == attr for s in self.sig):
                self.sig.append(('attr', attr, key, t))
            self.env[key] = t
        if t == POISON:
            raise Untranslatable(f'self.{attr} is not defined (or has different types) on all paths reaching this use')
        return key, t

    # ------------------------------------------------------------------ expressions
    def truth(self, et):
        e, t = et
        if t == BITS or t == BYTESLIST or t.startswith('list:'):
            return f'({e} ≠ [])'
        if t == HASHER or t.startswith('obj:') or t.startswith('val:'):
            raise Untranslatable(f'{t} value used as a condition')
        return super().truth(et)

    def as_nat(self, et, what):
        v, t = et
        if t == PROP:
            v, t = self.num((v, t))
        if t != NAT:
            raise Untranslatable(f'{what} is not known to be a non-negative int')
        return v

    def expr(self, e):
        if isinstance(e, ast.Attribute):
            return self.attribute(e)
        if isinstance(e, ast.Name) and e.id == 'self':
            raise Untranslatable('self used as a value')
        if isinstance(e, ast.Compare) and len(e.ops) == 1 and isinstance(e.ops[0], (ast.In, ast.NotIn)):
            c = e.comparators[0]
            if not isinstance(c, (ast.Tuple, ast.List)) or not c.elts:
                raise Untranslatable('`in` over something else than a tuple of values')
            parts = [self.expr(ast.Compare(left=e.left, ops=[ast.Eq()], comparators=[x]))[0] for x in c.elts]
            txt = '(' + ' ∨ '.join(parts) + ')'
            return (txt if isinstance(e.ops[0], ast.In) else f'(¬ {txt})'), PROP
        if isinstance(e, ast.Compare) and len(e.ops) == 1 and isinstance(e.ops[0], (ast.Eq, ast.NotEq)):
            l, r = self.expr(e.left), self.expr(e.comparators[0])
            if l[1] in (BITS, BYTESLIST) or r[1] in (BITS, BYTESLIST):
                if l[1] != r[1]:
                    raise Untranslatable(f'comparison of {l[1]} with {r[1]}')
                return (f'({l[0]} = {r[0]})' if isinstance(e.ops[0], ast.Eq) else f'({l[0]} ≠ {r[0]})'), PROP
            for t in (l[1], r[1]):
                if t == HASHER or t[:4] in ('obj:', 'val:', 'list'):
                    raise Untranslatable(f'comparison of a {t}')
        return super().expr(e)

    def attribute(self, e):
        v = e.value
        if is_self(v):
            if e.attr in self.decl.get('derived', {}) and self.ctor is None and 'self_' + e.attr not in self.env:
                return self.expr(self.decl['derived'][e.attr])
            key, t = self.attr_stored(e.attr)
            return self.read(key)
        if isinstance(v, ast.Name) and v.id not in self.env and self.prog.classes.get(v.id, {}).get('kind') == 'consts':
            val = self.prog.classes[v.id]['values'].get(e.attr)
            if val is None:
                raise Untranslatable(f'{v.id}.{e.attr} is not an int constant of the class')
            return (f'({val} : Int)', INT)
        base, bt = self.expr(v)
        if bt.startswith('obj:'):
            d = self.prog.classes[bt[4:]]
            if e.attr in d.get('derived', {}):
                raise Untranslatable(f'derived attribute .{e.attr} of another object')
            f = d['fields'].get(e.attr)
            if f is None:
                raise Untranslatable(f'attribute .{e.attr} of a constructed {bt[4:]} is not declared')
            t = d['attrs'][e.attr]
            txt = f'{base}.{f}'
            return (f'({txt} = true)', PROP) if t == BOOL else (txt, t)
        if bt.startswith('val:'):
            d = self.prog.classes[bt[4:]]
            if e.attr in d.get('props', {}):
                return base, NAT
            raise Untranslatable(f'attribute .{e.attr} of a {bt[4:]}')
        raise Untranslatable(f'attribute .{e.attr} of a {bt}')

    def binop(self, e):
        if isinstance(e.op, ast.Add):
            l, r = self.expr(e.left), self.expr(e.right)
            if l[1] == BYTES and r[1] == BYTES:
                return f'({l[0]} ++ {r[0]})', BYTES
            if BYTES in (l[1], r[1]):
                raise Untranslatable(f'{l[1]} + {r[1]}')
        return super().binop(e)

    def subscript(self, e):
        base, bt = self.expr(e.value)
        s = e.slice
        if isinstance(s, ast.Slice):
            if bt == BITS:
                if s.step is not None:
                    raise Untranslatable('slice with a step')
                lo = self.index_nat(s.lower, 'slice bound') if s.lower is not None else None
                hi = self.index_nat(s.upper, 'slice bound') if s.upper is not None else None
                if hi is None:
                    return (base if lo is None else f'({base}.drop {lo})'), BITS
                return f'(Py.slice {base} {lo if lo is not None else 0} {hi})', BITS
            return super().subscript(e)
        if bt == BYTESLIST:
            et = BYTES
        elif bt.startswith('list:'):
            et = OBJ(bt[5:])
        elif bt in (BYTES, NATLIST):
            et = NAT
        else:
            raise Untranslatable(f'subscript of a {bt}')
        i, it = self.expr(s)
        if it == PROP:
            i, it = self.num((i, it))
        if it == NAT:
            return self.hoist(f'{base}[{i}]?', 'item'), et
        if it == INT:
            return self.hoist(f'Py.getI? {base} {i}', 'item'), et
        raise Untranslatable(f'index of type {it}')

    def call(self, e, key):
        f = e.func
        if isinstance(f, ast.Name) and f.id == 'len' and len(e.args) == 1 and not e.keywords and 'len' not in self.env:
            v, t = self.expr(e.args[0])
            if t in (BITS, BYTESLIST) or t.startswith('list:'):
                return f'{v}.length', NAT
            return super().call(e, key)
        if isinstance(f, ast.Name) and f.id not in self.env and not e.keywords:
            d = self.prog.classes.get(f.id)
            if d is not None and d.get('kind') == 'value' and len(e.args) == 1:
                return self.as_nat(self.expr(e.args[0]), f'{f.id}(e)'), VAL(f.id)
            if f.id == self.prog.bitarray and len(e.args) == 1:
                v, t = self.expr(e.args[0])
                if t != BITS:
                    raise Untranslatable(f'{f.id}() of a {t}')
                return v, BITS
            if (f.id == 'int' and len(e.args) == 2 and isinstance(e.args[1], ast.Constant) and e.args[1].value == 2
                    and isinstance(e.args[0], ast.Call) and isinstance(e.args[0].func, ast.Attribute) and e.args[0].func.attr == 'to01'
                    and not e.args[0].args and not e.args[0].keywords and 'int' not in self.env):
                v, t = self.expr(e.args[0].func.value)
                if t != BITS:
                    raise Untranslatable('to01() of a non-bitarray')
                return self.hoist(f'Py.intOfBits? {v}', 'int'), NAT
        if isinstance(f, ast.Attribute):
            r = self.attr_call(e)
            if r is not None:
                return r
        return super().call(e, key)

    def attr_call(self, e):
        f = e.func
        v = f.value
        # hashlib.sha256(...)
        if isinstance(v, ast.Name) and v.id == self.prog.hashlib and v.id not in self.env and f.attr == 'sha256' and not e.keywords:
            if not e.args:
                return '([] : Bytes)', HASHER
            if len(e.args) == 1:
                x, t = self.expr(e.args[0])
                if t != BYTES:
                    raise Untranslatable('sha256() of a non-bytes value')
                return x, HASHER
            raise Untranslatable('sha256 call shape')
        if is_self(v) or is_super(v):
            if f.attr in MUTATORS:
                raise Untranslatable(f'self.{f.attr}')
            return self.method_call(e, None, self.cls if is_self(v) else self.super_class(), f.attr)
        if f.attr == 'to_bytes' and len(e.args) == 2 and not e.keywords:
            order = e.args[1]
            if not (isinstance(order, ast.Constant) and order.value in ('big', 'little')):
                raise Untranslatable('to_bytes byte order is not a literal')
            x = self.as_nat(self.expr(v), 'the receiver of to_bytes')
            w = self.as_nat(self.expr(e.args[0]), 'to_bytes width')
            return self.hoist(f'{"toBytesBE?" if order.value == "big" else "toBytesLE?"} {w} {x}', 'bytes'), BYTES
        if f.attr in MUTATORS:
            raise Untranslatable(f'.{f.attr}(...) used as a value')
        if f.attr in ('bit_length', 'count', 'from_bytes', 'ceil'):
            return None
        base, bt = self.expr(v)
        if bt == HASHER and f.attr == 'digest' and not e.args and not e.keywords:
            self.uses_H = True
            return f'(H {base})', BYTES
        if bt == BITS and f.attr == 'tobytes' and not e.args and not e.keywords:
            return f'(bitsToBytes {base})', BYTES
        if bt.startswith('val:'):
            m = self.prog.classes[bt[4:]]['methods'].get(f.attr)
            if m is None or e.keywords or len(e.args) != len(m[1]):
                raise Untranslatable(f'{bt[4:]}.{f.attr} call')
            args = []
            for a, pt in zip(e.args, m[1]):
                x, t = self.expr(a)
                if pt == NAT:
                    x = self.as_nat((x, t), f'argument of {f.attr}')
                elif t != pt:
                    raise Untranslatable(f'{f.attr}: argument of type {t}, expected {pt}')
                args.append(x)
            txt = f'({m[0]} {" ".join([base] + args)})'
            return (f'({txt} = true)', PROP) if m[2] == BOOL else (txt, m[2])
        if bt.startswith('obj:'):
            return self.method_call(e, base, bt[4:], f.attr)
        raise Untranslatable(f'call of .{f.attr} on a {bt}')

    def super_class(self):
        base = self.prog.classes[self.owner].get('base')
        if base is None:
            raise Untranslatable('super() without a declared base class')
        return base

    def call_args(self, e):
        if e.keywords:
            raise Untranslatable('keyword arguments')
        out = []
        for a in e.args:
            v, t = self.expr(a)
            if t == PROP:
                v, t = f'(decide {v})', BOOL
            out.append((v, t))
        return out

    def method_call(self, e, recv, cls, name, statement=False):
        """recv = None: the receiver is self (cls = its class or, for super(), the base class); else the Lean text of an object"""
        args = self.call_args(e)
        info = self.prog.method(cls, name, [t for _, t in args])
        if recv is not None and info['mutated']:
            raise Untranslatable(f'{name} mutates another object')
        if info['mutated'] and not statement:
            raise Untranslatable(f'{name} assigns attributes of self and is used as a value')
        actual = []
        it = iter(args)
        for kind, py, ln, t in info['sig']:
            if kind == 'H':
                self.uses_H = True
                actual.append(self.ENV_NAME)
            elif kind == 'attr':
                if recv is None:
                    key, have = self.attr_stored(py)
                    if have != t:
                        raise Untranslatable(f'self.{py} has type {have} here, {name} expects {t}')
                    actual.append(lname(key))
                else:
                    fld = self.prog.classes[cls]['fields'].get(py)
                    if fld is None:
                        raise Untranslatable(f'{name} reads .{py}, which a constructed {cls} does not expose')
                    actual.append(f'{recv}.{fld}')
            else:
                v, _ = next(it)
                actual.append(par(v))
        term = f'{info["lean"]} {" ".join(actual)}'.rstrip()
        if statement:
            return term, info
        if info['ret'] is None:
            raise Untranslatable(f'{name} returns no value')
        return self.hoist(term, 'call'), info['ret']

    # ------------------------------------------------------------------ statements
    def assigned(self, stmts):
        """env keys (locals, self_<attr>) assigned or mutated somewhere in the statements"""
        out = []

        def add(k):
            if k not in out:
                out.append(k)
        for s in stmts:
            for n in ast.walk(s):
                tg = []
                if isinstance(n, ast.Assign):
                    for t in n.targets:
                        tg += list(t.elts) if isinstance(t, (ast.Tuple, ast.List)) else [t]
                elif isinstance(n, (ast.AugAssign, ast.AnnAssign)):
                    tg = [n.target]
                elif isinstance(n, ast.For):
                    tg = [n.target]
                for t in tg:
                    if isinstance(t, ast.Name):
                        add(t.id)
                    elif is_self_attr(t):
                        add('self_' + t.attr)
                if isinstance(n, ast.Call) and isinstance(n.func, ast.Attribute):
                    f = n.func
                    if f.attr in MUTATORS and isinstance(f.value, ast.Name):
                        add(f.value.id)
                    elif f.attr in MUTATORS and is_self_attr(f.value):
                        add('self_' + f.value.attr)
                    elif is_self(f.value) or is_super(f.value):
                        try:
                            ms = self.prog.mutated_attrs(self.cls if is_self(f.value) else self.super_class(), f.attr)
                        except Untranslatable:
                            ms = []
                        for x in ms:
                            add('self_' + x)
        return out

    def block(self, stmts, kont):
        if not stmts:
            return kont()
        s, rest = stmts[0], stmts[1:]
        if isinstance(s, ast.Expr) and isinstance(s.value, ast.Constant):
            return self.block(rest, kont)
        if isinstance(s, ast.Pass):
            return self.block(rest, kont)
        if isinstance(s, ast.Raise):
            return 'none'
        if isinstance(s, ast.Return):
            if self.loops:
                raise Untranslatable('return inside a loop')
            return self.ret(s)
        if isinstance(s, ast.Continue):
            if not self.loops:
                raise Untranslatable('continue outside a loop')
            return self.loops[-1]()
        if isinstance(s, ast.AnnAssign):
            if s.value is None:
                return self.block(rest, kont)
            s = ast.Assign(targets=[s.target], value=s.value)
        if isinstance(s, ast.Assign):
            if len(s.targets) != 1:
                raise Untranslatable('chained assignment')
            tg = s.targets[0]
            if isinstance(tg, (ast.Tuple, ast.List)):
                raise Untranslatable('tuple assignment')
            name = self.key_of_target(tg)
            if isinstance(s.value, ast.List) and not s.value.elts and name.startswith('self_') and \
                    (self.attr_type(name[5:]) in (BYTESLIST, NATLIST) or self.attr_type(name[5:]).startswith('list:')):
                v, t = '[]', self.attr_type(name[5:])          # an empty list literal takes the declared type of the attribute
            else:
                v, t = self.stored(self.expr(s.value))
            pre = self.take_pre()
            if is_mutable(t) and isinstance(s.value, (ast.Name, ast.Attribute, ast.Subscript)):
                if ast.unparse(s.value) in self.mut_names or ast.unparse(tg) in self.mut_names:
                    raise Untranslatable(f'{ast.unparse(tg)} = {ast.unparse(s.value)}: alias of a mutable object that is mutated later')
            return self.let(pre, name, v, t, rest, kont)
        if isinstance(s, ast.AugAssign):
            name = self.key_of_target(s.target)
            load = ast.Name(id=s.target.id, ctx=ast.Load()) if isinstance(s.target, ast.Name) else \
                ast.Attribute(value=s.target.value, attr=s.target.attr, ctx=ast.Load())
            if isinstance(s.target, ast.Name) and s.target.id in self.py_params and is_mutable(self.env.get(s.target.id, '')):
                raise Untranslatable(f'parameter {s.target.id} is mutated')
            v, t = self.stored(self.expr(ast.BinOp(left=load, op=s.op, right=s.value)))
            pre = self.take_pre()
            return self.let(pre, name, v, t, rest, kont)
        if isinstance(s, ast.Expr) and isinstance(s.value, ast.Call):
            return self.call_stmt(s.value, rest, kont)
        if isinstance(s, ast.If):
            return self.if_(s, rest, kont)
        if isinstance(s, ast.For):
            return self.for_(s, rest, kont)
        raise Untranslatable(f'statement {type(s).__name__}')

    def let(self, pre, name, v, t, rest, kont):
        if name.startswith('self_'):
            want = self.attr_type(name[5:])
            if t != want:
                raise Untranslatable(f'self.{name[5:]} is assigned a {t}, declared {want}')
        self.env[name] = t
        if pre and pre[-1][0] == 'bind' and pre[-1][1] == v:
            pre = pre[:-1] + [('bind', lname(name), pre[-1][2])]
            return self.wrap(pre, self.block(rest, kont))
        return self.wrap(pre, f'let {lname(name)} : {self.prog.lean_ty(t)} := {v}\n{self.block(rest, kont)}')

    def mutable_target(self, recv):
        """env key of the receiver of a mutating call"""
        if isinstance(recv, ast.Name):
            if recv.id in self.py_params:
                raise Untranslatable(f'parameter {recv.id} is mutated')
            if recv.id not in self.env:
                raise Untranslatable(f'undeclared name {recv.id}')
            return recv.id
        if is_self_attr(recv):
            key, _ = self.attr_stored(recv.attr)
            return key
        raise Untranslatable(f'mutation of {ast.unparse(recv)[:40]}')

    def call_stmt(self, c, rest, kont):
        f = c.func
        if not isinstance(f, ast.Attribute):
            raise Untranslatable(f'call statement {ast.unparse(c)[:40]}')
        if is_self(f.value) or is_super(f.value):
            cls = self.cls if is_self(f.value) else self.super_class()
            term, info = self.method_call(c, None, cls, f.attr, statement=True)
            pre = self.take_pre()
            ms = info['mutated']
            for m in ms:
                self.let_check('self_' + m, self.attr_type(m))
                self.env['self_' + m] = self.attr_type(m)
            body = self.block(rest, kont)
            if not ms:
                pat, ty = '_u', (self.prog.lean_ty(info['ret']) if info['ret'] else 'Unit')
            else:
                pat = ', '.join('self_' + m for m in ms)
                ty = ' × '.join(tpar(self.prog.lean_ty(self.attr_type(m))) for m in ms)
            return self.wrap(pre, f'({term}).bind fun (({pat}) : {ty}) =>\n{body}')
        if f.attr not in MUTATORS or c.keywords:
            raise Untranslatable(f'call statement {ast.unparse(c)[:40]}')
        key = self.mutable_target(f.value)
        t = self.env[key]
        recv = lname(key)
        if f.attr == 'append' and len(c.args) == 1:
            x, xt = self.expr(c.args[0])
            if t == BITS:
                if isinstance(c.args[0], ast.Constant) and c.args[0].value in (0, 1, True, False):
                    el = 'true' if c.args[0].value else 'false'
                elif xt == PROP:
                    el = f'(decide {x})'
                elif xt in (NAT, INT):
                    el = f'(decide ({x} ≠ 0))'
                else:
                    raise Untranslatable(f'append of a {xt} to a bitarray')
            elif t == BYTESLIST and xt == BYTES or t == NATLIST and xt == NAT:
                el = x
            else:
                raise Untranslatable(f'append of a {xt} to a {t}')
            v = f'({recv} ++ [{el}])'
        elif f.attr == 'fill' and not c.args and t == BITS:
            v = f'(Py.bitsFill {recv})'
        elif f.attr == 'update' and len(c.args) == 1 and t == HASHER:
            x, xt = self.expr(c.args[0])
            if xt != BYTES:
                raise Untranslatable(f'update of a hash object with a {xt}')
            v = f'({recv} ++ {x})'
        else:
            raise Untranslatable(f'.{f.attr}(...) on a {t}')
        pre = self.take_pre()
        return self.let(pre, key, v, t, rest, kont)

    def let_check(self, key, t):
        pass

    def if_(self, s, rest, kont):
        c = self.truth(self.expr(s.test))
        pre = self.take_pre()
        ft_a, ft_b = falls_through(s.body), falls_through(s.orelse)
        env0 = dict(self.env)

        def branch(stmts, k):
            self.env = dict(env0)
            return par(self.block(stmts, k))

        jump = nested_jump(s.body) or nested_jump(s.orelse)
        if not rest or jump or not (ft_a and ft_b):
            a = branch(list(s.body) + (list(rest) if ft_a else []), kont)
            b = branch(list(s.orelse) + (list(rest) if ft_b else []), kont)
            if a == 'none' and b == 'none':
                return self.wrap(pre, 'none')
            return self.wrap(pre, f'if {c} then\n{a}\nelse\n{b}')
        # both branches continue with plain code: join the assigned variables through a tuple
        M = self.assigned(list(s.body) + list(s.orelse))
        ends = []

        def probe():
            ends.append(dict(self.env))
            return '_'
        f0, sig0 = self.fresh, len(self.sig)
        branch(s.body, probe)
        branch(s.orelse, probe)
        self.fresh = f0
        J = {}
        for m in M:
            t = None
            for i, e in enumerate(ends):
                t = e.get(m) if i == 0 else pybytes.join(t, e.get(m))
            J[m] = POISON if t is None else t
        passed = sorted(m for m in M if J[m] != POISON)      # canonical order: the proofs name the tuple components

        def pack():
            vals = [pybytes.coerce(m, self.env[m], J[m]) for m in passed]
            return 'some (' + ', '.join(vals) + ')' if vals else 'some ()'
        a = branch(s.body, pack)
        b = branch(s.orelse, pack)
        self.env = dict(env0)
        for m in M:
            self.env[m] = J[m]
        r = self.block(rest, kont)
        pat = ', '.join(lname(m) for m in passed) if passed else '_u'
        ty = ' × '.join(tpar(self.prog.lean_ty(J[m])) for m in passed) if passed else 'Unit'
        return self.wrap(pre, f'(if {c} then\n{a}\nelse\n{b}).bind fun (({pat}) : {ty}) =>\n{r}')

    def for_(self, s, rest, kont):
        if s.orelse:
            raise Untranslatable('for ... else')
        if not isinstance(s.target, ast.Name):
            raise Untranslatable('loop target')
        x = s.target.id
        if self.env.get(x, POISON) != POISON or x in LEAN_RESERVED or x == 'H' or x.startswith('self_'):
            raise Untranslatable(f'loop variable {x} shadows a name')
        it = s.iter
        if (isinstance(it, ast.Call) and isinstance(it.func, ast.Name) and it.func.id == 'range' and 'range' not in self.env
                and not it.keywords and 1 <= len(it.args) <= 3):
            args = [self.index_nat(a, 'range argument') for a in it.args]
            if len(args) == 1:
                xs = f'(List.range {args[0]})'
            elif len(args) == 2:
                xs = f"(List.range' {args[0]} ({args[1]} - {args[0]}))"
            else:
                xs = self.hoist(f'Py.range? {args[0]} {args[1]} {args[2]}', 'range')
            xt = NAT
        else:
            if ast.unparse(it) in self.mut_names:
                raise Untranslatable('loop over a list that the method mutates')
            xs, lt = self.expr(it)
            if lt.startswith('list:'):
                xt = OBJ(lt[5:])
            elif lt in (NATLIST, BYTES):
                xt = NAT
            elif lt == BYTESLIST:
                xt = BYTES
            else:
                raise Untranslatable(f'loop over a {lt}')
        pre = self.take_pre()
        A = self.assigned(s.body)
        for k in A:                                     # an attribute mutated in the body that was not read yet: parameter first
            if k.startswith('self_') and k not in self.env and self.ctor is None:
                self.attr_stored(k[5:])
        state = sorted(k for k in A if k in self.env)          # canonical order
        for k in state:
            if self.env[k] == POISON:
                raise Untranslatable(f'{k} is not defined on all paths reaching the loop that assigns it')
        env0 = dict(self.env)
        self.env[x] = xt

        def pack():
            vals = []
            for k in state:
                if self.env.get(k) != env0[k]:
                    raise Untranslatable(f'{k} changes its type in the loop body ({env0[k]} -> {self.env.get(k)})')
                vals.append(lname(k))
            return 'some (' + ', '.join(vals) + ')' if vals else 'some ()'

        def again():
            return pack()
        self.loops.append(again)
        body_env = dict(self.env)
        try:
            body = self.block(list(s.body), pack)
        finally:
            self.loops.pop()
        self.env = dict(env0)
        for k in A:
            if k not in state:
                self.env[k] = POISON
        self.env[x] = POISON
        r = self.block(rest, kont)
        pat = ', '.join(lname(k) for k in state) if state else '_u'
        ty = ' × '.join(tpar(self.prog.lean_ty(env0[k])) for k in state) if state else 'Unit'
        init = '(' + ', '.join(lname(k) for k in state) + ')' if state else '()'
        return self.wrap(pre, f'(List.foldlM (m := Option) (fun (({pat}) : {ty}) ({lname(x)} : {self.prog.lean_ty(xt)}) =>\n{indent(body)}) {init} {xs}).bind '
                              f'fun (({pat}) : {ty}) =>\n{r}')

    def ret(self, s):
        if s.value is None or (isinstance(s.value, ast.Constant) and s.value.value is None):
            if self.has_value_return:
                raise Untranslatable('a method that returns a value on some paths and None on others')
            return self.end()
        v, t = self.stored(self.expr(s.value))
        pre = self.take_pre()
        if self.ret_type is None:
            self.ret_type = t
        elif self.ret_type != t:
            raise Untranslatable(f'returns of different types ({self.ret_type}, {t})')
        return self.wrap(pre, f'some {par(v)}')

    def end(self):
        """control reaches the end of the method (or a bare return)"""
        if self.ctor is not None:
            items = []
            for fld, src, want in self.ctor:
                v, t = self.stored(self.expr(ast.parse(src, mode='eval').body))
                if self.pre:
                    raise Untranslatable(f'result field {fld} can raise')
                if t != want:
                    raise Untranslatable(f'result field {fld} = {src} has type {t}, declared {want}')
                items.append(f'{fld} := {v}')
            return 'some { ' + ', '.join(items) + ' }'
        if self.has_value_return:
            raise Untranslatable('control reaches the end of a method that returns a value elsewhere')
        vals = []
        for m in self.mutated:
            t = self.env.get('self_' + m)
            if t is None or t == POISON:
                raise Untranslatable(f'self.{m} is not assigned on all paths')
            if t != self.attr_type(m):
                raise Untranslatable(f'self.{m} ends with type {t}, declared {self.attr_type(m)}')
            vals.append('self_' + m)
        return 'some (' + ', '.join(vals) + ')' if vals else 'some ()'

    def translate(self):
        body = self.block(list(self.fn.body), self.end)
        if self.has_value_return and self.mutated:
            raise Untranslatable(f'{self.fn.name} returns a value and assigns attributes of self')
        if self.has_value_return:
            if self.ret_type is None:
                raise Untranslatable(f'{self.fn.name}: no path returns a value')
            rt = self.prog.lean_ty(self.ret_type)
        elif self.ctor is not None:
            rt = self.ctor_struct or self.decl['lean']
        else:
            rt = ' × '.join(tpar(self.prog.lean_ty(self.attr_type(m))) for m in self.mutated) if self.mutated else 'Unit'
        sig = ([('H', 'H', 'H', None)] if self.uses_H else []) + self.sig
        ps = ' '.join(self.ENV_DECL if k == 'H' else f'({ln} : {self.prog.lean_ty(t)})' for k, _, ln, t in sig)
        doc = pybytes.doc_of(self.fn, f'{self.prog.classes[self.owner].get("src", self.prog.src)}: {self.owner}.{self.fn.name}')
        text = f'{doc}def {self.lean} {ps} : Option ({rt}) :=\n{indent(body)}\n'
        return dict(lean=self.lean, sig=sig, ret=self.ret_type if self.has_value_return else None,
                    mutated=[] if (self.has_value_return or self.ctor is not None) else list(self.mutated), text=text)


def tpar(t):
    return f'({t})' if ' ' in t else t
