"""Python -> Lean translator for "TL-B codec programs": the `serialize` / `deserialize` methods of the library's TlbScheme classes.

A serialiser (a method without a `Slice` parameter) becomes a Lean function in the `Option` monad (`none` = the Python code
raises) over explicit `Builder R` values; a deserialiser (a method whose parameter `cell_slice` is the slice being consumed)
becomes a function in the `SOp R` monad of Model/Builder.lean (state = the slice, `SOp.fail` = raises).  Built on pybytes.py /
pyarith.py for the integer, boolean and bytes sub-expressions; no knowledge of pytoniq: classes, value representations, the
meaning of the Builder / Slice methods and the parameter / result types of the translated methods are DECLARED by the caller
(vmsrc.py, msgsrc.py: class `Config`) and checked against the source there where a check exists.

SUBSET (everything else raises Untranslatable -> the tie is reported 'lost', never a violation by itself)
  methods     `@classmethod def m(cls, p1, ..)` and `def m(self, ..)` of declared classes, with declared parameter and result types.
              Methods that are (mutually) recursive get a FUEL parameter: `| 0 => raises | fuel + 1 => body`, every call of a
              fuelled method from a fuelled method passes `fuel`; a declared PASS-THROUGH method of a recursive group is inlined
              at its call sites inside the group (it spends no fuel) and emitted on its own after the group.
  values      Nat / Int / Bool / Bytes (pybytes.py), UInt (an int returned by `load_uint`: an Int known to be >= 0), Bits (a
              bitarray or a '0101' literal), Builder, Built (a cell object made by `end_cell()`: its bits, refs and the cell), R (a
              cell object from the input / a reference), Chunk (bits x refs: the remaining data of a Slice value, the content of a
              Builder value, a body cell given by its content), Option T, declared SEMANTIC types (Lean inductives / structures of
              the hand model's value domain, e.g. `Val R`) with their constructors and fields, and Python lists of them.
              **A Python list is the Lean list of its elements LAST FIRST** (`Py.RL.*` in PyTlb.lean): `xs[-1]`, `xs[:-1]`,
              `xs.pop()`, `xs[0]`, `xs + [v]`, `xs.append(v)` (as a value: the class's `append` returns self), `len(xs)`, `xs.copy()`.
  dispatch    `x is None` / `x is not None` / `if x:` on an Option or a semantic value, `isinstance(x, C)` for a declared class map,
              `x.type_ == 'tag'` for a declared tag map  ->  `match x with | <ctor> fields => .. | _ => ..`; inside the branch the
              fields are bound (`x.f`, `getattr(x, 'f', None)`, and `x` itself for a one-field constructor).  `isinstance` on a value
              whose declared type excludes the class is decided statically.
  statements  NAME = e | NAME[:type] = e | `b = Builder()` | builder statements and chains (`b.store_x(..).store_y(..)`), also as the
              two arms of a conditional-expression statement | if / elif / else (the rest of the block is copied into the branches) |
              raise | assert c | return e | `R = {'k': e, ..}` + `R['k'] = e` + `cls(tag, **R)` (a dict used as keyword record) |
              x.attr = e on a local Chunk value | nested `def` / lambda only where declared opaque.
  effects     every call that can raise or consumes the slice is emitted as its own `let t <- ..` line in Python's evaluation
              order (receiver, then arguments left to right; keyword arguments in source order); a conditional expression with
              effects in its arms becomes `let t <- if c then do .. else do ..`; effects inside `and` / `or` / chained comparisons are
              Untranslatable.
  post-state  a serialiser returns, next to the cell, the state AFTER the call of each of its parameters of a declared
              THREADED type (lists / values that contain lists): `xs.pop()` on such a parameter changes it, passing it BY NAME to
              another translated method rebinds it to that method's post-state, `xs.copy()` / `xs[:-1]` / `C(xs[:-1])` are new
              objects.  Any other mutation of an object (append, attribute store, pop on something reached through an attribute
              or element) is Untranslatable.  Effects of a callee on objects passed as element / attribute / copy are not written
              back: they are accounted for by the callee's own theorem (every translated serialiser is PROVED to return its
              threaded parameters unchanged).
"""
import ast

from . import pybytes
from .pybytes import BTr, NAT, INT, PROP, BOOL, BYTES, NONE, OPT, is_opt, opt_of, lname
from .pyexpr import Untranslatable

UINT, BITS, BUILDER, BUILT, REF = 'UInt', 'Bits', 'Builder', 'Built', 'R'
SLICEV, BUILDERV, BODYCELL = 'chunk:slice', 'chunk:builder', 'chunk:cell'
EMPTYLIST = 'list:?'


def SEM(n):
    return f'sem:{n}'


def LIST(t):
    return f'rlist:{t}'


BODYV = 'chunkv:cell'      # a cell given by its content, held in ONE constructor argument (a pair)


def is_chunk(t):
    return t.startswith('chunk:') or t.startswith('chunkv:')


def is_split(t):
    """a chunk-valued field that occupies two constructor arguments (bits, refs)"""
    return t.startswith('chunk:')


def is_list(t):
    return t.startswith('rlist:')


class Config:
    """declared interface of one translated file (see vmsrc.py / msgsrc.py)
       sem      {name: dict(lean='Val R', ctors={ctor: [(field, type)]}, isinstance={py class: ctor|None}, none=ctor|None,
                            tags={'vmc_std': ctor}, into={type: 'Val.int {0}'})}
       classes  {py class: dict(node=ClassDef, src=file, repr=type of an instance, ctor=ctor|None, init=[field per __init__ parameter],
                            tagged=bool (cls('tag', k=v..)), wrapper_attr=attribute of a list wrapper ('list'))}
       sigs     {(class, method): dict(params=[(name, type)], ret=type, mode='opt'|'sop')}
       ctx      {'opt': [(lean name, lean type)], 'sop': [...]}   context parameters of every emitted definition
       threaded set of types whose parameters get a post-state
       passthrough set of (class, method) inlined inside recursive groups
       opaque   {(class, method): {source text: (lean term, type, effect: bool)}}
       builder_ops / slice_ops: method -> spec"""

    def __init__(self, **kw):
        self.__dict__.update(kw)

    def lean_ty(self, t):
        if t in (NAT, INT, BYTES, BITS):
            return t
        if t == UINT:
            return 'Int'
        if t == BOOL:
            return 'Bool'
        if t == NONE:
            return 'Unit'
        if t == BUILDER:
            return 'Builder R'
        if t == BUILT:
            return 'Built R'
        if t == REF:
            return 'R'
        if is_chunk(t):
            return 'Bits × List R'
        if is_opt(t):
            return f'Option ({self.lean_ty(opt_of(t))})'
        if is_list(t):
            return f'List ({self.lean_ty(t[6:])})'
        if t.startswith('sem:'):
            return self.sem[t[4:]]['lean']
        if t in getattr(self, 'extra_types', {}):
            return self.extra_types[t]
        raise Untranslatable(f'no Lean type for {t}')


def tpar(t):
    return f'({t})' if ' ' in t else t


def bits_lit(s):
    return '[' + ', '.join('true' if c == '1' else 'false' for c in s) + ']'


def is_bitstr(e):
    return isinstance(e, ast.Constant) and isinstance(e.value, str) and set(e.value) <= {'0', '1'}


class Program:
    def __init__(self, cfg):
        self.cfg = cfg
        self.graph = {}
        for key in cfg.sigs:
            self.graph[key] = self.callees(key)
        self.sccs = self._sccs()
        self.group = {}
        for comp in self.sccs:
            rec = len(comp) > 1 or comp[0] in self.graph[comp[0]]
            for k in comp:
                self.group[k] = tuple(comp) if rec else None

    def fn(self, key):
        cls, name = key
        if self.cfg.sigs[key].get('dispatch'):
            return None
        d = self.cfg.classes.get(cls)
        if d is None:
            raise Untranslatable(f'class {cls} is not declared')
        fs = [n for n in d['node'].body if isinstance(n, ast.FunctionDef) and n.name == name]
        if len(fs) != 1:
            raise Untranslatable(f'{cls}.{name}: {len(fs)} definitions')
        return fs[0]

    def resolve(self, cur_cls, call):
        """the (class, method) keys a call node may run, or None"""
        f = call.func
        if not isinstance(f, ast.Attribute):
            return None
        v = f.value
        if isinstance(v, ast.Name):
            c = cur_cls if v.id == 'cls' else v.id
            if (c, f.attr) in self.cfg.sigs:
                return [(c, f.attr)]
        # a method call on an object: the classes whose instances have the receiver's declared type (`self.<field>`), else every
        # declared class with that method (refined by type during translation)
        hits = [k for k in self.cfg.sigs if k[1] == f.attr and self.cfg.sigs[k].get('self') and k[0] in self.cfg.classes]
        d = self.cfg.classes.get(cur_cls, {})
        if isinstance(v, ast.Attribute) and isinstance(v.value, ast.Name) and v.value.id == 'self' and d.get('ctor') and \
                str(d.get('repr', '')).startswith('sem:'):
            ft = dict(self.cfg.sem[d['repr'][4:]]['ctors'][d['ctor']]).get(v.attr)
            if ft is not None:
                typed = [k for k in hits if self.cfg.classes[k[0]]['repr'] == ft]
                if not typed and is_opt(ft):
                    ft = opt_of(ft)
                    typed = [k for k in hits if self.cfg.classes[k[0]]['repr'] == ft]
                if len(typed) > 1:
                    disp = (ft[4:], f.attr) if ft.startswith('sem:') else None
                    return [disp] if disp in self.cfg.sigs else typed
                return typed or None
        return hits or None

    def callees(self, key):
        out = set()
        if self.cfg.sigs[key].get('dispatch'):
            return {(c, key[1]) for _, c in self.cfg.sigs[key]['dispatch']}

        def walk(n):
            if isinstance(n, ast.Lambda):          # never translated (only accepted inside statically dead branches)
                return
            if isinstance(n, ast.expr) and ast.unparse(n) in self.cfg.opaque.get(key, {}):
                return                             # a declared opaque expression
            if isinstance(n, ast.FunctionDef) and n.name in self.cfg.opaque_defs.get(key, ()):
                return
            if isinstance(n, ast.Call):
                for k in self.resolve(key[0], n) or []:
                    out.add(k)
            for c in ast.iter_child_nodes(n):
                walk(c)
        walk(self.fn(key))
        return out

    def _sccs(self):
        """Tarjan; returns components callee-first"""
        index, low, on, st, out = {}, {}, set(), [], []
        counter = [0]

        def visit(v):
            index[v] = low[v] = counter[0]
            counter[0] += 1
            st.append(v)
            on.add(v)
            for w in sorted(self.graph[v]):
                if w not in index:
                    visit(w)
                    low[v] = min(low[v], low[w])
                elif w in on:
                    low[v] = min(low[v], index[w])
            if low[v] == index[v]:
                comp = []
                while True:
                    w = st.pop()
                    on.discard(w)
                    comp.append(w)
                    if w == v:
                        break
                out.append(sorted(comp))
        for v in sorted(self.graph):
            if v not in index:
                visit(v)
        return out

    def fuelled(self, key):
        return self.group.get(key) is not None and key not in self.cfg.passthrough

    def needs_fuel_arg(self, key):
        """takes a fuel argument: fuelled, or a pass-through that hands it on"""
        return self.group.get(key) is not None

    def lean_name(self, key):
        return f'{key[0]}_{key[1]}'

    def threaded(self, key):
        sig = self.cfg.sigs[key]
        if sig['mode'] != 'opt':
            return []
        return [i for i, (_, t) in enumerate(sig['params']) if t in self.cfg.threaded]

    def ret_lean(self, key):
        sig = self.cfg.sigs[key]
        r = self.cfg.lean_ty(sig['ret'])
        th = self.threaded(key)
        parts = [tpar(r)] + [tpar(self.cfg.lean_ty(sig['params'][i][1])) for i in th]
        body = ' × '.join(parts)
        return f'Option ({body})' if sig['mode'] == 'opt' else f'SOp R {tpar(r)}'

    def translate_all(self):
        """-> [(section name, text)]"""
        out = []
        for comp in self.sccs:
            rec = self.group[comp[0]] is not None
            if not rec:
                k = comp[0]
                out.append((self.lean_name(k), self.emit_def(k, None)))
                continue
            fuelled = [k for k in comp if k not in self.cfg.passthrough]
            if not fuelled:
                raise Untranslatable(f'recursive group {comp} has only pass-through methods')
            texts = [self.emit_def(k, tuple(comp)) for k in fuelled]
            name = 'mutual_' + '_'.join(sorted({self.lean_name(k) for k in fuelled}))[:60]
            out.append((name, 'mutual\n' + '\n'.join(texts) + 'end\n'))
            for k in comp:
                if k in self.cfg.passthrough:
                    out.append((self.lean_name(k), self.emit_def(k, None, standalone_pass=True)))
        return out

    def emit_def(self, key, group, standalone_pass=False):
        cfg = self.cfg
        sig = cfg.sigs[key]
        if sig.get('dispatch'):
            ctxp = ' '.join(f'({n} : {t})' for n, t in cfg.ctx[sig['mode']])
            ctxa = ' '.join(n for n, _ in cfg.ctx[sig['mode']])
            arms = '\n'.join(f'  | .{ctor} .. => {self.lean_name((c, key[1]))} {ctxa} self' for ctor, c in sig['dispatch'])
            return (f'/-- `x.{key[1]}()` for an object x of one of the classes {[c for _, c in sig["dispatch"]]} -/\n'
                    f'def {self.lean_name(key)} {ctxp} (self : {cfg.lean_ty(sig["params"][0][1])}) : {self.ret_lean(key)} :=\n  match self with\n{arms}\n')
        fn = self.fn(key)
        tr = Tr(self, key, fn, in_group=group)
        body = tr.translate()
        ctx = ' '.join(f'({n} : {t})' for n, t in cfg.ctx[sig['mode']])
        ps = [(lname(n), cfg.lean_ty(t)) for n, t in sig['params']]
        doc = pybytes.doc_of(fn, f'{cfg.classes[key[0]]["src"]}: {key[0]}.{key[1]}')
        name = self.lean_name(key)
        ret = self.ret_lean(key)
        if group is not None:                   # fuelled member of a recursive group
            tys = ' → '.join(['Nat'] + [tpar(t) for _, t in ps] + [ret])
            fail = 'none' if sig['mode'] == 'opt' else 'SOp.fail'
            pat0 = ', '.join(['0'] + ['_'] * len(ps))
            pat1 = ', '.join(['fuel + 1'] + [n for n, _ in ps])
            return f'{doc}def {name} {ctx} : {tys}\n  | {pat0} => {fail}\n  | {pat1} => do\n{indent(body, 6)}\n'
        fuel = '(fuel : Nat) ' if standalone_pass or self.needs_fuel_arg(key) else ''
        args = ' '.join(f'({n} : {t})' for n, t in ps)
        return f'{doc}def {name} {ctx} {fuel}{args} : {ret} := do\n{indent(body, 2)}\n'


def indent(lines, by):
    pad = ' ' * by
    return '\n'.join(pad + l for l in lines)


class Tr(BTr):
    def __init__(self, prog, key, fn, in_group=None, inline_depth=0):
        super().__init__([])
        self.prog, self.cfg, self.key, self.fn, self.in_group = prog, prog.cfg, key, fn, in_group
        self.cls = key[0]
        self.sig = self.cfg.sigs[key]
        self.mode = self.sig['mode']
        self.lines = []
        self.ind = 0
        self.narrow = {}            # source text -> dict(ctor=, fields={name: (text, type)}, order=[names])
        self.records = {}           # dict-record variable -> {key: (text, type)}
        self.fresh_objs = set()     # locals holding a new list object
        self.inline_depth = inline_depth
        self.opaque = self.cfg.opaque.get(key, {})
        a = fn.args
        if a.vararg or a.kwarg or a.kwonlyargs or a.posonlyargs:
            raise Untranslatable(f'{fn.name}: parameter list')
        names = [x.arg for x in a.args]
        decos = [ast.unparse(d) for d in fn.decorator_list]
        self.is_self = bool(self.sig.get('self'))
        if self.is_self:
            if decos or not names or names[0] != 'self':
                raise Untranslatable(f'{self.cls}.{fn.name} is not a plain instance method')
        else:
            if decos != ['classmethod'] or not names or names[0] != 'cls':
                raise Untranslatable(f'{self.cls}.{fn.name} is not a classmethod')
        want = [n for n, _ in self.sig['params']]
        have = names if self.is_self else names[1:]
        if self.mode == 'sop':
            if len(have) < 1 or have[0] != self.cfg.slice_param:
                raise Untranslatable(f'{self.cls}.{fn.name}: first parameter is not {self.cfg.slice_param}')
            have = have[1:]
        if have != want or a.defaults:
            raise Untranslatable(f'{self.cls}.{fn.name}: parameters {have}, declared {want}')
        for n, t in self.sig['params']:
            self.env[n] = t
        self.threaded = [self.sig['params'][i][0] for i in prog.threaded(key)]
        self.param_names = set(want)
        for n in ast.walk(fn):
            if isinstance(n, (ast.Global, ast.Nonlocal, ast.While, ast.For, ast.Try, ast.With, ast.Break, ast.Continue, ast.Yield, ast.YieldFrom,
                              ast.Await, ast.Delete, ast.NamedExpr)):
                raise Untranslatable(f'{fn.name}: {type(n).__name__}')

    # ------------------------------------------------------------------ output
    def emit(self, text):
        for l in text.split('\n'):
            self.lines.append(' ' * self.ind + l)

    def tmp(self, hint):
        self.fresh += 1
        return f'{hint}_{self.fresh}'

    def lift(self, term):
        """an Option-valued term as an action of the current monad"""
        return term if self.mode == 'opt' else f'SOp.ofOption ({term})'

    def bind(self, term, hint):
        if self.nohoist:
            raise Untranslatable('an effect occurs where Python evaluates it conditionally (and / or / comparison chain)')
        name = self.tmp(hint)
        self.emit(f'let {name} ← {term}')
        return name

    def hoist(self, term, hint):          # pybytes: an Option-valued partial expression
        return self.bind(self.lift(term), hint)

    def need(self, cond):
        if self.nohoist:
            raise Untranslatable('a division that can raise occurs where Python evaluates it conditionally')
        self.emit(f'if ¬ {cond} then {"none" if self.mode == "opt" else "SOp.fail"} else')

    def fail(self):
        return 'none' if self.mode == 'opt' else 'SOp.fail'

    # ------------------------------------------------------------------ reading
    def read(self, name):
        t = self.env.get(name)
        if t == UINT:
            return lname(name), INT
        return super().read(name)

    def raw_type(self, e):
        """declared / stored type of a name or narrowed expression without translating it (None if unknown)"""
        if isinstance(e, ast.Name):
            return self.env.get(e.id)
        return None

    def as_nat(self, e, what):
        if isinstance(e, ast.Name) and self.env.get(e.id) == UINT:
            return f'{lname(e.id)}.toNat'
        v, t = self.expr(e)
        if t == PROP:
            v, t = self.num((v, t))
        if t != NAT:
            raise Untranslatable(f'{what} is not known to be a non-negative int')
        return v

    def as_int(self, e, what):
        v, t = self.expr(e)
        if t == PROP:
            v, t = self.num((v, t))
        if t == NAT:
            return self.cast((v, t))
        if t in (INT, UINT):
            return v
        raise Untranslatable(f'{what}: {t} where an int is expected')

    def index_nat(self, node, what):
        return self.as_nat(node, what)

    def truth(self, et):
        e, t = et
        if t == BOOL:
            return f'({e} = true)'
        if t == BITS or t == 'refs' or is_list(t):
            return f'({e} ≠ [])'
        if t not in pybytes.NUMERIC and t != BYTES:
            raise Untranslatable(f'{t} value used as a condition')
        return super().truth(et)

    # ------------------------------------------------------------------ expressions
    def expr(self, e):
        key = ast.unparse(e)
        if key in self.opaque:
            term, t, eff = self.opaque[key]
            return (self.bind(term, 'o') if eff else term), t
        if key in self.narrow and not isinstance(e, ast.Constant):
            return self.narrowed_value(key)
        if isinstance(e, ast.Constant):
            if is_bitstr(e) and e.value != '':
                return bits_lit(e.value), BITS
            if isinstance(e.value, int) and not isinstance(e.value, bool) and e.value < 0:
                return f'(-{-e.value} : Int)', INT
            if isinstance(e.value, bool):
                return ('true' if e.value else 'false'), BOOL
            return super().expr(e)
        if isinstance(e, ast.Name):
            if e.id in self.records:
                raise Untranslatable(f'the record {e.id} is used as a value')
            t = self.env.get(e.id)
            if t is None:
                raise Untranslatable(f'undeclared name {e.id}')
            if t in (NAT, INT, UINT, BOOL, BYTES):
                return self.read(e.id)
            return lname(e.id), t
        if isinstance(e, ast.Attribute):
            return self.attribute(e)
        if isinstance(e, ast.List):
            if not e.elts:
                return '[]', EMPTYLIST
            xs = [self.expr(x) for x in e.elts]
            t0 = xs[0][1]
            return '[' + ', '.join(x for x, _ in reversed(xs)) + ']', LIST(t0)
        if isinstance(e, ast.Compare) and len(e.ops) == 1 and isinstance(e.ops[0], (ast.Eq, ast.NotEq)):
            l, r = self.expr(e.left), self.guarded(lambda: self.expr(e.comparators[0]))
            if BITS in (l[1], r[1]) or BOOL in (l[1], r[1]):
                if l[1] != r[1]:
                    raise Untranslatable(f'comparison of {l[1]} with {r[1]}')
                return (f'({l[0]} = {r[0]})' if isinstance(e.ops[0], ast.Eq) else f'({l[0]} ≠ {r[0]})'), PROP
            if l[1] == UINT or r[1] == UINT:
                l = (l[0], INT) if l[1] == UINT else l
                r = (r[0], INT) if r[1] == UINT else r
        if isinstance(e, ast.IfExp):
            return self.ifexp(e)
        if isinstance(e, ast.UnaryOp) and isinstance(e.op, ast.Not):
            return f'(¬ {self.truth(self.expr(e.operand))})', PROP
        if isinstance(e, ast.BinOp) and isinstance(e.op, ast.Add):
            lt = self.peek_type(e.left)
            if lt is not None and is_list(lt):
                l = self.expr(e.left)
                if not (isinstance(e.right, ast.List) and len(e.right.elts) == 1):
                    raise Untranslatable('list + something else than a one-element list')
                x = self.coerce(self.expr(e.right.elts[0]), l[1][6:], 'list element')
                return f'(Py.RL.push {l[0]} {par(x)})', l[1]
        return super().expr(e)

    def peek_type(self, e):
        """type of an expression without emitting effects (best effort: names, narrowed texts, declared calls)"""
        if isinstance(e, ast.Name):
            return self.env.get(e.id)
        if isinstance(e, ast.Call):
            ks = self.prog.resolve(self.cls, e)
            if ks and len(ks) == 1:
                return self.cfg.sigs[ks[0]]['ret']
        return None

    def narrowed_value(self, key):
        n = self.narrow[key]
        if len(n['order']) == 1:
            return n['fields'][n['order'][0]]
        if not n['order']:
            return '()', NONE
        raise Untranslatable(f'{key} (narrowed to {n["ctor"]}) used as a whole value')

    def ifexp(self, e):
        """conditional expression whose arms may have effects"""
        test = self.test(e.test)
        if test[0] == 'static':
            return self.expr(e.body if test[1] else e.orelse)
        # translate both arms into sub-blocks
        def arm(node, restore):
            saved = (self.lines, self.ind, dict(self.env), dict(self.narrow))
            self.lines, self.ind = [], 0
            try:
                restore()
                v = self.expr(node)
                return self.lines, v
            finally:
                self.lines, self.ind, self.env, self.narrow = saved
        if test[0] == 'match':
            _, subj, pat, binds, neg = test
            la, va = arm(e.orelse if neg else e.body, lambda: self.narrow.update(binds))
            lb, vb = arm(e.body if neg else e.orelse, lambda: None)
        else:
            la, va = arm(e.body, lambda: None)
            lb, vb = arm(e.orelse, lambda: None)
        t = self.join_types(va[1], vb[1])
        xa, xb = self.coerce(va, t, 'conditional expression'), self.coerce(vb, t, 'conditional expression')
        if not la and not lb and test[0] == 'cond' and t in (NAT, INT, PROP):
            return f'(if {test[1]} then {xa} else {xb})', t
        name = self.tmp('c')
        ty = f'{"Option" if self.mode == "opt" else "SOp R"} {tpar(self.cfg.lean_ty(t))}'
        if test[0] == 'match':
            self.emit(f'let {name} ← (match {subj} with')
            self.emit(f'  | {pat} => (do')
            for l in la:
                self.emit('      ' + l)
            self.emit(f'      pure {par(xa)} : {ty})')
            self.emit('  | _ => (do')
            for l in lb:
                self.emit('      ' + l)
            self.emit(f'      pure {par(xb)} : {ty}))')
        else:
            self.emit(f'let {name} ← (if {test[1]} then (do')
            for l in la:
                self.emit('      ' + l)
            self.emit(f'      pure {par(xa)} : {ty}) else (do')
            for l in lb:
                self.emit('      ' + l)
            self.emit(f'      pure {par(xb)} : {ty}))')
        return name, t

    def join_types(self, a, b):
        if a == b:
            return a
        for x, y in ((a, b), (b, a)):
            if x == NONE:
                return y if is_opt(y) else OPT(INT if y == UINT else y)
            if x == UINT and y == INT:
                return INT
        j = pybytes.join(a, b)
        if j == pybytes.POISON:
            raise Untranslatable(f'conditional expression with arms of types {a} and {b}')
        return j

    def coerce(self, vt, want, what):
        v, have = vt
        if have == want:
            return v
        if have == PROP and want == BOOL:
            return f'(decide {v})'
        if want == INT and have == UINT:
            return v
        if want == INT and have == NAT:
            return self.cast((v, have))
        if want == UINT and have == NAT:
            return self.cast((v, have))
        if is_list(want) and have == EMPTYLIST:
            return f'([] : {self.cfg.lean_ty(want)})'
        if is_chunk(want) and is_chunk(have):
            if want.split(':')[1] == have.split(':')[1]:
                return v
            raise Untranslatable(f'{what}: a {have} where a {want} is expected')
        if is_chunk(want) and want.endswith(':cell') and have == REF:
            return f'(view {v})'                  # a cell object held by its content
        if is_opt(want):
            if have == NONE:
                return 'none'
            if is_opt(have):
                raise Untranslatable(f'{what}: {have} where {want} is expected')
            return f'(some {par(self.coerce(vt, opt_of(want), what))})'
        if want.startswith('sem:'):
            into = self.cfg.sem[want[4:]].get('into', {})
            if have in into:
                return '(' + into[have].format(v) + ')'
            if is_opt(have) and self.mode == 'sop' and opt_of(have) == want:
                return self.bind(f'Py.Tlb.unNone {par(v)}', 'u')
        raise Untranslatable(f'{what}: a value of type {have} where {want} is expected')

    # attributes ------------------------------------------------------------
    def attribute(self, e):
        v = e.value
        vkey = ast.unparse(v)
        if vkey in self.narrow:
            n = self.narrow[vkey]
            if e.attr in n['fields']:
                return n['fields'][e.attr]
            raise Untranslatable(f'{vkey}.{e.attr}: no such field of {n["ctor"]}')
        base, bt = self.expr(v)
        if is_list(bt) and e.attr == self.cfg.list_attr:
            return base, bt                      # the list inside the wrapper object
        if bt == BUILT and e.attr in ('bits', 'refs'):
            return (f'{base}.{e.attr}', BITS if e.attr == 'bits' else 'refs')
        if is_chunk(bt) and e.attr in ('bits', 'refs'):
            return (f'{base}.{1 if e.attr == "bits" else 2}', BITS if e.attr == 'bits' else 'refs')
        if bt == SLICEV and e.attr == 'ref_offset':
            return '0', NAT                      # a Slice VALUE is its remaining data: refs = refs[ref_offset:]
        if bt == BUILDER and e.attr in self.cfg.builder_props:
            return f'({self.cfg.builder_props[e.attr]} {base})', INT
        raise Untranslatable(f'attribute .{e.attr} of a {bt}')

    def subscript(self, e):
        bt = self.peek_type(e.value)
        if isinstance(e.value, ast.Attribute) or (bt is not None and (is_list(bt) or bt == BITS)):
            base, bt = self.expr(e.value)
        if bt is not None and is_list(bt):
            s = e.slice
            if isinstance(s, ast.Slice):
                if s.lower is None and s.step is None and isinstance(s.upper, ast.UnaryOp) and isinstance(s.upper.op, ast.USub) \
                        and isinstance(s.upper.operand, ast.Constant) and s.upper.operand.value == 1:
                    return f'(Py.RL.init {base})', bt
                raise Untranslatable('list slice other than xs[:-1]')
            if isinstance(s, ast.UnaryOp) and isinstance(s.op, ast.USub) and isinstance(s.operand, ast.Constant) and s.operand.value == 1:
                return self.hoist(f'Py.RL.last? {base}', 'el'), bt[6:]
            if isinstance(s, ast.Constant) and s.value == 0:
                return self.hoist(f'Py.RL.first? {base}', 'el'), bt[6:]
            raise Untranslatable('list index other than xs[-1] / xs[0]')
        if bt == BITS or bt == 'refs':
            s = e.slice
            if not isinstance(s, ast.Slice) or s.step is not None:
                raise Untranslatable(f'index of a {bt}')
            lo = self.as_nat(s.lower, 'slice bound') if s.lower is not None else '0'
            if s.upper is None:
                return f'({base}.drop {lo})', bt
            return f'(Py.slice {base} {lo} {self.as_nat(s.upper, "slice bound")})', bt
        return super().subscript(e)

    # calls -----------------------------------------------------------------
    def call(self, e, key):
        f = e.func
        if isinstance(f, ast.Name) and f.id not in self.env:
            if f.id == 'len' and len(e.args) == 1 and not e.keywords:
                v, t = self.expr(e.args[0])
                if t in (BITS, 'refs') or is_list(t):
                    return f'{v}.length', NAT
                if t == BYTES:
                    return f'{v}.length', NAT
                raise Untranslatable(f'len of a {t}')
            if f.id == 'getattr' and len(e.args) == 3 and isinstance(e.args[1], ast.Constant) and isinstance(e.args[2], ast.Constant) \
                    and e.args[2].value is None and not e.keywords:
                return self.attribute(ast.Attribute(value=e.args[0], attr=e.args[1].value, ctx=ast.Load()))
            if f.id == self.cfg.builder_class and not e.args and not e.keywords:
                return '(Builder.empty : Builder R)', BUILDER
            if f.id == 'cls':
                return self.construct(self.cls, e)
            if f.id in self.cfg.classes:
                return self.construct(f.id, e)
        if isinstance(f, ast.Attribute):
            r = self.attr_call(e)
            if r is not None:
                return r
        return super().call(e, key)

    def construct(self, cls, e):
        d = self.cfg.classes[cls]
        rep = d['repr']
        if is_list(rep):                         # list wrapper: C(list)
            if len(e.args) != 1 or e.keywords:
                raise Untranslatable(f'{cls}(...) call shape')
            v = self.expr(e.args[0])
            return self.coerce(v, rep, f'{cls}(...)'), rep
        if d.get('identity'):                    # an object represented by its single constructor argument
            if len(e.args) != 1 or e.keywords:
                raise Untranslatable(f'{cls}(...) call shape')
            return self.coerce(self.expr(e.args[0]), rep, f'{cls}(...)'), rep
        sem = self.cfg.sem[rep[4:]]
        args = list(e.args)
        if d.get('tagged'):
            if not args or not (isinstance(args[0], ast.Constant) and isinstance(args[0].value, str)):
                raise Untranslatable(f'{cls}(...) without a literal tag')
            ctor = sem['tags'].get(args[0].value)
            if ctor is None:
                raise Untranslatable(f'{cls}: unknown tag {args[0].value!r}')
            args = args[1:]
            names = [f for f, _ in sem['ctors'][ctor]]
        else:
            ctor = d['ctor']
            names = d['init']
        if len(args) > len(names):
            raise Untranslatable(f'{cls}(...): too many arguments')
        ftypes = dict(sem['ctors'][ctor])
        given = {}

        def give(n, vt):
            # a value is converted to the field's type where it is evaluated (Python's evaluation order)
            if n in given:
                raise Untranslatable(f'keyword {n} twice')
            if n not in ftypes:
                raise Untranslatable(f'{cls}(...): unknown argument {n}')
            given[n] = self.coerce(vt, ftypes[n], f'{cls}.{n}')
        for n, a in zip(names, args):           # positional, evaluated left to right
            give(n, self.expr(a))
        for k in e.keywords:
            if k.arg is None:                    # **record
                if not (isinstance(k.value, ast.Name) and k.value.id in self.records):
                    raise Untranslatable('** of something else than a dict record')
                for rk, rv in self.records[k.value.id].items():
                    give(rk, rv)
                continue
            give(k.arg, self.expr(k.value))
        parts = []
        for fname, ft in sem['ctors'][ctor]:
            if fname not in given:
                raise Untranslatable(f'{cls}(...): field {fname} is not given')
            x = given[fname]
            parts += [f'{par(x)}.1', f'{par(x)}.2'] if is_split(ft) else [par(x)]
        return f'({sem["lean"].split()[0]}.{ctor} {" ".join(parts)})'.replace(' )', ')'), rep

    def attr_call(self, e):
        f = e.func
        v = f.value
        cfg = self.cfg
        # translated methods: C.m(..) / cls.m(..)
        if isinstance(v, ast.Name) and v.id not in self.env:
            c = self.cls if v.id == 'cls' else v.id
            if (c, f.attr) in cfg.sigs and not cfg.sigs[(c, f.attr)].get('self'):
                return self.method_call((c, f.attr), None, e)
            if c == cfg.slice_class and f.attr == 'from_cell' and len(e.args) == 1:
                x, t = self.expr(e.args[0])
                if t != REF:
                    raise Untranslatable('Slice.from_cell of something else than a cell reference')
                return f'(view {x})', SLICEV
            if c == cfg.cell_class and f.attr == 'empty' and not e.args:
                b = self.bind(self.lift('finish mk (Builder.empty : Builder R)'), 'cell')
                return b, BUILT
        if f.attr == 'to01' and not e.args:
            x, t = self.expr(v)
            if t != BITS:
                raise Untranslatable('to01() of a non-bitarray')
            return x, BITS
        if f.attr == 'copy' and not e.args:
            x, t = self.expr(v)
            if is_list(t):
                return x, t
            raise Untranslatable(f'copy() of a {t}')
        if f.attr == 'pop' and not e.args:
            return self.pop(v)
        # the slice being parsed
        if isinstance(v, ast.Name) and v.id == cfg.slice_param and self.mode == 'sop' and v.id not in self.env:
            return self.slice_call(e)
        vt = self.peek_type(v)
        base, bt = self.expr(v)
        if bt == BUILDER:
            return self.builder_call(base, e)
        if bt == REF and f.attr == 'begin_parse' and not e.args:
            return base, 'fresh-slice'
        if bt == REF and f.attr == 'to_builder' and not e.args:
            return self.hoist(f'Py.Tlb.toBuilder? view ord {base}', 'tb'), BUILDERV
        if bt == BUILDERV and f.attr == 'end_cell' and not e.args:
            c = self.hoist(f'mk {base}.1 {base}.2', 'cell')
            return c, REF
        if is_list(bt) and f.attr == 'append' and len(e.args) == 1:
            if isinstance(v, ast.Name):
                raise Untranslatable('append to a named list (mutation)')
            x = self.coerce(self.expr(e.args[0]), bt[6:], 'append')
            return f'(Py.RL.push {base} {par(x)})', bt
        # instance methods of declared classes
        ks = [k for k in cfg.sigs if k[1] == f.attr and cfg.sigs[k].get('self') and k[0] in cfg.classes and cfg.classes[k[0]]['repr'] == bt]
        if ks:
            return self.method_call(ks, base, e)
        raise Untranslatable(f'call of .{f.attr} on a {bt}')

    def pop(self, v):
        if not isinstance(v, ast.Name):
            raise Untranslatable('pop() on something else than a named list')
        t = self.env.get(v.id)
        if t is None or not is_list(t):
            raise Untranslatable(f'pop() on a {t}')
        if v.id not in self.threaded and v.id not in self.fresh_objs:
            raise Untranslatable(f'pop() on {v.id}: not a parameter with a post-state and not a new list')
        p = self.hoist(f'Py.RL.pop? {lname(v.id)}', 'p')
        self.emit(f'let {lname(v.id)} := {p}.2')
        return f'{p}.1', t[6:]

    def slice_call(self, e):
        m = e.func.attr
        spec = self.cfg.slice_ops.get(m)
        if spec is None:
            raise Untranslatable(f'cell_slice.{m} is not declared')
        if e.keywords:
            raise Untranslatable(f'cell_slice.{m} with keyword arguments')
        argk, term, rt = spec
        if len(e.args) != len(argk):
            raise Untranslatable(f'cell_slice.{m}: argument count')
        args = [self.as_nat(a, f'argument of {m}') for a in e.args]
        full = term.format(*args)
        if rt is None:                            # returns the slice itself; only as a statement
            self.emit(full)
            return '()', 'slice-self'
        return self.bind(full, m.split('_')[-1]), rt

    def builder_call(self, base, e):
        """a store call as a VALUE: the builder after the call (chains); base is Lean text of a Builder value"""
        m = e.func.attr
        if m == 'end_cell' and not e.args and not e.keywords:
            return self.bind(self.lift(f'finish mk {base}'), 'cell'), BUILT
        spec = self.cfg.builder_ops.get(m)
        if spec is None or e.keywords or len(e.args) != len(spec):
            raise Untranslatable(f'builder.{m} call is not declared')
        term = None
        args = []
        for a, kinds in zip(e.args, spec):
            args.append(self.builder_arg(a, kinds, m))
        op = self.cfg.builder_terms[m](args)
        nb = self.bind(self.lift(op.format(b=base)), 'b')
        return nb, BUILDER

    def builder_arg(self, a, kinds, m):
        """-> (lean text, type) of one argument of a store call, accepted types per declaration"""
        if 'bit' in kinds and isinstance(a, ast.Constant) and a.value in (0, 1, True, False) and not isinstance(a.value, str):
            return ('true' if a.value else 'false'), BOOL
        if 'bits' in kinds and is_bitstr(a):
            return bits_lit(a.value), BITS
        if 'nat' in kinds:
            return self.as_nat(a, f'argument of {m}'), NAT
        v, t = self.expr(a)
        if t == PROP and 'bool' in kinds:
            return f'(decide {v})', BOOL
        if t == BOOL and 'bool' in kinds:
            return v, BOOL
        if 'int' in kinds and t in (INT, UINT, NAT, PROP):
            if t == PROP:
                v, t = self.num((v, t))
            return (self.cast((v, t)) if t == NAT else v), INT
        if t in kinds:
            return v, t
        raise Untranslatable(f'builder.{m}: argument of type {t} (accepted: {kinds})')

    def method_call(self, keys, recv, e):
        """call of a translated method; keys = one key or the candidates of a dynamic dispatch on the receiver's constructor"""
        cfg = self.cfg
        if isinstance(keys, tuple):
            keys = [keys]
        key = keys[0]
        if len(keys) > 1:
            key = self.dispatcher(keys)
        sig = cfg.sigs[key]
        if e.keywords:
            raise Untranslatable('keyword arguments in a call of a translated method')
        args = list(e.args)
        actual, rebind = [], []
        sub = None
        if sig['mode'] == 'sop':
            if not args:
                raise Untranslatable('deserialize without a slice')
            s0 = args.pop(0)
            if isinstance(s0, ast.Name) and s0.id == cfg.slice_param and self.mode == 'sop':
                sub = None
            else:
                x, t = self.expr(s0)
                if t != 'fresh-slice' or self.mode != 'sop':
                    raise Untranslatable('deserialize of something else than cell_slice / <cell>.begin_parse()')
                sub = x
        if recv is not None:
            actual.append(par(recv))
        if len(args) != len(sig['params']) - (1 if recv is not None else 0):
            raise Untranslatable(f'{key}: argument count')
        pstart = 1 if recv is not None else 0
        th = self.prog.threaded(key)
        for i, a in enumerate(args):
            pn, pt = sig['params'][pstart + i]
            byname = None
            if isinstance(a, ast.Name) and a.id in self.env:
                at = self.env[a.id]
                if at == pt or (a.id in self.narrow and len(self.narrow[a.id]['order']) == 1 and self.narrow[a.id]['fields'][self.narrow[a.id]['order'][0]][1] == pt):
                    byname = a.id
            if pt == INT:
                x = self.as_int(a, f'argument {pn}')
            elif pt == NAT:
                x = self.as_nat(a, f'argument {pn}')
            else:
                x = self.coerce(self.expr(a), pt, f'argument {pn} of {key[1]}')
            actual.append(par(x))
            if (pstart + i) in th and byname is not None:
                rebind.append((th.index(pstart + i), byname, None))
            elif (pstart + i) in th:
                el = self.element_of(a)
                if el is not None:
                    rebind.append((th.index(pstart + i), el[0], el[1]))
        ctx = ' '.join(n for n, _ in cfg.ctx[sig['mode']])
        fuel = ''
        if self.prog.needs_fuel_arg(key):
            if self.in_group is None and not self.prog.needs_fuel_arg(self.key):
                raise Untranslatable(f'{self.key} calls the recursive {key} but has no fuel')
            fuel = ' fuel'
        if key in cfg.passthrough and self.in_group is not None and key in self.in_group:
            term = self.inline(key, actual)
        else:
            term = f'{self.prog.lean_name(key)} {ctx}{fuel} {" ".join(actual)}'.rstrip()
        if sub is not None:
            term = f'De.sub view ({term}) {sub}'
        if sig['mode'] == 'opt' and self.mode == 'sop':
            raise Untranslatable('a serialiser is called from a deserialiser')
        if sig['mode'] == 'sop' and self.mode == 'opt':
            raise Untranslatable('a deserialiser is called from a serialiser')
        r = self.bind(term, 'r')
        if sig['mode'] == 'opt' and th:
            for k, name, how in rebind:
                tgt = name
                if how is not None:          # the argument was the element xs[-1] / xs[0] of a list with a post-state: write it back
                    self.emit(f'let {lname(tgt)} := Py.RL.{how} {lname(tgt)} {proj(r, k + 1, len(th) + 1)}')
                elif name in self.narrow and len(self.narrow[name]['order']) == 1:
                    fld = self.narrow[name]['order'][0]
                    nv = self.tmp(name)
                    self.emit(f'let {nv} := {proj(r, k + 1, len(th) + 1)}')
                    self.narrow[name] = dict(self.narrow[name], fields={**self.narrow[name]['fields'], fld: (nv, self.narrow[name]['fields'][fld][1])})
                else:
                    self.emit(f'let {lname(tgt)} := {proj(r, k + 1, len(th) + 1)}')
            return proj(r, 0, len(th) + 1), sig['ret']
        return r, sig['ret']

    def element_of(self, a):
        """`xs[-1]` / `xs[0]` (also through the wrapper's list attribute) of a named list with a post-state -> (name, RL setter)"""
        if not isinstance(a, ast.Subscript):
            return None
        b = a.value
        if isinstance(b, ast.Attribute) and b.attr == self.cfg.list_attr:
            b = b.value
        if not (isinstance(b, ast.Name) and b.id in self.threaded and is_list(self.env.get(b.id, ''))):
            return None
        s = a.slice
        if isinstance(s, ast.UnaryOp) and isinstance(s.op, ast.USub) and isinstance(s.operand, ast.Constant) and s.operand.value == 1:
            return b.id, 'setLast'
        if isinstance(s, ast.Constant) and s.value == 0:
            return b.id, 'setFirst'
        return None

    def inline(self, key, actual):
        """the body of a pass-through method as a term, with its parameters bound to the (already evaluated) arguments"""
        if self.inline_depth > 3:
            raise Untranslatable('nested inlining')
        sig = self.cfg.sigs[key]
        tr = Tr(self.prog, key, self.prog.fn(key), in_group=self.in_group, inline_depth=self.inline_depth + 1)
        tr.fresh = self.fresh + 100 * (self.inline_depth + 1)
        body = tr.translate()
        lets = []
        tmps = []
        for (pn, pt), a in zip(sig['params'], actual):
            t = self.tmp('a')
            self.emit(f'let {t} := {a}')
            tmps.append((pn, t))
        head = ['(do'] + [f'    let {lname(pn)} := {t}' for pn, t in tmps] + ['    ' + l for l in body]
        return '\n'.join(head) + ')'

    def dispatcher(self, keys):
        """dynamic dispatch of an instance method over the constructors of a semantic type"""
        rep = self.cfg.classes[keys[0][0]]['repr']
        name = (rep[4:], keys[0][1])
        if name not in self.cfg.sigs:
            raise Untranslatable(f'no dispatcher declared for {name}')
        return name

    # ------------------------------------------------------------------ tests
    def test(self, t):
        """-> ('static', bool) | ('match', subject text, pattern, narrow bindings, negated) | ('cond', lean Prop)"""
        neg = False
        while isinstance(t, ast.UnaryOp) and isinstance(t.op, ast.Not):
            neg = not neg
            t = t.operand
        cfg = self.cfg
        subj = None
        if isinstance(t, ast.Compare) and len(t.ops) == 1 and isinstance(t.ops[0], (ast.Is, ast.IsNot)) and \
                isinstance(t.comparators[0], ast.Constant) and t.comparators[0].value is None:
            subj, what = t.left, ('none',)
            if isinstance(t.ops[0], ast.IsNot):
                neg = not neg
        elif isinstance(t, ast.Call) and isinstance(t.func, ast.Name) and t.func.id == 'isinstance' and len(t.args) == 2 and not t.keywords:
            if not isinstance(t.args[1], ast.Name):
                raise Untranslatable('isinstance with something else than a class name')
            subj, what = t.args[0], ('isinstance', t.args[1].id)
        elif isinstance(t, ast.Compare) and len(t.ops) == 1 and isinstance(t.ops[0], ast.Eq) and isinstance(t.left, ast.Attribute) \
                and t.left.attr == 'type_' and isinstance(t.comparators[0], ast.Constant) and isinstance(t.comparators[0].value, str):
            subj, what = t.left.value, ('tag', t.comparators[0].value)
        else:
            st = self.subject_type(t)
            if st is not None and (is_opt(st) or st.startswith('sem:')):
                subj, what = t, ('truthy',)
        if subj is None:
            c = self.truth(self.expr(t))
            return ('cond', f'(¬ {c})' if neg else c)
        skey = ast.unparse(subj)
        if skey in self.narrow:
            n = self.narrow[skey]
            # already narrowed: decide statically
            if what[0] == 'none':
                return ('static', (n['ctor'] in ('none', n.get('none_ctor'))) != neg)
            if what[0] == 'isinstance' and len(n['order']) == 1 and not n['fields'][n['order'][0]][1].startswith('sem:'):
                pt = n['fields'][n['order'][0]][1]
                return ('static', (cfg.static_isinstance.get(pt) == what[1]) != neg)
            raise Untranslatable(f'test on the already narrowed {skey}')
        st = self.subject_type(subj)
        if st is None:
            raise Untranslatable(f'test on {skey}: unknown type')
        stext, _ = self.expr(subj)
        base = skey.replace('.', '_').replace('(', '').replace(')', '').replace("'", '').replace(',', '_').replace(' ', '')
        if is_opt(st):
            if what[0] == 'isinstance':
                return ('static', neg)            # an Optional[declared type] is never an instance of another class here
            inner = opt_of(st)
            if what[0] == 'truthy' and not (inner.startswith('sem:') or inner == REF or inner == BUILT):
                raise Untranslatable(f'truthiness of an Optional {inner}')
            v = f'{base}_v'
            binds = {skey: dict(ctor='some', fields={'_': (v, inner)}, order=['_'])}
            if what[0] == 'none':                 # `x is None`: the match arm is `some`, so flip
                return ('match', stext, f'some {v}', binds, not neg)
            return ('match', stext, f'some {v}', binds, neg)
        if st.startswith('sem:'):
            sem = cfg.sem[st[4:]]
            if what[0] == 'none':
                ctor = sem.get('none')
                if ctor is None:
                    return ('static', neg)
            elif what[0] == 'isinstance':
                if what[1] not in sem.get('isinstance', {}):
                    raise Untranslatable(f'isinstance(.., {what[1]}) is not declared for {st}')
                ctor = sem['isinstance'][what[1]]
                if ctor is None:
                    return ('static', neg)
            elif what[0] == 'tag':
                ctor = sem.get('tags', {}).get(what[1])
                if ctor is None:
                    return ('static', neg)
            else:
                raise Untranslatable(f'truthiness of a {st}')
            fields, order, pats = {}, [], []
            for fname, ft in sem['ctors'][ctor]:
                if is_split(ft):
                    pats += [f'{base}_{fname}_b', f'{base}_{fname}_r']
                    fields[fname] = (f'({base}_{fname}_b, {base}_{fname}_r)', ft)
                else:
                    pats.append(f'{base}_{fname}')
                    fields[fname] = (f'{base}_{fname}', ft)
                order.append(fname)
            binds = {skey: dict(ctor=ctor, fields=fields, order=order, sem=st)}
            return ('match', stext, ' '.join(['.' + ctor] + pats), binds, neg)
        # a value of a non-semantic declared type: isinstance / is None are decided statically
        if what[0] == 'isinstance':
            return ('static', (cfg.static_isinstance.get(st) == what[1]) != neg)
        if what[0] == 'none':
            return ('static', neg)
        raise Untranslatable(f'test on a {st}')

    def subject_type(self, e):
        if isinstance(e, ast.Name):
            return self.env.get(e.id)
        key = ast.unparse(e)
        if key in self.narrow:
            return None
        if isinstance(e, ast.Attribute):
            vkey = ast.unparse(e.value)
            if vkey in self.narrow and e.attr in self.narrow[vkey]['fields']:
                return self.narrow[vkey]['fields'][e.attr][1]
        return None

    # ------------------------------------------------------------------ statements
    def translate(self):
        body = [s for s in self.fn.body]
        # single-constructor semantic parameters (and self) are taken apart at entry
        opened = 0
        for n, t in self.sig['params']:
            if t.startswith('sem:'):
                sem = self.cfg.sem[t[4:]]
                want = None
                if n == 'self':
                    want = self.cfg.classes[self.cls].get('ctor')
                elif len(sem['ctors']) == 1:
                    want = list(sem['ctors'])[0]
                if want is None:
                    continue
                fields, order, pats = {}, [], []
                for fname, ft in sem['ctors'][want]:
                    if is_split(ft):
                        pats += [f'{n}_{fname}_b', f'{n}_{fname}_r']
                        fields[fname] = (f'({n}_{fname}_b, {n}_{fname}_r)', ft)
                    else:
                        pats.append(f'{n}_{fname}')
                        fields[fname] = (f'{n}_{fname}', ft)
                    order.append(fname)
                self.emit(f'match {lname(n)} with')
                if len(sem['ctors']) > 1:
                    self.emit(f'| .{want} {" ".join(pats)} => do'.replace('  ', ' '))
                else:
                    self.emit(f'| .{want} {" ".join(pats)} => do'.replace('  ', ' '))
                self.ind += 4
                self.narrow[n] = dict(ctor=want, fields=fields, order=order, sem=t)
                opened += 1
                self.multi = len(sem['ctors']) > 1
        self.block(body)
        if opened and getattr(self, 'multi', False):
            self.ind -= 4
            self.emit(f'| _ => {self.fail()}')
        return self.lines

    def block(self, stmts):
        """emits the statements; every path ends in a return / raise"""
        if not stmts:
            self.ret_value(('()', NONE))
            return
        s, rest = stmts[0], list(stmts[1:])
        if isinstance(s, ast.Expr) and isinstance(s.value, ast.Constant):
            return self.block(rest)
        if isinstance(s, ast.Pass):
            return self.block(rest)
        if isinstance(s, ast.FunctionDef):
            if s.name in self.cfg.opaque_defs.get(self.key, ()):
                return self.block(rest)
            raise Untranslatable('nested function')
        if isinstance(s, ast.Raise):
            self.emit(self.fail())
            return
        if isinstance(s, ast.Assert):
            c = self.truth(self.expr(s.test))
            self.emit(f'if ¬ {c} then {self.fail()} else')
            return self.block(rest)
        if isinstance(s, ast.Return):
            if s.value is None:
                return self.ret_value(('()', NONE))
            return self.ret_value(self.expr(s.value))
        if isinstance(s, ast.AnnAssign):
            if s.value is None:
                return self.block(rest)
            s = ast.Assign(targets=[s.target], value=s.value)
        if isinstance(s, ast.Assign):
            self.assign(s)
            return self.block(rest)
        if isinstance(s, ast.Expr) and isinstance(s.value, ast.IfExp):
            e = s.value
            return self.if_(ast.If(test=e.test, body=[ast.Expr(value=e.body)], orelse=[ast.Expr(value=e.orelse)]), rest)
        if isinstance(s, ast.Expr) and isinstance(s.value, ast.Call):
            self.call_stmt(s.value)
            return self.block(rest)
        if isinstance(s, ast.If):
            return self.if_(s, rest)
        raise Untranslatable(f'statement {type(s).__name__}')

    def assign(self, s):
        if len(s.targets) != 1:
            raise Untranslatable('chained assignment')
        tg = s.targets[0]
        if isinstance(tg, ast.Subscript) and isinstance(tg.value, ast.Name) and tg.value.id in self.records:
            if not (isinstance(tg.slice, ast.Constant) and isinstance(tg.slice.value, str)):
                raise Untranslatable('record key')
            v, t = self.expr(s.value)
            nm = self.tmp(f'{tg.value.id}_{tg.slice.value}')
            self.emit(f'let {nm} := {v}')
            self.records[tg.value.id] = {**self.records[tg.value.id], tg.slice.value: (nm, t)}
            return
        if isinstance(tg, ast.Attribute) and isinstance(tg.value, ast.Name) and is_chunk(self.env.get(tg.value.id, '')) \
                and tg.attr in ('bits', 'refs') and tg.value.id not in self.param_names:
            v, t = self.expr(s.value)
            want = BITS if tg.attr == 'bits' else 'refs'
            if t != want:
                raise Untranslatable(f'{ast.unparse(tg)} is assigned a {t}')
            x = lname(tg.value.id)
            self.emit(f'let {x} : Bits × List R := ' + (f'({v}, {x}.2)' if tg.attr == 'bits' else f'({x}.1, {v})'))
            return
        if not isinstance(tg, ast.Name):
            raise Untranslatable(f'assignment target {ast.unparse(tg)[:40]}')
        name = tg.id
        if name in (self.cfg.slice_param, 'cls', 'self', 'fuel', 'mk', 'view', 'ord'):
            raise Untranslatable(f'assignment to {name}')
        if isinstance(s.value, ast.Dict):
            if not all(isinstance(k, ast.Constant) and isinstance(k.value, str) for k in s.value.keys):
                raise Untranslatable('dict literal with non-constant keys')
            rec = {}
            for k, val in zip(s.value.keys, s.value.values):
                v, t = self.expr(val)
                rec[k.value] = (v, t)
            self.records[name] = rec
            return
        if name in self.threaded:
            raise Untranslatable(f'parameter {name} is rebound')
        self.narrow.pop(name, None)
        v, t = self.expr(s.value)
        if t == PROP:
            v, t = f'(decide {v})', BOOL
        if t in ('fresh-slice', 'slice-self', EMPTYLIST):
            raise Untranslatable(f'{name} = <{t}>')
        fresh = is_list(t) and isinstance(s.value, ast.Call) and isinstance(s.value.func, ast.Attribute) and s.value.func.attr == 'copy'
        self.env[name] = t
        if fresh:
            self.fresh_objs.add(name)
        else:
            self.fresh_objs.discard(name)
        if v != lname(name):
            self.emit(f'let {lname(name)} := {v}')

    def call_stmt(self, c):
        f = c.func
        if isinstance(f, ast.Attribute):
            if isinstance(f.value, ast.Name) and f.value.id == self.cfg.slice_param and self.mode == 'sop':
                self.slice_call(c)
                return
            # builder statement: the innermost receiver of the chain must be a named builder, which is rebound
            root = f
            while isinstance(root, ast.Attribute) and isinstance(root.value, ast.Call) and isinstance(root.value.func, ast.Attribute):
                root = root.value.func
            if isinstance(root.value, ast.Name) and self.env.get(root.value.id) == BUILDER:
                v, t = self.expr(c)
                if t != BUILDER:
                    raise Untranslatable('a builder statement that does not end in a store call')
                self.emit(f'let {lname(root.value.id)} := {v}')
                return
        raise Untranslatable(f'call statement {ast.unparse(c)[:50]}')

    def if_(self, s, rest):
        test = self.test(s.test)
        if test[0] == 'static':
            return self.block(list(s.body if test[1] else s.orelse) + rest)
        saved = (dict(self.env), dict(self.narrow), dict(self.records), set(self.fresh_objs), self.ind)

        def branch(stmts, pre=None):
            self.env, self.narrow, self.records, self.fresh_objs = dict(saved[0]), dict(saved[1]), dict(saved[2]), set(saved[3])
            if pre:
                self.narrow.update(pre)
            self.block(list(stmts) + rest)
        if test[0] == 'match':
            _, subj, pat, binds, neg = test
            a, b = (s.orelse, s.body) if neg else (s.body, s.orelse)
            self.emit(f'match {subj} with')
            self.emit(f'| {pat} => do')
            self.ind += 4
            branch(a, binds)
            self.ind = saved[4]
            self.emit('| _ => do')
            self.ind += 4
            branch(b)
            self.ind = saved[4]
            return
        self.emit(f'if {test[1]} then do')
        self.ind += 2
        branch(s.body)
        self.ind = saved[4]
        self.emit('else do')
        self.ind += 2
        branch(s.orelse)
        self.ind = saved[4]

    def whole(self, name):
        """the current state of a threaded parameter as a value of its declared type"""
        n = self.narrow.get(name)
        t = self.env[name]
        if n is None or not t.startswith('sem:'):
            return lname(name)
        parts = []
        for fname in n['order']:
            v, ft = n['fields'][fname]
            parts += [f'{par(v)}.1', f'{par(v)}.2'] if is_split(ft) else [par(v)]
        return f'({self.cfg.sem[t[4:]]["lean"].split()[0]}.{n["ctor"]} {" ".join(parts)})'.replace(' )', ')')

    def ret_value(self, vt):
        want = self.sig['ret']
        x = self.coerce(vt, want, f'result of {self.fn.name}')
        posts = [self.whole(n) for n in self.threaded]
        if posts:
            self.emit(f'pure ({", ".join([x] + posts)})')
        else:
            self.emit(f'pure {par(x)}')

    def translate_body(self):
        return self.translate()


def proj(r, k, n):
    """k-th component of an n-tuple r (right-nested pairs)"""
    if n == 1:
        return r
    return f'{r}' + '.2' * k + ('.1' if k < n - 1 else '')


def par(text):
    text = text.strip()
    if text.startswith('(') and text.endswith(')') and _balanced(text[1:-1]):
        return text
    if text.startswith('[') and text.endswith(']'):
        return text
    return f'({text})' if (' ' in text or '\n' in text) else text


def _balanced(s):
    d = 0
    for ch in s:
        if ch == '(':
            d += 1
        elif ch == ')':
            d -= 1
            if d < 0:
                return False
    return d == 0
