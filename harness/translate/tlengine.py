"""Regenerates lean/TonVerif/Generated/TlEngine.lean from the current source of the TL engine
(pytoniq_core/tl/generator.py: TlSchemas.base_types, TlSchema.little_id, TlSchemas.serialize_field / serialize / deserialize;
pytoniq_core/tl/block.py: BlockIdExt.to_bytes / from_bytes / __eq__ / __hash__, to_dict / from_dict of both classes) with the
dynamic-value translator pydyn.py (on pyobj.py), validates the translation against the running library and evaluates regenerated
engine vs hand model on given inputs (search hook).

Theorems about the regenerated definitions: Proofs/SrcTlEngine.lean (for ALL tables, type strings, values / inputs and depth budgets
the regenerated functions equal the hand model Model/Tl.lean), referenced by Properties/C14.lean `c14_src_*`.

THE DECLARED INTERFACE (trusted; every line that can be checked against the source is checked in `interface()`):
* a schema object is a record of the regenerated table (`Spec.Tl.Ctor`): `.name` / `.args` / `._id` are its name, argument list
  and 4 id bytes; `schemas.get_by_name / get_by_class_name / get_by_id` are the table lookups `byName / byClass / byId`
  (last entry wins = the dicts filled by `generate_map`, whose text is checked);
* a type string is read through its classification by the table translator (`Py.Tl.TyS`: conditional prefix, vector wrapper,
  element type); the string tests of the engine are the declared operations OPAQUE below;
* str values that name fields / constructors are interned numbers; `'@type'` is not a field name (checked by tl_table.py);
* recursion: `self.serialize` / `self.deserialize` are calls at the next lower depth budget (`fuel`, = Python's recursion depth);
  `serialize_field` calling itself for the elements of a vector is not counted (a vector element is not a vector).
"""
import ast
import hashlib
import os
import re
import subprocess

from . import pydyn, pyobj, pybytes
from .pydyn import DYN, TYS, SCHEMA, SCHEMAS, NAME, ARGS, STR, DTr, DProgram
from .pyobj import NAT, INT, BOOL, BYTES, PROP, OBJ
from .pybytes import OPT
from .pyexpr import Untranslatable
from .arith import write_if_changed, _lake_build
from ..paths import REPO, LEAN

SRC = 'pytoniq_core/tl/generator.py'
BLOCK_SRC = 'pytoniq_core/tl/block.py'
OUT = 'TonVerif/Generated/TlEngine.lean'
NS = 'TonVerif.Generated.TlEngine'

# base type names -> element types of the table
BASE = {'int': '.int', 'long': '.long', '#': '.nat', 'int128': '.int128', 'int256': '.int256', 'Bool': '.bool', 'bytes': '.bytes',
        'string': '.string'}
TYPE_LITERALS = {k: f'(Py.Tl.TyS.base {v})' for k, v in BASE.items()}

# source text -> (Lean term, type, partial)
OPAQUE = {
    "type_ in self.base_types": ('(baseKey type_ = true)', PROP, False),
    "self.base_types.get(type_)": ('(baseLen type_)', NAT, False),
    "subtype in self.base_types": ('(baseKey subtype = true)', PROP, False),
    "'mode' in type_ or 'flags' in type_": ('(Py.Tl.TyS.isCond type_ = true)', PROP, False),
    "'?' in type_": ('(Py.Tl.TyS.isCond type_ = true)', PROP, False),
    "type_.split('?')[1]": ('(Py.Tl.TyS.strip type_)', TYS, False),
    "type_.split('?')[-1]": ('(Py.Tl.TyS.strip type_)', TYS, False),
    "int(type_[type_.find('.') + 1:type_.find('?')])": ('(Py.Tl.TyS.condBit type_)', NAT, False),
    "type_.startswith('(')": ('(Py.Tl.TyS.isParen type_ = true)', PROP, False),
    "'vector' in type_": ('(Py.Tl.TyS.isVector type_ = true)', PROP, False),
    "type_.split()[1][:-1]": ('(Py.Tl.TyS.elem type_)', TYS, False),
    "self.get_by_class_name(type_)": ('(Py.Tl.TyS.classOf T type_)', SCHEMAS, False),
    "self.get_by_name(type_)": ('(Py.Tl.TyS.ctorOf T type_)', OPT(SCHEMA), False),
    "self.get_by_name(subtype)": ('(Py.Tl.TyS.ctorOf T subtype)', OPT(SCHEMA), False),
    # the parser
    "bin(result.get('mode', result.get('flags'))).replace('0b', '')[::-1]": ('Py.Tl.maskOf? T result', STR, True),
    "schema is not None and schema.name in self.untouchables and (field in self.untouchables[schema.name])":
        ('(Py.Tl.untouchable T schema field = true)', PROP, False),
}
NAME_LITERALS = {'_': 'Py.Tl.pseudoKey'}

# methods whose text is part of the declared interface (compared literally, docstrings removed)
EXPECTED = {
    ('TlSchemas', 'get_by_name'): "def get_by_name(self, name: str) -> TlSchema:\n    return self.name_map.get(name, None)",
    ('TlSchemas', 'get_by_class_name'): "def get_by_class_name(self, class_name: str) -> typing.List[TlSchema]:\n    return self.class_name_map.get(class_name, None)",
    ('TlSchemas', 'get_by_id'): "def get_by_id(self, tl_id: typing.Union[bytes, int], byteorder: typing.Literal['little', 'big']='big') -> TlSchema:\n"
                                "    if isinstance(tl_id, bytes):\n        if byteorder == 'little':\n            tl_id = tl_id[::-1]\n"
                                "    if isinstance(tl_id, int):\n        tl_id = tl_id.to_bytes(4, byteorder)\n    return self.id_map.get(tl_id, None)",
    ('TlSchemas', 'generate_map'): "def generate_map(self):\n    for schema in self.list:\n        schema: TlSchema\n        if schema.is_empty():\n            continue\n"
                                   "        self.id_map[schema.id] = schema\n        self.name_map[schema.name] = schema\n"
                                   "        self.class_name_map[schema.class_name] = self.class_name_map.get(schema.class_name, []) + [schema]",
    ('TlSchema', 'name'): "@property\ndef name(self) -> str:\n    return self._name",
    ('TlSchema', 'args'): "@property\ndef args(self) -> typing.Dict[str, str]:\n    return self._args",
    ('TlSchema', 'id'): "@property\ndef id(self) -> bytes:\n    return self._id",
}

REC = {
    'serialize': dict(params=[('schema', OPT(SCHEMA)), ('data', DYN), ('boxed', BOOL)], defaults={'boxed': ast.Constant(value=True)}, ret=BYTES),
    'serialize_field': dict(params=[('type_', TYS), ('value', DYN)], defaults={}, ret=BYTES),
}
_DESER = dict(params=[('data', BYTES), ('boxed', BOOL), ('args', OPT(ARGS))], defaults={'boxed': ast.Constant(value=True), 'args': ast.Constant(value=None)}, ret='Pair')
# `deserialize_pseudo` = the call `self.deserialize(data, False, {'_': subtype})` for one element of a vector of a base type: the same
# method, a separate function parameter so that the caller can run it WITHOUT spending a unit of the depth budget
REC_D = {'deserialize': _DESER, 'deserialize_pseudo': _DESER}


def rec_variant(e, name):
    if name == 'deserialize' and len(e.args) == 3 and isinstance(e.args[2], ast.Dict):
        return 'deserialize_pseudo'
    return name

HEAD = f"""/- GENERATED by harness/translate/tlengine.py (pydyn.py on pyobj.py) from the current source of
   {SRC} (TlSchemas.base_types, TlSchema.little_id, TlSchemas.serialize_field / serialize / deserialize) and
   {BLOCK_SRC} (BlockIdExt.__init__ / to_bytes / from_bytes / __eq__ / __hash__ / to_dict / from_dict, BlockId.__init__ / to_dict / from_dict); do not edit.
   `none` = the Python code raises.  `T` = the schema table; a schema object = a `Ctor` of it; a type string = its classification
   `Py.Tl.TyS`; a dynamically typed value = `Val`; `rec_<m>` = the method `self.<m>` at the depth budget the caller provides. -/
import TonVerif.PyInt
import TonVerif.PyBytes
import TonVerif.PyObj
import TonVerif.PyDict
import TonVerif.PyTl
import TonVerif.Model.Tl
set_option linter.unusedVariables false
namespace {NS}
open TonVerif TonVerif.Spec.Tl
"""

KNOT = """/-- the elements of a vector: `serialize_field` calling itself once (a vector element is not a vector) -/
def serializeFieldAt (T : Table) (ser : Option Ctor → Val → Bool → Option Bytes) : Py.Tl.TyS → Val → Option Bytes :=
  serialize_field T ser (serialize_field T ser (fun _ _ => none))

/-- `schemas.serialize(schema, data, boxed)` with recursion depth budget `fuel` (one unit per nested `serialize` call) -/
def serializeF (T : Table) : Nat → Option Ctor → Val → Bool → Option Bytes
  | 0 => fun _ _ _ => none
  | fuel+1 => serialize T (serializeFieldAt T (serializeF T fuel))
"""

KNOT_D = """/-- `schemas.deserialize(data, boxed, args)` with recursion depth budget `fuel` (one unit per nested `deserialize` call; the call through
the one-field pseudo schema `{'_': subtype}` for an element of a vector of a base type runs at the SAME depth: it reads one value of a base
type) and the iteration budget `len(data) + 2 + slack` for the re-parse `while` loop of every level -/
def deserializeF (T : Table) (auto : Bool) (slack : Nat) : Nat → Bytes → Bool → Option (List Arg) → Option (Val × Nat)
  | 0 => fun _ _ _ => none
  | fuel+1 => fun data boxed args =>
    deserialize T (deserializeF T auto slack fuel)
      (deserialize T (deserializeF T auto slack fuel) (fun _ _ _ => none) (data.length + 2 + slack) auto)
      (data.length + 2 + slack) auto data boxed args
"""


def _tree(file):
    return ast.parse(open(os.path.join(REPO, file)).read())


def _class(tree, name, file):
    cs = [n for n in tree.body if isinstance(n, ast.ClassDef) and n.name == name]
    if len(cs) != 1:
        raise Untranslatable(f'class {name} not found in {file}')
    return cs[0]


def _method(cls, name):
    fs = [n for n in cls.body if isinstance(n, ast.FunctionDef) and n.name == name]
    if len(fs) != 1:
        raise Untranslatable(f'{cls.name}.{name} not found (or defined twice)')
    return fs[0]


def _text(fn):
    """source text of a function without docstrings"""
    import copy
    fn = copy.deepcopy(fn)
    fn.body = [s for s in fn.body if not (isinstance(s, ast.Expr) and isinstance(s.value, ast.Constant) and isinstance(s.value.value, str))] or [ast.Pass()]
    return ast.unparse(fn)


def skip_stmt(s):
    """logging has no effect on the result"""
    return (isinstance(s, ast.Expr) and isinstance(s.value, ast.Call) and isinstance(s.value.func, ast.Attribute)
            and ast.unparse(s.value.func) == 'logger.log')


def hook_lookup(tr, e):
    """self.get_by_name(<name expression>)"""
    f = e.func
    if isinstance(f, ast.Attribute) and pyobj.is_self(f.value) and f.attr == 'get_by_name' and len(e.args) == 1 and not e.keywords:
        v, t = tr.expr(e.args[0])
        if t == NAME:
            return f'(T.byName {v})', OPT(SCHEMA)
        raise Untranslatable(f'get_by_name of a {t}')
    if (isinstance(f, ast.Attribute) and pyobj.is_self(f.value) and f.attr == 'get_by_id' and len(e.args) == 2 and not e.keywords
            and isinstance(e.args[1], ast.Constant) and e.args[1].value == 'little'):
        v, t = tr.expr(e.args[0])
        if t != BYTES:
            raise Untranslatable(f'get_by_id of a {t}')
        return f'(Py.Tl.byIdLE T {v})', OPT(SCHEMA)
    if (isinstance(f, ast.Attribute) and f.attr == 'little_id' and not e.args and not e.keywords):
        base = tr.expr(f.value)
        if base[1] in (SCHEMA, OPT(SCHEMA)):
            v, _ = tr.unopt(base, 'schema')
            return tr.hoist(f'little_id (Py.Tl.idBytes {v})', 'id'), BYTES
    return None


def base_tables(cls):
    """the class-level dict `base_types` -> Lean definitions baseKey / baseLen"""
    hits = [n for n in cls.body if isinstance(n, ast.Assign) and len(n.targets) == 1 and isinstance(n.targets[0], ast.Name) and n.targets[0].id == 'base_types']
    stores = [n for n in ast.walk(cls) if isinstance(n, (ast.Attribute, ast.Name)) and isinstance(n.ctx, (ast.Store, ast.Del))
              and (getattr(n, 'attr', None) == 'base_types' or getattr(n, 'id', None) == 'base_types')]
    if len(hits) != 1 or len(stores) != 1:
        raise Untranslatable('TlSchemas.base_types is not assigned exactly once, at class level')
    try:
        d = ast.literal_eval(hits[0].value)
    except ValueError:
        raise Untranslatable('TlSchemas.base_types is not a literal')
    if not isinstance(d, dict) or len(d) != len(hits[0].value.keys):
        raise Untranslatable('TlSchemas.base_types is not a dict literal with distinct keys')
    rows_key, rows_len = [], []
    for k, v in d.items():
        if k == 'vector' and v is None:
            continue                                    # a plain `vector` is not a field type of any table (classified unsupported)
        if k not in BASE or not (v is None or (isinstance(v, int) and not isinstance(v, bool) and v >= 0)):
            raise Untranslatable(f'base_types entry {k!r}: {v!r}')
        rows_key.append(BASE[k])
        rows_len.append((BASE[k], 0 if v is None else v))
    key = ('/-- `type_ in self.base_types` -/\ndef baseKey (t : Py.Tl.TyS) : Bool :=\n  t.cond.isNone && !t.vec && (match t.ty with\n'
           + ''.join(f'    | {k} => true\n' for k in rows_key) + '    | _ => false)\n')
    ln = ('/-- `self.base_types.get(type_)`; `None` is read as 0 (only its truth value is tested before it is used) -/\n'
          'def baseLen (t : Py.Tl.TyS) : Nat :=\n  if t.cond.isNone && !t.vec then (match t.ty with\n'
          + ''.join(f'    | {k} => {v}\n' for k, v in rows_len) + '    | _ => 0) else 0\n')
    return key, ln


def interface():
    tree = _tree(SRC)
    schemas = _class(tree, 'TlSchemas', SRC)
    schema = _class(tree, 'TlSchema', SRC)
    for c in (schemas, schema):
        if c.bases or c.keywords or c.decorator_list:
            raise Untranslatable(f'{c.name} has base classes / decorators')
        for n in c.body:
            if isinstance(n, ast.FunctionDef) and n.name in ('__getattr__', '__getattribute__', '__setattr__', '__new__', '__init_subclass__'):
                raise Untranslatable(f'{c.name} defines {n.name}')
    for (cn, mn), want in EXPECTED.items():
        got = _text(_method(schemas if cn == 'TlSchemas' else schema, mn))
        if got != want:
            raise Untranslatable(f'{cn}.{mn} is not the declared text any more')
    init = _method(schema, '__init__')
    for a, p in (('_id', 'id'), ('_name', 'name'), ('_class_name', 'class_name'), ('_args', 'args')):
        if not any(isinstance(s, (ast.Assign, ast.AnnAssign)) and ast.unparse(s.target if isinstance(s, ast.AnnAssign) else s.targets[0]) == f'self.{a}'
                   and s.value is not None and ast.unparse(s.value) == p for s in init.body):
            raise Untranslatable(f'TlSchema.__init__ does not store {p} in self.{a}')
        if len([n for n in ast.walk(schema) if isinstance(n, ast.Attribute) and n.attr == a and isinstance(n.ctx, (ast.Store, ast.Del))]) != 1:
            raise Untranslatable(f'TlSchema.{a} is assigned more than once')
    if not any(isinstance(n, ast.Assign) and ast.unparse(n) == "logger = logging.getLogger(name='TL')" for n in tree.body):
        raise Untranslatable('logger is not the logging.getLogger object')
    return tree, schemas, schema


def translate_all():
    """-> [(lean name, text)] ; raises Untranslatable"""
    tree, schemas, schema = interface()
    key, ln = base_tables(schemas)
    defs = [('baseKey', key), ('baseLen', ln)]
    # TlSchema.little_id
    prog_s = DProgram({'TlSchema': dict(kind='object', node=schema, lean='Ctor', attrs={'_id': BYTES}, fields={}, derived={}, base=None)}, src=SRC)
    tr = DTr(prog_s, 'TlSchema', 'TlSchema', _method(schema, 'little_id'), [], 'little_id', dict(context=[]))
    info = tr.translate()
    if info['ret'] != BYTES or [s[1] for s in info['sig']] != ['_id']:
        raise Untranslatable('TlSchema.little_id does not compute bytes from self._id')
    defs.append(('little_id', info['text']))
    # the engine
    prog = DProgram({'TlSchemas': dict(kind='object', node=schemas, lean='Table', attrs={'_auto_deserialize': BOOL}, fields={}, derived={}, base=None)}, src=SRC)
    iface = dict(context=[('T', 'Table')], opaque=OPAQUE, type_literals=TYPE_LITERALS, rec=REC, skip=skip_stmt, calls=[hook_lookup],
                 schema_attrs={'name': ('name', NAME), 'args': ('args', ARGS)})
    for name, types in (('serialize_field', [TYS, DYN]), ('serialize', [OPT(SCHEMA), DYN, BOOL])):
        fn = _method(schemas, name)
        want = [n for n, _ in REC[name]['params']]
        if [a.arg for a in fn.args.args[1:]] != want:
            raise Untranslatable(f'{name}: parameters {[a.arg for a in fn.args.args[1:]]}, declared {want}')
        dflt = {a.arg: d for a, d in zip(fn.args.args[len(fn.args.args) - len(fn.args.defaults):], fn.args.defaults)}
        if {k: ast.unparse(v) for k, v in dflt.items()} != {k: ast.unparse(v) for k, v in REC[name]['defaults'].items()}:
            raise Untranslatable(f'{name}: default arguments are not the declared ones')
        tr = DTr(prog, 'TlSchemas', 'TlSchemas', fn, types, name, iface)
        info = tr.translate()
        if info['ret'] != REC[name]['ret']:
            raise Untranslatable(f'{name} returns a {info["ret"]}')
        want_rec = {'serialize_field': ['serialize', 'serialize_field'], 'serialize': ['serialize_field']}[name]
        if info['rec'] != [f'rec_{n}' for n in REC if n in want_rec] or [s for s in info['sig'] if s[0] == 'attr']:
            raise Untranslatable(f'{name}: calls {info["rec"]} / reads attributes {[s[1] for s in info["sig"] if s[0] == "attr"]}: not the declared recursion scheme')
        defs.append((name, info['text']))
    defs += translate_deserialize(prog, schemas)
    return defs


def translate_deserialize(prog, schemas):
    """TlSchemas.deserialize: the loop bodies and the statements reached on two paths become separate definitions"""
    fn = _method(schemas, 'deserialize')
    if [a.arg for a in fn.args.args[1:]] != ['data', 'boxed', 'args']:
        raise Untranslatable('deserialize: parameters')
    if [ast.unparse(d) for d in fn.args.defaults] != ['True', 'None']:
        raise Untranslatable('deserialize: default arguments are not the declared ones')
    iface = dict(context=[('T', 'Table')], opaque=OPAQUE, type_literals=TYPE_LITERALS, name_literals=NAME_LITERALS, rec=REC_D, rec_variant=rec_variant,
                 skip=skip_stmt, calls=[hook_lookup], schema_attrs={'name': ('name', NAME), 'args': ('args', ARGS)}, lift=True,
                 locals={'schema': OPT(SCHEMA)})
    tr = DTr(prog, 'TlSchemas', 'TlSchemas', fn, [BYTES, BOOL, OPT(ARGS)], 'deserialize', iface)
    info = tr.translate()
    if info['ret'] != 'Pair':
        raise Untranslatable(f'deserialize returns a {info["ret"]}')
    if info['common'] != DESER_COMMON:
        raise Untranslatable(f'deserialize: uses {info["common"]}, declared {DESER_COMMON}')
    return info['lifted'] + [('deserialize', info['text'])]


DESER_COMMON = ['T', 'rec_deserialize', 'rec_deserialize_pseudo', 'while_fuel', 'self__auto_deserialize']


# ---- block.py: BlockIdExt (declared: workchain / shard / seqno are ints, root_hash / file_hash are bytes; an object = Model.Tl.BlockIdExt)
BLOCK_ATTRS = {'workchain': INT, 'shard': INT, 'seqno': INT, 'root_hash': BYTES, 'file_hash': BYTES}
BLOCK_FIELDS = {'workchain': 'workchain', 'shard': 'shard', 'seqno': 'seqno', 'root_hash': 'rootHash', 'file_hash': 'fileHash'}
BLOCK_RESULT = [('workchain', 'self.workchain', INT), ('shard', 'self.shard', INT), ('seqno', 'self.seqno', INT),
                ('rootHash', 'self.root_hash', BYTES), ('fileHash', 'self.file_hash', BYTES)]
BLOCK_INIT = ['workchain', 'shard', 'seqno', 'root_hash', 'file_hash']
HASH_TY = 'Int × Int × Int × Bytes × Bytes → Int'


BLOCK_KEYS = {'workchain': 'Py.Tl.kWorkchain', 'shard': 'Py.Tl.kShard', 'seqno': 'Py.Tl.kSeqno', 'root_hash': 'Py.Tl.kRootHash', 'file_hash': 'Py.Tl.kFileHash'}
# storing a dynamically typed value in an attribute declared int / bytes (declared domain of the attribute; anything else = raises)
ATTR_COERCE = {(DYN, INT): 'Py.Tl.asInt? {}', (DYN, BYTES): 'Py.Tl.asBytes? {}'}
# the classes of block.py: attributes, Lean structure, its fields, the parameter list of __init__
BLOCK_CLASSES = {
    'BlockIdExt': dict(attrs=BLOCK_ATTRS, fields=BLOCK_FIELDS, result=BLOCK_RESULT, init=BLOCK_INIT, struct='Model.Tl.BlockIdExt', prefix='block_', ns=''),
    'BlockId': dict(attrs={k: BLOCK_ATTRS[k] for k in BLOCK_INIT[:3]}, fields={k: BLOCK_FIELDS[k] for k in BLOCK_INIT[:3]}, result=BLOCK_RESULT[:3],
                    init=BLOCK_INIT[:3], struct='Model.Tl.BlockId', prefix='blockid_', ns='Id.'),
}


def make_hook_block(cname):
    cfg = BLOCK_CLASSES[cname]

    def hook_block(tr, e):
        f = e.func
        if isinstance(f, ast.Name) and f.id == 'cls' and 'cls' not in tr.env and not e.args:
            kws = {k.arg: k.value for k in e.keywords}
            if sorted(kws) != sorted(cfg['init']):
                raise Untranslatable('cls(...) is not called with exactly the declared keyword arguments')
            parts = [tr.expr(kws[n]) for n in cfg['init']]
            if any(t in (DYN, OPT(DYN)) for _, t in parts):
                # arguments read from a dict: the dynamically typed reading of __init__; an entry other than `shard` is declared present
                actual = []
                for n, (v, t) in zip(cfg['init'], parts):
                    if n == 'shard':
                        v, t = (v, t) if t == OPT(DYN) else (f'(some {v})', OPT(DYN)) if t == DYN else (None, None)
                    elif t == OPT(DYN):
                        v, t = tr.hoist(v, n), DYN
                    if t not in (DYN, OPT(DYN)):
                        raise Untranslatable(f'cls(...): {n} has type {t} beside dynamically typed arguments')
                    actual.append(pybytes.par(v))
                return tr.hoist(f'init_dyn {" ".join(actual)}', 'obj'), OBJ(cname)
            actual = []
            for n, (v, t) in zip(cfg['init'], parts):
                if t == NAT and cfg['attrs'][n] == INT:
                    v, t = f'(({v} : Nat) : Int)', INT
                if t != cfg['attrs'][n]:
                    raise Untranslatable(f'cls(...): {n} has type {t}')
                actual.append(pybytes.par(v))
            return tr.hoist(f'init {" ".join(actual)}', 'obj'), OBJ(cname)
        if isinstance(f, ast.Name) and f.id == 'hash' and 'hash' not in tr.env and len(e.args) == 1 and not e.keywords and isinstance(e.args[0], ast.Tuple):
            parts = [tr.expr(x) for x in e.args[0].elts]
            if [t for _, t in parts] != [INT, INT, INT, BYTES, BYTES]:
                raise Untranslatable('hash() of something else than the declared 5-tuple')
            tr.uses_H = True
            return '(H (' + ', '.join(v for v, _ in parts) + '))', INT
        return None
    return hook_block


def translate_block_class(tree, cname, methods):
    """-> [(block name, text)]"""
    import copy
    cfg = BLOCK_CLASSES[cname]
    cls = _class(tree, cname, BLOCK_SRC)
    if cls.bases or cls.keywords or cls.decorator_list:
        raise Untranslatable(f'{cname} has base classes / decorators')
    for n in cls.body:
        if isinstance(n, ast.FunctionDef) and n.name in ('__getattr__', '__getattribute__', '__setattr__', '__new__', '__init_subclass__', '__ne__'):
            raise Untranslatable(f'{cname} defines {n.name}')
        if isinstance(n, (ast.Assign, ast.AnnAssign)):
            raise Untranslatable(f'{cname} has class-level attributes')
    prog = DProgram({cname: dict(kind='object', node=cls, lean=cfg['struct'], attrs=cfg['attrs'], fields=cfg['fields'], derived={}, base=None)}, src=BLOCK_SRC)
    iface = dict(context=[('H', HASH_TY)], calls=[make_hook_block(cname)], name_literals=BLOCK_KEYS, attr_coerce=ATTR_COERCE, none_narrowing=True)
    defs = []
    init = _method(cls, '__init__')
    if [a.arg for a in init.args.args[1:]] != cfg['init'] or init.args.defaults:
        raise Untranslatable(f'{cname}.__init__ parameters')
    tr = DTr(prog, cname, cname, init, [cfg['attrs'][n] for n in cfg['init']], 'init', dict(iface, none_narrowing=False), ctor=cfg['result'], ctor_struct=cfg['struct'])
    defs.append((cfg['prefix'] + 'init', tr.translate()['text']))
    if any(m[0] == 'from_dict' for m in methods):
        # the same __init__ read with arguments taken from a dict: `shard` may be None / missing, the other entries are dynamically typed values
        tr = DTr(prog, cname, cname, init, [OPT(DYN) if n == 'shard' else DYN for n in cfg['init']], 'init_dyn', iface, ctor=cfg['result'], ctor_struct=cfg['struct'])
        defs.append((cfg['prefix'] + 'init_dyn', tr.translate()['text']))
    for name, lean, types, ret in methods:
        fn = _method(cls, name)
        if name in ('from_bytes', 'from_dict'):
            if [ast.unparse(d) for d in fn.decorator_list] != ['classmethod'] or fn.args.args[0].arg != 'cls':
                raise Untranslatable(f'{name} is not a classmethod(cls, ..)')
            fn = copy.deepcopy(fn)
            fn.decorator_list = []
            fn.args.args[0].arg = 'self'
            if any(isinstance(n, ast.Name) and n.id == 'self' for n in ast.walk(ast.Module(body=fn.body, type_ignores=[]))):
                raise Untranslatable(f'{name} uses the name self')
        elif fn.decorator_list:
            raise Untranslatable(f'{name} is decorated')
        tr = DTr(prog, cname, cname, fn, types, lean, iface)
        info = tr.translate()
        if info['ret'] != ret:
            raise Untranslatable(f'{cname}.{name} returns a {info["ret"]}')
        defs.append((cfg['prefix'] + lean, info['text']))
    return defs


def translate_block():
    tree = _tree(BLOCK_SRC)
    return translate_block_class(tree, 'BlockIdExt', (('to_bytes', 'to_bytes', [], BYTES), ('from_bytes', 'from_bytes', [BYTES], OBJ('BlockIdExt')),
                                                      ('__eq__', 'eq', [OBJ('BlockIdExt')], BOOL), ('__hash__', 'hash', [], INT),
                                                      ('to_dict', 'to_dict', [], DYN), ('from_dict', 'from_dict', [DYN], OBJ('BlockIdExt'))))


def translate_blockid():
    tree = _tree(BLOCK_SRC)
    return translate_block_class(tree, 'BlockId', (('to_dict', 'to_dict', [], DYN), ('from_dict', 'from_dict', [DYN], OBJ('BlockId'))))


def committed_text():
    try:
        r = subprocess.run(['git', '-C', os.path.dirname(LEAN), 'show', f'HEAD:lean/{OUT}'], capture_output=True, text=True, timeout=20)
        if r.returncode == 0 and r.stdout.startswith('/- GENERATED') and f'namespace {NS}' in r.stdout:
            return r.stdout
    except Exception:
        pass
    return None


def generate(old=None):
    """-> (text, info, lost): the methods depend on each other's signatures: regenerated as a whole or not at all"""
    try:
        defs = translate_all()
        bdefs = translate_block()
        idefs = translate_blockid()
    except (Untranslatable, SyntaxError, OSError, RecursionError) as e:
        keep = committed_text() or old
        if keep is None:
            raise Untranslatable(f'{e} (and no previous translation to keep)')
        return keep, {}, {'TlEngine': f'{type(e).__name__}: {e}'}
    out = [HEAD]
    for name, text in defs:
        out += [f'-- BEGIN {name}', text.rstrip('\n'), f'-- END {name}', '']
    out += ['-- BEGIN knot', KNOT.rstrip('\n'), '-- END knot', '']
    out += ['-- BEGIN knot_deserialize', KNOT_D.rstrip('\n'), '-- END knot_deserialize', '']
    out += [f'/-! ### {BLOCK_SRC}: BlockIdExt (an object = `Model.Tl.BlockIdExt`; `H` = Python\'s hash of the 5-tuple) -/', 'namespace Block', 'open TonVerif.Model.Tl', '']
    for name, text in bdefs:
        out += [f'-- BEGIN {name}', text.rstrip('\n'), f'-- END {name}', '']
    out += ['end Block', '', '/-! ### BlockId (an object = `Model.Tl.BlockId`) -/', 'namespace BlockIdS', 'open TonVerif.Model.Tl', '']
    for name, text in idefs:
        out += [f'-- BEGIN {name}', text.rstrip('\n'), f'-- END {name}', '']
    out += ['end BlockIdS', '', f'end {NS}']
    return '\n'.join(out) + '\n', {n: 'regenerated' for n, _ in defs + bdefs + idefs}, {}


def regenerate():
    path = os.path.join(LEAN, OUT)
    try:
        old = open(path).read()
    except FileNotFoundError:
        old = None
    text, info, lost = generate(old=old)
    changed = write_if_changed(path, text)
    h = hashlib.sha256(text.encode())
    for f in (SRC, BLOCK_SRC):
        h.update(open(os.path.join(REPO, f), 'rb').read())
    for f in (__file__, pydyn.__file__, pyobj.__file__, pybytes.__file__, pybytes.pyarith.__file__, os.path.join(LEAN, 'TonVerif/PyTl.lean'),
              os.path.join(LEAN, 'TonVerif/Generated/TlTable.lean')):
        h.update(open(f, 'rb').read())
    stamp = os.path.join(LEAN, '.lake', 'srcval_TlEngine.stamp')
    try:
        cached = open(stamp).read() == h.hexdigest()
    except OSError:
        cached = False
    n = None
    if not cached and not lost:
        bad, n = validate()
        if bad:                      # the translation does not compute what Python computes: do not keep it
            keep = committed_text() or old
            if keep is None:
                raise Untranslatable(bad)
            changed = write_if_changed(path, keep) or changed
            lost = {'TlEngine': bad}
        else:
            try:
                with open(stamp, 'w') as f:
                    f.write(h.hexdigest())
            except OSError:
                pass
    if lost:
        raise Untranslatable(f'kept the previous translation: {lost} (file changed: {changed})')
    return changed, {'definitions': sorted(info), 'validated': 'cached' if cached else f'Lean evaluation = the library on {n} calls'}


# ---------------------------------------------------------------------------- evaluation by Lean, validation, search hook

def tok_any(W, x):
    """an arbitrary Python value (not type-directed) as a driver token; None = not representable"""
    if isinstance(x, bool):
        return 'T' if x else 'F'
    if isinstance(x, int):
        return f'i{x}'
    if isinstance(x, bytes):
        return 'b' + x.hex()
    if isinstance(x, str):
        if len(x) % 2 == 0 and re.fullmatch(r'[0-9a-f]*', x):
            return 'h' + x
        return 's' + x.encode().hex()
    if isinstance(x, list):
        ts = [tok_any(W, y) for y in x]
        return None if None in ts else 'l(' + ','.join(ts) + ')'
    if isinstance(x, dict):
        parts = []
        for k, v in x.items():
            if k == '@type':
                continue
            t = tok_any(W, v)
            if t is None or k not in W.I.ids:
                return None
            parts.append(f'{W.I.ids[k]}={t}')
        if '@type' in x and x['@type'] not in W.I.ids:
            return None
        tag = W.I.ids[x['@type']] if '@type' in x else '-'
        return f'o{tag}(' + ','.join(parts) + ')'
    return None


LEAN_EVAL = """import TonVerif.Drv.Tl
import TonVerif.Generated.TlEngine
open TonVerif TonVerif.Spec.Tl TonVerif.Model.Tl TonVerif.Drv TonVerif.Drv.Tl TonVerif.Generated.TlEngine
def gfuel : Nat := 200
def showB : Option Bytes → String
  | none => "err"
  | some b => "ok" ++ hexOfBytes b
def tysOf (ci ai : Nat) : Option Py.Tl.TyS := (table.ctors[ci]?).bind fun c => (c.args[ai]?).map fun a => Py.Tl.TyS.strip (Py.Tl.TyS.ofArg a)
def same (a b : Option Bytes) : String := if a == b then "same" else "DIFF"
def run1 (w : String) : String :=
  match w.splitOn ":" with
  | ["ser", ci, v] => (match ci.toNat?, valArg v with
      | some i, some val => (match table.ctors[i]? with
        | some c => showB (serializeF table gfuel (some c) val true)
        | none => "bad")
      | _, _ => "bad")
  | ["fld", ci, ai, v] => (match ci.toNat?, ai.toNat?, valArg v with
      | some i, some j, some val => (match tysOf i j with
        | some t => showB (serializeFieldAt table (serializeF table gfuel) t val)
        | none => "bad")
      | _, _, _ => "bad")
  | ["dser", ci, v] => (match ci.toNat?, valArg v with
      | some i, some val => (match table.ctors[i]? with
        | some c => same (serializeF table gfuel (some c) val true) ((objFields? c val).bind fun fs => serObj table gfuel c fs true)
        | none => "bad")
      | _, _ => "bad")
  | ["dfld", ci, ai, v] => (match ci.toNat?, ai.toNat?, valArg v with
      | some i, some j, some val => (match table.ctors[i]?.bind (fun c => c.args[j]?) with
        | some a => same (serializeFieldAt table (serializeF table gfuel) ⟨none, a.vec, a.ty⟩ val) (serArg table (serObj table gfuel) a val)
        | none => "bad")
      | _, _, _ => "bad")
  | ["des", d, auto] => (match hexArg d with
      | some bs => (match deserializeF table (auto == "1") 0 gfuel bs true none with
        | some (v, n) => s!"ok {showVal v} {n}"
        | none => "err")
      | none => "bad")
  | ["desx", d, auto] => (match hexArg d with
      | some bs => (match deserializeF boolFlagTable (auto == "1") 0 gfuel bs true none with
        | some (v, n) => s!"ok {showVal v} {n}"
        | none => "err")
      | none => "bad")
  | ["ddes", d, auto] => (match hexArg d with
      | some bs =>
        let a := (deserializeF table (auto == "1") 0 gfuel bs true none).map fun (v, n) => s!"{showVal v} {n}"
        let b := (Model.Tl.deserialize table (auto == "1") gfuel bs).map fun (v, n) => s!"{showVal v} {n}"
        if a == b then "same" else "DIFF"
      | none => "bad")
  | ["btb", w, sh, q, r, f] => (match w.toInt?, sh.toInt?, q.toInt?, hexArg r, hexArg f with
      | some w, some sh, some q, some r, some f => showB (Block.to_bytes f r q sh w)
      | _, _, _, _, _ => "bad")
  | ["btd", w, sh, q, r, f] => (match w.toInt?, sh.toInt?, q.toInt?, hexArg r, hexArg f with
      | some w, some sh, some q, some r, some f => (match Block.to_dict f r q sh w with | some v => "ok" ++ showVal v | none => "err")
      | _, _, _, _, _ => "bad")
  | ["itd", w, sh, q] => (match w.toInt?, sh.toInt?, q.toInt? with
      | some w, some sh, some q => (match BlockIdS.to_dict q sh w with | some v => "ok" ++ showVal v | none => "err")
      | _, _, _ => "bad")
  | ["bfd", v] => (match valArg v with
      | some val => (match Block.from_dict val with | some b => "ok" ++ showBlk b | none => "err")
      | none => "bad")
  | ["ifd", v] => (match valArg v with
      | some val => (match BlockIdS.from_dict val with | some b => s!"ok{b.workchain} {b.shard} {b.seqno}" | none => "err")
      | none => "bad")
  | ["bfb", d] => (match hexArg d with
      | some d => (match Block.from_bytes d with | some b => "ok" ++ showBlk b | none => "err")
      | none => "bad")
  | ["beq", w, sh, q, r, f, w2, sh2, q2, r2, f2] =>
      (match w.toInt?, sh.toInt?, q.toInt?, hexArg r, hexArg f, w2.toInt?, sh2.toInt?, q2.toInt?, hexArg r2, hexArg f2 with
      | some w, some sh, some q, some r, some f, some w2, some sh2, some q2, some r2, some f2 =>
        (match Block.eq ⟨w2, sh2, q2, r2, f2⟩ f r q sh w with | some b => if b then "okT" else "okF" | none => "err")
      | _, _, _, _, _, _, _, _, _, _ => "bad")
  | _ => "bad"
"""


def lean_eval(words):
    """one answer per request word (`ser:<ctor>:<value>`, `fld:<ctor>:<arg>:<value>`: the regenerated engine; `dser` / `dfld`: regenerated
    engine vs hand model -> same | DIFF)"""
    if not words:
        return []
    tmp = os.path.join(LEAN, f'.srctl_{os.getpid()}.lean')
    inp = os.path.join(LEAN, f'.srctl_{os.getpid()}.txt')
    with open(inp, 'w') as f:
        f.write('\n'.join(words) + '\n')
    with open(tmp, 'w') as f:
        f.write(LEAN_EVAL + f'#eval (do let s ← IO.FS.readFile "{inp}"; for w in s.splitOn "\\n" do if w ≠ "" then IO.println ("VAL " ++ run1 w) : IO Unit)\n')
    try:
        _lake_build(['TonVerif.Generated.TlEngine', 'TonVerif.Drv.Tl'])
        p = subprocess.run(['lake', 'env', 'lean', tmp], cwd=LEAN, capture_output=True, text=True, timeout=900)
    finally:
        for x in (tmp, inp):
            try:
                os.unlink(x)
            except OSError:
                pass
    got = re.findall(r'^VAL (.*)$', p.stdout, re.M)
    if len(got) != len(words) or 'bad' in got:
        raise RuntimeError('lean evaluation failed: ' + (p.stdout + p.stderr)[-400:])
    return got


ODD_VALUES = [0, 1, -1, 255, 2 ** 31 - 1, 2 ** 31, -2 ** 31, -2 ** 31 - 1, 2 ** 32 - 1, 2 ** 32, 2 ** 63 - 1, 2 ** 63, -2 ** 63, 2 ** 255, True, False,
              b'', b'\x01', b'\x01\x02\x03', bytes(range(4)), bytes(range(7)), bytes(range(16)), bytes(range(32)), bytes(range(40)), bytes(252), bytes(253),
              bytes(254), bytes(255), bytes(256), bytes(257), bytes(1000), '', 'abc', 'xyz ü', 'ab' * 16, 'cd' * 32, 'abcd', [], [1, 2], [b'\x01', b''], ['a', 'b'],
              [True], [[1]], {}, {'workchain': 1}, {'@type': 'liteServer.getTime'}, {'@type': 'tonNode.blockIdExt', 'workchain': -1, 'shard': 5, 'seqno': 7,
              'root_hash': 'aa' * 32, 'file_hash': 'bb' * 32}, {'@type': 'no.such.ctor'}, {'@type': 'liteServer.getTime', 'seqno': 5}]


def validation_values(W, rng=None):
    """the corpus of TL values of the translator validation: 2-3 type-directed values of every covered constructor (strings around 253 / 254)"""
    import random
    from ..gen import tlvals as V
    rng = rng or random.Random(20240914)
    vals = []
    cov = [c for c in W.ctors if W.covered(c)]
    for k, c in enumerate(cov):
        for r in range(2 if k % 3 else 3):
            vals.append((c, V.gen_obj(W, rng, c, 0, {'depth': 2, 'big': False, 'lens': [0, 1, 3, 4, 253, 254, 255, 300]})))
    return vals


def validation_cases(W=None):
    """-> (W, [(word, python thunk)])"""
    import copy
    import random
    from ..gen import tlvals as V
    W = W or V.World()
    rng = random.Random(20240914)
    out = []
    for c, v in validation_values(W, rng):
        out.append((f'ser:{c["idx"]}:{V.tok_obj(W, c, v)}', lambda c=c, v=v: W.lib.serialize(W.lib.list[c['idx']], copy.deepcopy(v))))
    # the parser: the serialisations of these values, whole / followed by other bytes / cut / with one byte changed, both modes
    k = 0
    for w, thunk in list(out):
        k += 1
        try:
            ser = thunk()
        except Exception:
            continue
        variants = [(ser, 0), (ser, 1)]
        if k % 2 == 0:
            variants.append((ser + b'\x01\x02\x03', k % 4 // 2))
        if k % 3 == 0 and len(ser) > 4:
            variants.append((ser[:4 + rng.randrange(len(ser) - 4)], k % 2))
        if k % 5 == 0 and len(ser) > 4:
            j = rng.randrange(4, len(ser))
            variants.append((ser[:j] + bytes([ser[j] ^ (1 << rng.randrange(8))]) + ser[j + 1:], k % 2))
        for d, auto in variants:
            out.append((f'des:{d.hex() or "-"}:{auto}', lambda d=d, auto=auto: lib_deserialize(W, d, auto), 'des'))
    for d in (b'', b'\x01', b'\x00' * 4, b'\xff' * 8):
        out.append((f'des:{d.hex() or "-"}:1', lambda d=d: lib_deserialize(W, d, 1), 'des'))
    for d in bool_flag_inputs():
        out.append((f'desx:{d.hex()}:1', lambda d=d: bool_flag_expected(d).encode(), 'text'))
    seen = set()
    for c in W.ctors:
        for j, a in enumerate(c['args']):
            t = a['type']
            st = t.split('?')[1] if ('mode' in t or 'flags' in t) else t
            key = (a['vec'], a['ety'] if a['ety'][0] == 'base' else a['ety'][0])
            if key in seen and not (len(seen) < 40 and rng.random() < 0.02):
                continue
            if a['ety'] == ('unsup',) or a['field'].startswith('{'):
                continue
            seen.add(key)
            for x in ODD_VALUES:
                tok = tok_any(W, x)
                if tok is None or (a['vec'] and isinstance(x, (bytes, str, dict))):
                    continue          # a vector field's value is a list (other iterables are outside the modelled domain: PyTl.lean listLen?)
                out.append((f'fld:{c["idx"]}:{j}:{tok}', lambda st=st, x=x: W.lib.serialize_field(st, copy.deepcopy(x))))
    from pytoniq_core.tl.block import BlockIdExt
    hx = lambda b: b.hex() or '-'
    ids = []
    for k in range(40):
        wc = rng.choice([0, -1, 1, 2 ** 31 - 1, -2 ** 31, 2 ** 31, -2 ** 31 - 1, rng.randrange(-2 ** 31, 2 ** 31)])
        sh = rng.choice([0, -2 ** 63, 2 ** 63 - 1, 2 ** 63, -2 ** 63 - 1, rng.randrange(-2 ** 63, 2 ** 63)])
        sq = rng.choice([0, 1, 2 ** 31 - 1, 2 ** 31, -1, rng.randrange(-2 ** 31, 2 ** 31)])
        rh, fh = rng.randbytes(rng.choice([32, 32, 32, 0, 5])), rng.randbytes(rng.choice([32, 32, 31, 33]))
        ids.append((wc, sh, sq, rh, fh))
        out.append((f'btb:{wc}:{sh}:{sq}:{hx(rh)}:{hx(fh)}', lambda a=(wc, sh, sq, rh, fh): BlockIdExt(*a).to_bytes()))
        d = rng.randbytes(rng.choice([80, 80, 80, 0, 3, 15, 16, 47, 79, 81, 100]))

        def fb(d=d):
            b = BlockIdExt.from_bytes(d)
            return f'{b.workchain} {b.shard} {b.seqno} {hx(b.root_hash)} {hx(b.file_hash)}'.encode()
        out.append((f'bfb:{hx(d)}', fb, 'text'))
    from pytoniq_core.tl.block import BlockId
    for k, (wc, sh, sq, rh, fh) in enumerate(ids):
        if not rh or not fh:
            continue
        dtok = lambda d: 'o-(' + ','.join(f'{j}=' + (f'i{d[n]}' if j < 3 else ('h' + d[n] if isinstance(d[n], str) else 'b' + d[n].hex()))
                                          for j, n in enumerate(['workchain', 'shard', 'seqno', 'root_hash', 'file_hash']) if n in d) + ')'
        out.append((f'btd:{wc}:{sh}:{sq}:{hx(rh)}:{hx(fh)}', lambda a=(wc, sh, sq, rh, fh): dtok(BlockIdExt(*a).to_dict()).encode(), 'text'))
        out.append((f'itd:{wc}:{sh}:{sq}', lambda a=(wc, sh, sq): dtok(BlockId(*a).to_dict()).encode(), 'text'))
        d = {'workchain': wc, 'shard': sh, 'seqno': sq, 'root_hash': rh.hex() if k % 3 else rh, 'file_hash': fh.hex()}
        if k % 4 == 0:
            del d['shard']                          # `if shard is None`: the masterchain shard

        def fd(d=d):
            b = BlockIdExt.from_dict(dict(d))
            return f'{b.workchain} {b.shard} {b.seqno} {hx(b.root_hash)} {hx(b.file_hash)}'.encode()

        def fi(d=d):
            b = BlockId.from_dict(dict(d))
            return f'{b.workchain} {b.shard} {b.seqno}'.encode()
        out.append((f'bfd:{dtok(d)}', fd, 'text'))
        out.append((f'ifd:{dtok(d)}', fi, 'text'))
    for k in range(40):
        a = ids[k]
        b = list(a) if k % 2 else list(ids[(k + 1) % 40])
        if k % 4 == 1:
            j = rng.randrange(5)
            b[j] = (b[j] + 1) if j < 3 else (b[j] + b'\x01')
        out.append((f'beq:{a[0]}:{a[1]}:{a[2]}:{hx(a[3])}:{hx(a[4])}:{b[0]}:{b[1]}:{b[2]}:{hx(b[3])}:{hx(b[4])}',
                    lambda a=a, b=tuple(b): (b'T' if (BlockIdExt(*a) == BlockIdExt(*b)) else b'F'), 'text'))
    return W, out


BOOL_FLAG_DECL = 't.x mode:Bool a:mode.0?int b:mode.1?int = T.X;'


def bool_flag_inputs():
    """byte strings for the schema BOOL_FLAG_DECL (Drv/Tl.lean `boolFlagTable`): the flags word is a Bool - True (bit 0 set), False, invalid
    (left unset: `bin(None)` raises)"""
    hdr = bytes.fromhex('6acadf25')
    i4 = lambda n: n.to_bytes(4, 'little', signed=True)
    return [hdr + bytes.fromhex('b5757299') + i4(7) + i4(9), hdr + bytes.fromhex('b5757299') + i4(-1), hdr + bytes.fromhex('379779bc') + i4(7),
            hdr + bytes.fromhex('379779bc'), hdr + bytes(4) + i4(7), hdr + bytes.fromhex('b5757299'), hdr]


def bool_flag_expected(d):
    """what the LIBRARY makes of d under the one-constructor table of BOOL_FLAG_DECL, in the driver's output syntax (` ok <value> <consumed>`
    without the leading blank / `err`; raises if the library raises)"""
    import pytoniq_core.tl.generator as g
    s = g.TlRegistrator().register(BOOL_FLAG_DECL)
    assert s.id.hex() == '25dfca6a' and list(s.args) == ['mode', 'a', 'b']
    val, n = g.TlSchemas([s]).deserialize(d)
    ids = {'mode': 0, 'a': 3, 'b': 4}
    assert val.get('@type') == 't.x'
    parts = []
    for k, v in val.items():
        if k != '@type':
            parts.append(f'{ids[k]}=' + (('T' if v else 'F') if isinstance(v, bool) else f'i{v}'))
    return f' o1({",".join(parts)}) {n}'


def lib_deserialize(W, d, auto):
    old = W.lib._auto_deserialize
    W.lib._auto_deserialize = bool(auto)
    try:
        return W.lib.deserialize(d)
    finally:
        W.lib._auto_deserialize = old


def validate():
    """Differential validation of the TRANSLATOR: the regenerated engine, evaluated by Lean over the regenerated table, must give what the
    library gives (bytes, or raise) on type-directed values of every covered constructor and on ill-typed values of every kind of field.
    -> (None | reason, number of calls)"""
    try:
        W, cases = validation_cases()
        got = lean_eval([c[0] for c in cases])
    except Exception as e:
        return f'validation: the regenerated definition could not be evaluated: {type(e).__name__}: {e}', 0
    for case, g in zip(cases, got):
        w, thunk = case[0], case[1]
        if len(case) > 2 and case[2] == 'des':
            from ..gen import tlvals as V
            try:
                val, n = thunk()
            except RecursionError:
                continue
            except Exception:
                val = n = None
            try:
                if g == 'err':
                    ok = val is None
                else:
                    t, cn = g[3:].rsplit(' ', 1)
                    ok = val is not None and int(cn) == n and V.same(V.parse_tok(W, t), val)
            except Exception:
                ok = False
            if not ok:
                return f'validation: on {w[:300]} Lean computes "{g[:160]}", the library computes "{str((val, n))[:160]}"', len(cases)
            continue
        try:
            pv = 'ok' + (thunk().decode() if len(case) > 2 else thunk().hex())
        except RecursionError:
            continue
        except Exception:
            pv = 'err'
        if pv != g:
            return f'validation: on {w[:300]} Lean computes "{g[:120]}", the library computes "{pv[:120]}"', len(cases)
    return None, len(cases)


def diff_values(ctx, W, pairs, damaged=False):
    """For harness search mode: pairs = [(constructor, value)] -> those on which the regenerated serialiser and the hand model differ, or
    on whose serialisation (whole / followed by other bytes, both modes) the regenerated PARSER and the hand-model parser differ
    (evaluated by Lean; needs only Generated/TlEngine.lean and the driver modules, not the proofs).  Never raises."""
    import copy
    from ..gen import tlvals as V
    try:
        words, owner = [], []
        for k, (c, v) in enumerate(pairs):
            words.append(f'dser:{c["idx"]}:{V.tok_obj(W, c, v)}')
            owner.append(k)
            try:
                ser = W.lib.serialize(W.lib.list[c['idx']], copy.deepcopy(v))
            except Exception:
                continue
            variants = [(ser, 0), (ser, 1), (ser + b'\x01\x02\x03\x04\x05', 0)]
            if damaged and len(ser) > 8:
                # not well-typed any more: a difference here still points at the value whose round trips the oracle then runs
                variants += [(ser[:4 + (k * 7) % (len(ser) - 4)], 1), (ser[:-1] + bytes([ser[-1] ^ 0x80]), 1)]
            for d, auto in variants:
                words.append(f'ddes:{d.hex() or "-"}:{auto}')
                owner.append(k)
        got = lean_eval(words)
    except Exception as e:
        ctx.notes.append(f'source-diff search (TlEngine) failed: {type(e).__name__}: {str(e)[:200]}')
        return []
    hit = sorted({k for k, g in zip(owner, got) if g == 'DIFF'})
    found = [pairs[k] for k in hit]
    ctx.notes.append(f'source-diff search: regenerated TL serialiser and parser vs hand model on {len(pairs)} values ({len(words)} evaluations): ' +
                     (f'{len(found)} differ, e.g. ' + '; '.join(f'{c["name"]} {str(v)[:80]}' for c, v in found[:3]) if found else 'no differing value'))
    return found


if __name__ == '__main__':
    text, info, lost = generate(old='')
    print(info, lost)
    if not lost:
        print(write_if_changed(os.path.join(LEAN, OUT), text))
