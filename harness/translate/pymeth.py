"""Python -> Lean translator for STATEFUL METHODS: methods of a class that read and mutate `self` step by step, may raise in
the middle (the partial writes stay), call each other (also chained: `self.a(..).b(..)`), call methods of a sub-object held
in an attribute, and return `self`, a value or nothing.  Built on pyobj.py / pybytes.py / pyarith.py (expressions); no
knowledge of pytoniq: classes, attribute types, property aliases and built-ins are DECLARED by the caller (bsops.py) and
checked against the source there.

Every translated method becomes ONE Lean definition

    def <method> (<python parameter> : T)... (self : S) : S × Option R

S = the declared state type of the class; the result is the state of `self` AFTER the call - also when the call raised - and
the returned value (`none` = the Python code raised; which exception is not distinguished; `Unit` for `return self` / no value).
Sequencing is spelled with the combinators of lean/TonVerif/PyBits.lean:
    Py.bindS (call) fun self x => rest        a call that mutates self (ends the method with the callee's state if it raised)
    Py.bindO (partial built-in) self fun x => rest
    Py.zoom (callee args self.attr) (fun v => { self with attr := v })      a method of the sub-object held in `attr`
    Py.forS xs self (fun x self => body)      a `for` loop whose body only changes the state
    Py.forL xs self acc (fun x self acc => body)     a `for` loop whose body rebinds ONE outer local (loop-carried; its type is
                                              inferred: `None` before the loop + a value in the body -> Option)
    Py.whileS fuel self accs (fun self accs => body)  `while True:` with loop-carried locals and a `return` inside; `fuel` (an
                                              extra parameter of the method and of its callers) is the DECLARED bound on the number
                                              of iterations - no loop variant is visible in the source
    Py.bindA (callee args) x self fun x self r => rest   a call on a local that is an alias of self (`x = self`) or, after
                                              `x = <new object>`, an object of its own (`Option σ`: none = the alias)
Everything outside the subset raises `Untranslatable` (the caller records the tie as 'lost'; never a violation by itself).

SUBSET (in addition to the expressions of pyobj.py / pybytes.py / pyarith.py)
  classes     kind='state': state=<Lean type>, attrs={attr: type}, fields={attr: Lean field}; `value=<type>` for a class whose
              `self` IS a value (TvmBitarray(bitarray): self : Bits; `len(self)`, `super().extend(x)` ... are built-ins);
              an attribute of type `state:<Class>` holds a sub-object of that (value) class.
              kind='object': a read-only record argument (`cell.bits`, `cell_slice.refs[i]`).
              A `@property` whose body is `return <expr>` is read as that expression (on `self` and on a record argument).
  types       Nat, Int, Bool, Bytes, Bits, R (an opaque cell reference), List R, Option T (a parameter that may be None),
              slice (the argument of `__delitem__`: two optional non-negative bounds)
  statements  local / attribute assignment, augmented assignment, `xs.append(e)` on a list attribute, `del self.<attr>[a:b]`,
              `del self.<attr>[i]` (= the sub-object's `__delitem__`), call statements, if / elif / else (the rest of the block is
              copied into the branches), `if x is None` on an optional parameter (-> match), `isinstance(x, T)` decided from the
              declared type of x (the dead branch is dropped), assert, raise, return, `for x in range(a, b)` / `in <list>` with a body
              that assigns no outer local.
  order       Python evaluates left to right; a mutating call is hoisted before the statement it occurs in, which is only sound
              when nothing of `self` was read earlier in the same statement: otherwise Untranslatable.
"""
import ast
import copy

from . import pybytes
from .pyobj import MTr, Program, is_self, is_self_attr, is_super, falls_through, tpar, BITS, OBJ
from .pybytes import NAT, INT, PROP, BOOL, BYTES, NONE, POISON, OPT, is_opt, opt_of, lname, par, indent, LEAN_RESERVED
from .pyexpr import Untranslatable

REF, REFS, SLICE, SELF, STR, ANY = 'R', 'List R', 'slice', 'self', 'str', 'any'
# argument forms of bitarray built-ins: a PLAIN bitarray (not a TvmBitarray), a list / tuple of ints, an iterable without a length
PLAINBITS, INTLIST, ITER = 'plainbits', 'List Int', 'iter'


def STATE(c):
    return f'state:{c}'


TYPE_TAG = {NAT: 'nat', INT: 'int', BOOL: 'bool', BITS: 'bits', BYTES: 'bytes', SLICE: 'slice', REF: 'ref', STR: 'str', PLAINBITS: 'bitarray',
            INTLIST: 'ints', ITER: 'iter'}
ISINSTANCE = {'int': {NAT, INT, BOOL}, 'bool': {BOOL}, 'str': {STR}, 'slice': {SLICE}, 'bytes': {BYTES}, 'bytearray': set(),
              'bitarray': {BITS, PLAINBITS}, 'TvmBitarray': {BITS}, 'list': {INTLIST}, 'tuple': set()}


class SProgram(Program):
    """classes: see the module docstring.  poly = {(class, method)}: methods that are instantiated at several argument types
    (their Lean names always carry a type suffix); main = the class whose methods are named without a prefix."""

    def __init__(self, classes, main, poly=(), externs=None, src='', sigs=None, reuse=None):
        super().__init__(classes, hashlib=None, bitarray=None, src=src)
        self.reuse = reuse                 # (owner, name, argtypes) -> info of a definition of ANOTHER generated file (same classes), or None
        self.main = main
        self.sigs = dict(sigs or {})       # (class, method) -> declared argument types (call sites are coerced: Nat -> Int)
        self.poly = set(poly)
        self.externs = externs or {}
        self.order = []

    def lean_ty(self, t):
        if t in (REF, REFS):
            return t
        if t == STR:
            return 'Bytes'
        if t == PLAINBITS:
            return 'Bits'
        if t == INTLIST:
            return 'List Int'
        if t == ITER:
            return 'Unit'
        if t == ANY:
            return 'Unit'
        if t == SELF or t == NONE:
            return 'Unit'
        if t.startswith('cur:'):
            return f'Option {tpar(self.classes[t[4:]]["state"])}'
        if is_opt(t):
            return f'Option {tpar(self.lean_ty(opt_of(t)))}'
        if t.startswith('union:'):
            return self.externs['unions'][t[6:]]['lean']
        if t.startswith('state:'):
            return self.lean_ty(self.classes[t[6:]]['value'])
        if t.startswith('obj:'):
            return self.classes[t[4:]]['lean']
        return super().lean_ty(t)

    def find_method(self, cls, name):
        c = cls
        while c is not None:
            d = self.classes.get(c)
            if d is None or d.get('kind') not in ('state', 'object'):
                raise Untranslatable(f'class {c} is not declared')
            fs = [n for n in d['node'].body if isinstance(n, ast.FunctionDef) and n.name == name]
            plain = [f for f in fs if not f.decorator_list]
            if len(fs) > 1 and not all(f.decorator_list for f in fs):
                raise Untranslatable(f'{c}.{name} is defined twice')
            if plain:
                return c, plain[0]
            if fs:
                raise Untranslatable(f'{c}.{name} is decorated')
            c = d.get('base')
        raise Untranslatable(f'method {cls}.{name} not found')

    def find_property(self, cls, name):
        """the expression a `@property` returns, or None"""
        c = cls
        while c is not None:
            d = self.classes.get(c)
            if d is None or 'node' not in d:
                return None
            for n in d['node'].body:
                if isinstance(n, ast.FunctionDef) and n.name == name and [ast.unparse(x) for x in n.decorator_list] == ['property']:
                    body = [s for s in n.body if not (isinstance(s, ast.Expr) and isinstance(s.value, ast.Constant))]
                    if len(body) == 1 and isinstance(body[0], ast.Return) and body[0].value is not None and len(n.args.args) == 1:
                        return body[0].value
                    raise Untranslatable(f'property {c}.{name} is not a single `return <expr>`')
            c = d.get('base')
        return None

    def coerce_args(self, cls, name, args):
        owner, _ = self.find_method(cls, name)
        want = self.sigs.get((owner, name))
        if want is None or len(want) != len(args):
            return args
        out = []
        for (v, t), w in zip(args, want):
            if t == NAT and w == INT:
                v, t = (f'({v} : Int)' if v.isdigit() else f'(({v} : Nat) : Int)'), INT
            out.append((v, t))
        return out

    def method(self, cls, name, argtypes):
        owner, fn = self.find_method(cls, name)
        key = (owner, name, tuple(argtypes))
        if key in self.done:
            return self.done[key]
        if self.reuse is not None:
            info = self.reuse(owner, name, tuple(argtypes))
            if info is not None:
                self.done[key] = info
                return info
        if (owner, name) in self.stack:
            raise Untranslatable(f'recursive method {owner}.{name}')
        base = lname(name.strip('_') if name.startswith('__') else name)
        if (owner, name) in self.poly:
            base += ''.join('_' + (t[4:].lower() if t.startswith('obj:') else 'none' if t == NONE else TYPE_TAG.get(t, 'x')) for t in argtypes)
        lean = base if owner == self.main else f'{owner}_{base}'
        if self.names.get(lean, key) != key:
            raise Untranslatable(f'{owner}.{name} is used with different argument types ({self.names[lean][2]} and {tuple(argtypes)})')
        self.names[lean] = key
        self.stack.append((owner, name))
        try:
            tr = STr(self, owner, fn, list(argtypes), lean)
            info = tr.translate()
            if info.get('retry') is not None:
                tr = STr(self, owner, fn, list(argtypes), lean, force_ret=info['retry'])
                info = tr.translate()
        finally:
            self.stack.pop()
        self.done[key] = info
        self.defs.append((lean, info['text']))
        return info


class STr(MTr):
    def __init__(self, prog, cls, fn, argtypes, lean, force_ret=None):
        pybytes.BTr.__init__(self, [])
        self.prog, self.cls, self.owner, self.fn, self.lean, self.ctor = prog, cls, cls, fn, lean, None
        self.decl = prog.classes[cls]
        self.value_ty = self.decl.get('value')
        a = fn.args
        if a.vararg or a.kwarg or a.kwonlyargs or a.posonlyargs or not a.args or a.args[0].arg != 'self':
            raise Untranslatable(f'{fn.name}: parameter list')
        names = [x.arg for x in a.args[1:]]
        if len(names) != len(argtypes):
            raise Untranslatable(f'{fn.name}: called with {len(argtypes)} arguments, has {len(names)} parameters (defaults are not translated)')
        self.params = []
        for n, t in zip(names, argtypes):
            if n in ('self', 'R') or n in LEAN_RESERVED:
                raise Untranslatable(f'parameter name {n}')
            self.env[n] = t
            if t == SLICE:
                self.params += [(f'{n}_start', OPT(NAT)), (f'{n}_stop', OPT(NAT))]
            else:
                self.params.append((lname(n), t))
        self.py_params = set(names)
        self.force_ret = force_ret
        self.ret_types = []
        self.reads = 0
        self.loops = []
        self.in_prop = []
        self.uses_mk = False          # the cell constructor `mk` (a parameter) is used, directly or by a callee
        self.uses_view = False        # `view` (what `<cell>.begin_parse()` reads of a referenced cell; a parameter) is used
        self.uses_fuel = False        # the method (or a callee) has a `while True` loop: the declared iteration bound `fuel`
        self.uses_conv = None         # (name, Lean type) of a declared conversion constructor used (a parameter), directly or by a callee
        self.whiles = 0               # > 0 inside the body of a `while True` (a `return` leaves the loop: Sum.inr)
        self.mutates = False          # the method changes the state of self
        self.cond = 0                 # > 0 while the test of an if / assert is translated (numbers in and / or mean "non-zero")
        self.flags = {}               # local name -> True / False while it holds that literal (decides `if flag:` statically)
        self.unwrapped = {}           # source text of an optional expression -> (lean name, type) inside `if <expr> is not None`
        for n in ast.walk(fn):
            if isinstance(n, (ast.FunctionDef, ast.Lambda, ast.Global, ast.Nonlocal, ast.Try, ast.With, ast.Break, ast.Continue, ast.Yield,
                              ast.YieldFrom, ast.Await, ast.NamedExpr, ast.Starred)) and n is not fn:
                raise Untranslatable(f'{fn.name}: {type(n).__name__}')
            if isinstance(n, ast.Name) and isinstance(n.ctx, (ast.Store, ast.Del)) and (n.id in ('self', 'R') or n.id.endswith('_start') or n.id.endswith('_stop')):
                raise Untranslatable(f'local name {n.id}')

    # ------------------------------------------------------------------ state
    def state_ty(self):
        return self.prog.lean_ty(self.value_ty) if self.value_ty else self.decl.get('state') or self.decl['lean']

    def self_attr(self, attr):
        """(lean text, type, field | None) of `self.<attr>`: a declared attribute or a property"""
        if self.value_ty:
            raise Untranslatable(f'attribute self.{attr} of a value class')
        t = self.decl['attrs'].get(attr)
        if t is not None:
            self.reads += 1
            fld = self.decl['fields'][attr]
            vt = self.prog.classes[t[6:]]['value'] if t.startswith('state:') else t
            txt = f'self.{fld}'
            if vt == BOOL:
                return f'({txt} = true)', PROP, fld
            return txt, vt, fld
        p = self.prog.find_property(self.cls, attr)
        if p is None:
            raise Untranslatable(f'attribute self.{attr} is not declared')
        if attr in self.in_prop:
            raise Untranslatable(f'recursive property {attr}')
        self.in_prop.append(attr)
        try:
            v, t = self.expr(p)
        finally:
            self.in_prop.pop()
        fld = None
        if isinstance(p, ast.Attribute) and is_self(p.value) and p.attr in self.decl['attrs']:
            fld = self.decl['fields'][p.attr]           # an alias: `bits` -> `_bits`
        return v, t, fld

    def attr_decl(self, attr):
        """declared (attr, type) behind `self.<attr>` when it is a declared attribute or an alias property of one"""
        if attr in self.decl.get('attrs', {}):
            return attr, self.decl['attrs'][attr]
        p = self.prog.find_property(self.cls, attr)
        if p is not None and isinstance(p, ast.Attribute) and is_self(p.value) and p.attr in self.decl.get('attrs', {}):
            return p.attr, self.decl['attrs'][p.attr]
        return None, None

    # ------------------------------------------------------------------ expressions
    def truth(self, et):
        e, t = et
        if t in (BITS, REFS):
            return f'({e} ≠ [])'
        if is_opt(t) or t in (REF, SLICE, SELF, STR) or t.startswith('obj:'):
            raise Untranslatable(f'{t} value used as a condition')
        return pybytes.BTr.truth(self, et)

    def static(self, e):
        """True / False when the test is decided by the declared types (or a local holding a literal bool), else None"""
        if isinstance(e, ast.Name) and e.id in self.flags:
            return self.flags[e.id]
        if isinstance(e, ast.UnaryOp) and isinstance(e.op, ast.Not):
            s = self.static(e.operand)
            return None if s is None else not s
        if (isinstance(e, ast.Call) and isinstance(e.func, ast.Name) and e.func.id == 'isinstance' and len(e.args) == 2 and not e.keywords
                and isinstance(e.args[0], ast.Name) and 'isinstance' not in self.env):
            t = self.env.get(e.args[0].id)
            if t is None or t == POISON:
                raise Untranslatable(f'isinstance of the undeclared name {e.args[0].id}')
            cs = e.args[1].elts if isinstance(e.args[1], ast.Tuple) else [e.args[1]]
            hit = False
            for c in cs:
                if not isinstance(c, ast.Name):
                    raise Untranslatable('isinstance class')
                if c.id in ISINSTANCE:
                    members = ISINSTANCE[c.id]
                elif c.id in self.prog.classes and self.prog.classes[c.id].get('isinstance') is not None:
                    members = self.prog.classes[c.id]['isinstance']
                else:
                    raise Untranslatable(f'isinstance(.., {c.id})')
                if is_opt(t):
                    raise Untranslatable('isinstance of an optional value')
                hit = hit or t in members
            return hit
        if isinstance(e, ast.Compare) and len(e.ops) == 1 and isinstance(e.ops[0], (ast.Is, ast.IsNot)) and \
                isinstance(e.comparators[0], ast.Constant) and e.comparators[0].value is None:
            if isinstance(e.left, ast.Name):
                t = self.env.get(e.left.id)
            elif isinstance(e.left, ast.Attribute):
                save = (list(self.pre), self.fresh, self.reads)
                try:
                    t = self.expr(e.left)[1]
                except Untranslatable:
                    t = None
                self.pre, self.fresh, self.reads = save
            else:
                t = None
            if t is None or t == POISON or is_opt(t):
                return None
            r = t == NONE
            return r if isinstance(e.ops[0], ast.Is) else not r
        return None

    def expr(self, e):
        if isinstance(e, ast.Name) and e.id == 'self':
            if self.value_ty:
                self.reads += 1
                return 'self', self.value_ty
            raise Untranslatable('self used as a value')
        if isinstance(e, ast.Constant) and isinstance(e.value, str):
            if e.value and set(e.value) <= {'0', '1'}:
                return '[' + ', '.join('true' if c == '1' else 'false' for c in e.value) + ']', BITS
            raise Untranslatable('string constant')
        if isinstance(e, ast.Name) and e.id in self.env and self.env[e.id].startswith('cur:'):
            self.reads += 1           # the local may be an alias of self
            return f'(Py.curOf {lname(e.id)} self)', OBJ(self.env[e.id][4:])
        if isinstance(e, ast.Name) and e.id in self.env and self.env[e.id] not in (POISON, BOOL):
            return lname(e.id), self.env[e.id]
        if isinstance(e, ast.IfExp) and not self.nohoist and ast.dump(e.test) != ast.dump(e.body):
            save = (list(self.pre), self.fresh, self.reads)
            try:
                return super().expr(e)
            except Untranslatable as err:
                if 'conditionally' not in str(err):
                    raise
                self.pre, self.fresh, self.reads = save
            # a branch calls a method of self / a built-in that can raise: the conditional becomes a step of its own
            if self.reads:
                raise Untranslatable('self is read before a conditional call in the same statement')
            c = self.truth(self.expr(e.test))

            def br(x):
                outer, self.pre = self.pre, []
                try:
                    v, t = self.stored(self.expr(x))
                    p = self.take_pre()
                finally:
                    self.pre = outer
                return p, v, t
            pa, va, ta = br(e.body)
            pb, vb, tb = br(e.orelse)
            if {ta, tb} == {NAT, INT}:
                va, vb = (self.cast((va, ta)), self.cast((vb, tb)))
                ta = tb = INT
            if ta != tb:
                raise Untranslatable(f'conditional expression of types {ta} / {tb}')
            x = self.tmp('r')
            a = self.wrap(pa, f'(self, some {par(va)})')
            b = self.wrap(pb, f'(self, some {par(vb)})')
            self.mutate('bindS', x, f'if {c} then\n{par(a)}\nelse\n{par(b)}')
            return ((f'({x} = true)', PROP) if ta == BOOL else (x, ta))
        if isinstance(e, ast.IfExp) and ast.dump(e.test) == ast.dump(e.body):
            x, xt = self.expr(e.test)
            if xt == OPT(NAT):
                d = self.guarded(lambda: self.expr(e.orelse))
                if d[1] != NAT:
                    raise Untranslatable('default of an optional int')
                return f'(Py.optOr {x} {d[0]})', NAT
        if isinstance(e, ast.Compare) and len(e.ops) == 1 and isinstance(e.ops[0], (ast.Is, ast.IsNot)):
            c = e.comparators[0]
            if isinstance(c, ast.Constant) and c.value is None:
                s = self.static(e)
                if s is not None:
                    return ('True' if s else 'False'), PROP
                x, xt = self.expr(e.left)
                if is_opt(xt):
                    return (f'({x} = none)' if isinstance(e.ops[0], ast.Is) else f'({x} ≠ none)'), PROP
            raise Untranslatable('`is` comparison')
        if isinstance(e, ast.BoolOp) and self.cond:
            first = self.truth(self.expr(e.values[0]))
            rest = [self.guarded(lambda v=v: self.truth(self.expr(v))) for v in e.values[1:]]
            return '(' + (' ∨ ' if isinstance(e.op, ast.Or) else ' ∧ ').join([first] + rest) + ')', PROP
        if isinstance(e, ast.BinOp) and isinstance(e.op, ast.Add):
            save = (list(self.pre), self.fresh, self.reads)
            l = self.expr(e.left)
            if l[1] in (REFS, BITS):
                r = self.expr(e.right)
                if r[1] != l[1]:
                    raise Untranslatable(f'{l[1]} + {r[1]}')
                return f'({l[0]} ++ {r[0]})', l[1]
            self.pre, self.fresh, self.reads = save[0], save[1], save[2]
        return super().expr(e)

    def binop(self, e):
        if isinstance(e.op, (ast.FloorDiv, ast.Mod)) and isinstance(e.right, ast.Constant) and isinstance(e.right.value, int) \
                and not isinstance(e.right.value, bool) and e.right.value > 0:
            save = (list(self.pre), self.fresh, self.reads)
            l = self.num(self.expr(e.left))
            if l[1] == INT:         # Python floors; for a positive divisor that is Lean's Int `/` and `%` (Euclidean)
                return f'({l[0]} {"/" if isinstance(e.op, ast.FloorDiv) else "%"} ({e.right.value} : Int))', INT
            self.pre, self.fresh, self.reads = save
        return super().binop(e)

    def attribute(self, e):
        v = e.value
        if is_self(v):
            txt, t, _ = self.self_attr(e.attr)
            return txt, t
        if isinstance(v, ast.Name) and self.env.get(v.id) == SLICE:
            if e.attr in ('start', 'stop'):
                return f'{v.id}_{e.attr}', OPT(NAT)
            raise Untranslatable(f'slice.{e.attr}')
        key = ast.unparse(e)
        if key in self.unwrapped:
            return self.unwrapped[key]
        base, bt = self.expr(v)
        if bt.startswith('obj:'):
            c = bt[4:]
            d = self.prog.classes[c]
            if e.attr in d['fields']:
                t = d['attrs'][e.attr]
                if t.startswith('state:'):
                    t = self.prog.classes[t[6:]]['value']
                txt = f'{base}.{d["fields"][e.attr]}'
                return (f'({txt} = true)', PROP) if t == BOOL else (txt, t)
            p = self.prog.find_property(c, e.attr)
            if p is None or not isinstance(v, ast.Name):
                raise Untranslatable(f'attribute .{e.attr} of a {c} is not declared')

            class Sub(ast.NodeTransformer):
                def visit_Name(s, n):
                    return ast.copy_location(ast.Name(id=v.id, ctx=ast.Load()), n) if n.id == 'self' else n
            return self.expr(Sub().visit(copy.deepcopy(p)))
        raise Untranslatable(f'attribute read {ast.unparse(e)[:40]}')

    def subscript(self, e):
        save = (list(self.pre), self.fresh, self.reads)
        base, bt = self.expr(e.value)
        s = e.slice
        if bt == REFS:
            if isinstance(s, ast.Slice):
                if s.step is not None or s.upper is not None:
                    raise Untranslatable('slice of a reference list')
                return (base if s.lower is None else f'({base}.drop {self.index_nat(s.lower, "slice bound")})'), REFS
            i = self.index_nat(s, 'index')
            return self.hoist(f'{base}[{i}]?', 'item'), REF
        if bt == BITS:
            if isinstance(s, ast.Slice):
                if s.step is not None:
                    raise Untranslatable('slice with a step')
                lo = self.index_nat(s.lower, 'slice bound') if s.lower is not None else None
                hi = self.index_nat(s.upper, 'slice bound') if s.upper is not None else None
                if hi is None:
                    return (base if lo is None else f'({base}.drop {lo})'), BITS
                return f'(Py.slice {base} {lo if lo is not None else 0} {hi})', BITS
            i = self.index_nat(s, 'index')
            return self.hoist(f'Py.bitAt? {base} (({i} : Nat) : Int)', 'bit'), NAT
        if bt == BYTES and isinstance(s, ast.Slice) and s.step is None:
            bs = [None if b is None else self.num(self.expr(b)) for b in (s.lower, s.upper)]
            if any(b is not None and b[1] == INT for b in bs):      # a bound that may be negative: Python's rule (Py.sliceI)
                lo, hi = ['none' if b is None else f'(some {self.cast(b)})' for b in bs]
                return f'(Py.sliceI {base} {lo} {hi})', BYTES
        self.pre, self.fresh, self.reads = save
        return super().subscript(e)

    def call(self, e, key):
        f = e.func
        if isinstance(f, ast.Name) and f.id not in self.env:
            kws = {k.arg: k.value for k in e.keywords}
            if f.id == 'len' and len(e.args) == 1 and not kws:
                v, t = self.expr(e.args[0])
                if t in (REFS, BITS, PLAINBITS, INTLIST):
                    return f'{v}.length', NAT
                if t == STR:
                    return f'(Py.strLen {v})', NAT           # the number of characters of the str (it travels as its UTF-8 bytes)
                if t == ITER:
                    return self.hoist('(none : Option Nat)', 'len'), NAT      # TypeError: an iterator has no len()
                return pybytes.BTr.call(self, e, key)
            if f.id in ('int2ba', 'ba2int') and f.id in self.prog.externs:
                sg = kws.pop('signed', None)
                if kws or not (isinstance(sg, ast.Constant) and isinstance(sg.value, bool)):
                    raise Untranslatable(f'{f.id}: `signed=` must be a literal')
                if f.id == 'int2ba' and len(e.args) == 2:
                    v = self.cast(self.num(self.expr(e.args[0])))
                    n = self.as_nat(self.expr(e.args[1]), 'int2ba length')
                    return self.hoist(f'Py.int2ba? {v} {n} {"true" if sg.value else "false"}', 'ba'), BITS
                if f.id == 'ba2int' and len(e.args) == 1:
                    x, t = self.expr(e.args[0])
                    if t != BITS:
                        raise Untranslatable('ba2int of a non-bitarray')
                    return (self.hoist(f'Py.ba2intS? {x}', 'int'), INT) if sg.value else (self.hoist(f'Py.ba2intU? {x}', 'int'), NAT)
                raise Untranslatable(f'{f.id} call shape')
            if f.id == 'bool' and len(e.args) == 1 and not kws:
                return self.truth(self.expr(e.args[0])), PROP
            if f.id == 'int' and len(e.args) == 1 and not kws and self.prog.externs.get('str=utf8'):
                save = (list(self.pre), self.fresh, self.reads)
                v, t = self.expr(e.args[0])
                if t == STR:
                    return self.hoist(f'Py.intOfStr? {v}', 'int'), INT      # int('..'): decimal literal, ValueError otherwise
                self.pre, self.fresh, self.reads = save
            if (f.id == 'int' and len(e.args) == 2 and not kws and isinstance(e.args[1], ast.Constant) and e.args[1].value == 2
                    and isinstance(e.args[0], ast.Call) and isinstance(e.args[0].func, ast.Attribute) and e.args[0].func.attr == 'to01'
                    and not e.args[0].args and not e.args[0].keywords):
                v, t = self.expr(e.args[0].func.value)
                if t != BITS:
                    raise Untranslatable('to01() of a non-bitarray')
                return self.hoist(f'Py.intOfBits? {v}', 'int'), NAT
            d = self.prog.classes.get(f.id)
            if d is not None and d.get('ctor') is not None and not kws:
                return self.construct(f.id, d, e)
            if f.id == 'isinstance':
                s = self.static(e)
                if s is None:
                    raise Untranslatable('isinstance')
                return ('True' if s else 'False'), PROP
        rf = self.prog.externs.get('ref_functions') or {}
        if (isinstance(f, ast.Attribute) and isinstance(f.value, ast.Name) and f.value.id in rf and f.attr == rf[f.value.id] and f.value.id not in self.env
                and e.args and not e.keywords and isinstance(e.args[0], ast.Call) and isinstance(e.args[0].func, ast.Attribute)
                and e.args[0].func.attr == 'begin_parse' and not e.args[0].args and not e.args[0].keywords
                and all(isinstance(a, ast.Name) and a.id in self.py_params for a in e.args[1:])):
            # declared: the result is a function of the referenced cell (and the plain parameters passed on) - here: that cell
            x, t = self.expr(e.args[0].func.value)
            if t != REF:
                raise Untranslatable(f'{f.value.id}.{f.attr} of a {t}')
            return x, REF
        if isinstance(f, ast.Attribute):
            r = self.attr_call(e)
            if r is not None:
                return r
        return pybytes.BTr.call(self, e, key)

    def construct(self, cname, d, e):
        """`C(args)` for a declared record class: ctor = dict(shape='args' | 'tuple', fields=[(field, type)], rest={field: lean})"""
        c = d['ctor']
        args = list(e.args)
        if c.get('of') and len(args) == 1 and not isinstance(args[0], ast.Tuple):
            save = (list(self.pre), self.fresh, self.reads)
            v, t = self.expr(args[0])
            if t in c['of']:
                # declared: `C(x)` for an x of this type is the interface function named here (a parameter; it may raise)
                self.uses_conv = c['of'][t]
                return self.hoist(f'{c["of"][t][0]} {par(v)}', 'obj'), OBJ(cname)
            self.pre, self.fresh, self.reads = save
        if c['shape'] == 'tuple':
            if len(args) != 1 or not isinstance(args[0], ast.Tuple):
                raise Untranslatable(f'{cname}(...) is not called with a tuple literal')
            args = list(args[0].elts)
        if len(args) != len(c['fields']):
            raise Untranslatable(f'{cname}(...) argument count')
        for a, fw in zip(args, c['fields']):
            if fw is None and not (isinstance(a, ast.Attribute) and is_self(a.value)):
                raise Untranslatable(f'{cname}(...): ignored argument is not a plain attribute read')
        items = []
        for a, fw in zip(args, c['fields']):
            if fw is None:
                continue                          # a declared-irrelevant argument (not evaluated: must be a plain attribute read)
            fld, want = fw
            v, t = self.stored(self.expr(a))
            if t == NAT and want == INT:
                v, t = self.cast((v, t)), INT
            if t != want:
                raise Untranslatable(f'{cname}: field {fld} gets a {t}, declared {want}')
            items.append(f'{fld} := {v}')
        if c.get('via') == 'mk':
            # the constructor is a PARAMETER of the translation (it may raise): `mk bits refs`
            self.uses_mk = True
            return self.hoist('mk ' + ' '.join(par(i.split(' := ', 1)[1]) for i in items), 'cell'), c.get('type', OBJ(cname))
        items += [f'{k} := {v}' for k, v in c.get('rest', {}).items()]
        return f'({{ {", ".join(items)} }} : {d["lean"]})', OBJ(cname)

    def mutate(self, kind, name, term):
        """a state-changing step hoisted before the current statement"""
        if self.nohoist:
            raise Untranslatable('a mutating call occurs where Python evaluates it conditionally')
        self.pre.append((kind, name, term))
        if kind in ('set', 'bindS'):
            self.mutates = True
        self.reads = 0

    def recv_self(self, v, r0):
        """the receiver of a method call is self (directly, or the result of a call that returns self)"""
        if is_self(v):
            return True
        if isinstance(v, ast.Call) and isinstance(v.func, ast.Attribute):
            save = (list(self.pre), self.fresh, self.reads)
            try:
                _, t = self.expr(v)
            except Untranslatable:
                self.pre, self.fresh, self.reads = save
                return False
            if t == SELF:
                return True
            self.pre, self.fresh, self.reads = save
        return False

    def attr_call(self, e):
        f = e.func
        v = f.value
        r0 = self.reads
        if f.attr in ('bit_length', 'count', 'from_bytes', 'ceil', 'to_bytes'):
            return None
        # built-ins of a value class (`super().extend(x)` in TvmBitarray(bitarray))
        if is_super(v) and self.value_ty:
            return self.builtin_self(e, f.attr, r0)
        # a method of a sub-object held in an attribute: self._bits.extend(..), self.bits.append(..)
        if is_self_attr(v):
            attr, t = self.attr_decl(v.attr)
            if attr is not None and t.startswith('state:') and f.attr == 'copy' and not e.args and not e.keywords \
                    and self.prog.externs.get('copy=value'):
                txt, vt, _ = self.self_attr(v.attr)      # declared: a copy holds the same bits
                return txt, vt
            if attr is not None and t.startswith('state:'):
                return self.sub_call(e, attr, t[6:], f.attr, r0)
            if attr is not None and t == REFS and f.attr == 'copy' and not e.args and not e.keywords and self.prog.externs.get('copy=value'):
                txt, vt, _ = self.self_attr(v.attr)
                return txt, vt
            if attr is not None and t == REFS and f.attr == 'append' and len(e.args) == 1 and not e.keywords:
                x, xt = self.expr(e.args[0])
                if xt != REF:
                    raise Untranslatable(f'append of a {xt} to a reference list')
                if r0:
                    raise Untranslatable('self is read before a mutation in the same statement')
                fld = self.decl['fields'][attr]
                self.mutate('set', None, f'{{ self with {fld} := self.{fld} ++ [{x}] }}')
                return '()', NONE
        if isinstance(v, ast.Name) and self.env.get(v.id, '').startswith('cur:'):
            # a method of a local that is an alias of self or an object of its own
            cls = self.env[v.id][4:]
            args = self.fit_args(cls, f.attr, self.with_defaults(cls, f.attr, self.typed_args(e)))
            info = self.prog.method(cls, f.attr, [t for _, t in args])
            if r0:
                raise Untranslatable('self is read before a mutating call in the same statement')
            if self.nohoist:
                raise Untranslatable('a call on a local object occurs where Python evaluates it conditionally')
            term = f'{self.callee(info)} {" ".join(par(x) for x, _ in args)}'.rstrip()
            x = self.tmp('r') if info['ret'] not in (SELF, NONE) else '_u'
            self.pre.append(('bindA', (lname(v.id), x), term))
            self.mutates = True
            self.reads = 0
            if info['ret'] in (SELF, NONE):
                return '()', NONE            # (`x.m(..)` returning x itself is not bound to another name)
            return ((f'({x} = true)', PROP) if info['ret'] == BOOL else (x, info['ret']))
        if isinstance(v, ast.Name) and self.env.get(v.id, '').startswith('obj:') and v.id not in self.py_params:
            st = self.prog.classes[self.env[v.id][4:]].get('setters', {}).get(f.attr)
            if st is not None and not e.keywords and len(e.args) == len(st['args']):
                vals = []
                for a, want in zip(e.args, st['args']):
                    x, t = self.stored(self.expr(a))
                    if t == NAT and want == INT:
                        x, t = self.cast((x, t)), INT
                    if t != want:
                        raise Untranslatable(f'{f.attr}: argument of type {t}, declared {want}')
                    vals.append(x)
                self.pre.append(('setl', lname(v.id), f'{{ {lname(v.id)} with {st["field"]} := {st["value"].format(*vals)} }}'))
                return '()', NONE
        if self.recv_self(v, r0):
            if self.value_ty is None or True:
                return self.self_call(e, self.cls, f.attr, r0)
        base, bt = self.expr(v)
        if bt == BITS and f.attr == 'tobytes' and not e.args and not e.keywords:
            return f'(bitsToBytes {base})', BYTES
        rm = (self.prog.externs.get('ref_methods') or {}).get(f.attr)
        if bt == REF and rm is not None and not e.args and not e.keywords:
            # declared: what `<cell>.begin_parse()` reads of a referenced cell is `view <cell>` (a parameter of the translation)
            self.uses_view = True
            return rm['lean'].format(base), OBJ(rm['cls'])
        if bt.startswith('obj:') and self.prog.classes[bt[4:]].get('node') is not None and f.attr not in ('copy',):
            cls = bt[4:]
            is_state = self.prog.classes[cls].get('kind') == 'state'
            args = self.fit_args(cls, f.attr, self.with_defaults(cls, f.attr, self.typed_args(e)))
            info = self.prog.method(cls, f.attr, [t for _, t in args])
            term = f'{self.callee(info)} {" ".join(par(x) for x, _ in args)}'.rstrip() + f' {base}'
            local = isinstance(v, ast.Name) and v.id not in self.py_params and v.id in self.env
            if isinstance(v, ast.Name) and not local:
                # a method of a parameter object: it may not change it
                if info.get('mutates'):
                    raise Untranslatable(f'{f.attr} mutates the parameter {v.id}')
                if info['ret'] in (SELF, NONE):
                    raise Untranslatable(f'{f.attr} on a parameter returns no value')
                x = self.hoist(f'({term}).2', 'r')
                return ((f'({x} = true)', PROP) if info['ret'] == BOOL else (x, info['ret']))
            if not is_state:
                raise Untranslatable(f'method {f.attr} of a local {cls}')
            # a local / temporary object of a state class: its state is threaded (a local name is rebound), a raise ends the method
            stv = lname(v.id) if local else self.tmp('st')
            if self.nohoist:
                raise Untranslatable('a call on a local object occurs where Python evaluates it conditionally')
            if info['ret'] in (SELF, NONE):
                self.pre.append(('bindL', (stv, '_u'), term))
                return (stv, OBJ(cls)) if info['ret'] == SELF else ('()', NONE)
            x = self.tmp('r')
            self.pre.append(('bindL', (stv, x), term))
            return ((f'({x} = true)', PROP) if info['ret'] == BOOL else (x, info['ret']))
        if bt == STR and f.attr == 'encode' and self.prog.externs.get('str=utf8'):
            self.check_codec(e)                   # the codec / error handler the call names must BE the declared one
            return base, BYTES                    # declared: a str travels as its UTF-8 bytes
        if bt == BYTES and f.attr == 'decode' and self.prog.externs.get('str=utf8'):
            self.check_codec(e)
            return base, STR
        raise Untranslatable(f'call of .{f.attr} on a {bt}')

    def check_codec(self, e):
        """`<str>.encode(...)` / `<bytes>.decode(...)`: the declared interface reads them as the identity on the UTF-8 bytes.  That is what
        the call means only for the codec 'utf-8' (any spelling CPython resolves to it) with errors='strict' (the defaults); the codec and
        the error handler are therefore READ from the call (a literal, or a module-level name bound once to a literal) and anything else
        - 'utf-8-sig', 'latin-1', errors='ignore' ... - is outside the declared interface, never silently the identity."""
        import codecs
        vals = {}
        if len(e.args) > 2:
            raise Untranslatable(f'.{e.func.attr} with {len(e.args)} arguments')
        for name, a in list(zip(('encoding', 'errors'), e.args)) + [(k.arg, k.value) for k in e.keywords]:
            if name not in ('encoding', 'errors') or name in vals:
                raise Untranslatable(f'.{e.func.attr}: argument {name}')
            vals[name] = self.const_str(a)
        codec, errors = vals.get('encoding', 'utf-8'), vals.get('errors', 'strict')
        try:
            canon = codecs.lookup(codec).name
        except LookupError:
            canon = None
        if canon != 'utf-8' or errors != 'strict':
            raise Untranslatable(f'.{e.func.attr}({codec!r}, errors={errors!r}) in {self.owner}.{self.fn.name} is outside the declared interface '
                                 f'(a str travels as its UTF-8 bytes: codec utf-8, errors strict)')

    def const_str(self, a):
        """the str a codec argument denotes: a literal, or a name that the module of the method binds exactly once, at top level, to a literal"""
        if isinstance(a, ast.Constant) and isinstance(a.value, str):
            return a.value
        if isinstance(a, ast.Name) and a.id not in self.env:
            import os
            from ..paths import REPO
            src = self.prog.classes[self.owner].get('src', self.prog.src)
            try:
                tree = ast.parse(open(os.path.join(REPO, src)).read())
            except OSError:
                tree = None
            if tree is not None:
                stores = [n for n in ast.walk(tree) if isinstance(n, ast.Name) and n.id == a.id and isinstance(n.ctx, (ast.Store, ast.Del))]
                tops = [s for s in tree.body if isinstance(s, ast.Assign) and len(s.targets) == 1 and isinstance(s.targets[0], ast.Name)
                        and s.targets[0].id == a.id and isinstance(s.value, ast.Constant) and isinstance(s.value.value, str)]
                glob = [n for n in ast.walk(tree) if isinstance(n, (ast.Global, ast.Nonlocal)) and a.id in n.names]
                if len(stores) == 1 and len(tops) == 1 and not glob:
                    return tops[0].value.value
        raise Untranslatable(f'the codec argument `{ast.unparse(a)}` of .encode / .decode is not a literal')

    def with_defaults(self, cls, name, args):
        """missing trailing arguments are filled from literal int defaults"""
        _, fn = self.prog.find_method(cls, name)
        names = [a.arg for a in fn.args.args[1:]]
        ds = fn.args.defaults
        out = list(args)
        for i in range(len(out), len(names)):
            k = i - (len(names) - len(ds))
            if k < 0 or not (isinstance(ds[k], ast.Constant) and isinstance(ds[k].value, int) and not isinstance(ds[k].value, bool) and ds[k].value >= 0):
                raise Untranslatable(f'{name}: missing argument without a literal default')
            out.append((str(ds[k].value), NAT))
        return out

    def callee(self, info):
        out = info['lean']
        if info.get('mk'):
            self.uses_mk = True
            out += ' mk'
        if info.get('view'):
            self.uses_view = True
            out += ' view'
        if info.get('fuel'):
            self.uses_fuel = True
            out += ' fuel'
        if info.get('conv'):
            self.uses_conv = info['conv']
            out += ' ' + info['conv'][0]
        return out

    def fit_args(self, cls, name, args):
        """declared argument types: Nat -> Int (coerce_args); an OPTIONAL value where the callee is declared to take the plain type
        (`store_ref(tail)` with `tail` None or a cell): DECLARED - `None` there counts as a raise (`Py.bindO`)"""
        args = self.prog.coerce_args(cls, name, args)
        owner, _ = self.prog.find_method(cls, name)
        want = self.prog.sigs.get((owner, name))
        if want is None or len(want) != len(args):
            return args
        out = []
        for (v, t), w in zip(args, want):
            if is_opt(t) and opt_of(t) == w:
                v, t = self.hoist(v, 'some'), w
            out.append((v, t))
        return out

    def typed_args(self, e):
        if e.keywords:
            raise Untranslatable('keyword arguments')
        out = []
        for a in e.args:
            if isinstance(a, ast.Slice):
                raise Untranslatable('slice argument')
            v, t = self.expr(a)
            if t == PROP:
                v, t = f'(decide {v})', BOOL
            out.append((v, t))
        return out

    def self_call(self, e, cls, name, r0, args=None):
        args = self.typed_args(e) if args is None else args
        args = self.fit_args(cls, name, self.with_defaults(cls, name, args))
        info = self.prog.method(cls, name, [t for _, t in args])
        if r0:
            raise Untranslatable('self is read before a mutating call in the same statement')
        term = f'{self.callee(info)} {" ".join(par(v) for v, _ in args)}'.rstrip() + ' self'
        x = self.tmp('r')
        self.mutate('bindS', x if info['ret'] not in (SELF, NONE) else '_u', term)
        if info['ret'] in (SELF, NONE):
            return '()', info['ret']
        if info['ret'] == BOOL:
            return f'({x} = true)', PROP
        return x, info['ret']

    def sub_call(self, e, attr, cls, name, r0, args=None):
        args = self.typed_args(e) if args is None else args
        args = self.prog.coerce_args(cls, name, args)
        info = self.prog.method(cls, name, [t for _, t in args])
        if r0:
            raise Untranslatable('self is read before a mutating call in the same statement')
        fld = self.decl['fields'][attr]
        term = f'Py.zoom ({self.callee(info)} {" ".join(par(v) for v, _ in args)}'.rstrip() + f' self.{fld}) (fun v => {{ self with {fld} := v }})'
        x = self.tmp('r')
        self.mutate('bindS', x if info['ret'] not in (SELF, NONE) else '_u', term)
        if info['ret'] in (SELF, NONE):
            return '()', NONE
        if info['ret'] == BOOL:
            return f'({x} = true)', PROP
        return x, info['ret']

    def builtin_self(self, e, name, r0):
        """`super().<name>(..)` in a class whose self is a bit list"""
        if self.value_ty != BITS or e.keywords:
            raise Untranslatable(f'super().{name}')
        if r0:
            raise Untranslatable('self is read before a mutation in the same statement')
        args = e.args
        if name == 'extend' and len(args) == 1:
            x, t = self.expr(args[0])
            if t == STR:
                x = self.hoist(f'Py.bitsOfStr? {x}', 'bits')       # '0' / '1', whitespace and '_' skipped; ValueError otherwise
            elif t == INTLIST:
                x = self.hoist(f'Py.bitsOfInts? {x}', 'bits')      # every item 0 / 1; ValueError otherwise (nothing is appended)
            elif t == ITER:
                x = self.hoist('(none : Option Bits)', 'bits')     # the items of an iterator are not modelled (here: behind `len(x)`, which raised)
            elif t not in (BITS, PLAINBITS):
                raise Untranslatable(f'extend with a {t}')
            self.mutate('set', None, f'self ++ {x}')
        elif name == 'append' and len(args) == 1:
            x, t = self.expr(args[0])
            if t == PROP:
                el = f'(decide {x})'
            elif t == NAT:
                el = self.hoist(f'Py.bitOfNat? {x}', 'bit')
            elif t == INT:
                el = self.hoist(f'Py.bitOfInt? {x}', 'bit')
            else:
                raise Untranslatable(f'append of a {t} to a bitarray')
            self.mutate('set', None, f'self ++ [{el}]')
        elif name == 'frombytes' and len(args) == 1:
            x, t = self.expr(args[0])
            if t != BYTES:
                raise Untranslatable(f'frombytes of a {t}')
            self.mutate('set', None, f'self ++ bytesToBits {x}')
        elif name == '__delitem__' and len(args) == 1 and isinstance(args[0], ast.Name):
            t = self.env.get(args[0].id)
            if t == SLICE:
                self.mutate('set', None, f'Py.delSlice self {args[0].id}_start {args[0].id}_stop')
            elif t == NAT:
                x = self.hoist(f'Py.delAt? self {lname(args[0].id)}', 'bits')
                self.mutate('set', None, x)
            else:
                raise Untranslatable(f'__delitem__ of a {t}')
        else:
            raise Untranslatable(f'super().{name}')
        return '()', NONE

    # ------------------------------------------------------------------ statements
    @staticmethod
    def wrap(pre, body):
        for kind, name, t in reversed(pre):
            if kind == 'bind':
                body = f'Py.bindO ({t}) self fun {name} =>\n{body}'
            elif kind == 'bindS':
                body = f'Py.bindS ({t}) fun self {name} =>\n{body}'
            elif kind == 'set':
                body = f'let self := {t}\n{body}'
            elif kind == 'setl':
                body = f'let {name} := {t}\n{body}'
            elif kind == 'bindL':
                body = f'Py.bindL ({t}) self fun {name[0]} {name[1]} =>\n{body}'
            elif kind == 'bindA':
                body = f'Py.bindA ({t}) {name[0]} self fun {name[0]} self {name[1]} =>\n{body}'
            else:
                body = f'if ¬ {t} then (self, none) else\n{body}'
        return body

    def start(self):
        self.reads = 0

    def block(self, stmts, kont):
        if not stmts:
            return kont()
        self.start()
        s, rest = stmts[0], stmts[1:]
        if isinstance(s, ast.Expr) and isinstance(s.value, ast.Constant):
            return self.block(rest, kont)
        if isinstance(s, ast.Pass):
            return self.block(rest, kont)
        if isinstance(s, ast.ImportFrom) and all((a.asname or a.name) in (self.prog.externs.get('ref_functions') or {}) or
                                                 ((a.asname or a.name) in self.prog.classes and not a.asname) for a in s.names):
            return self.block(rest, kont)
        if isinstance(s, ast.Raise):
            return '(self, none)'
        if isinstance(s, ast.Assert):
            c = self.truth(self.expr(s.test))
            pre = self.take_pre()
            return self.wrap(pre, f'if {c} then\n{par(self.block(rest, kont))}\nelse (self, none)')
        if isinstance(s, ast.Return):
            if any(l is not None for l in self.loops):
                raise Untranslatable('return inside a for loop')
            return self.ret(s)
        if isinstance(s, ast.AnnAssign):
            if s.value is None:
                return self.block(rest, kont)
            s = ast.Assign(targets=[s.target], value=s.value)
        if isinstance(s, ast.Assign):
            if len(s.targets) != 1 or isinstance(s.targets[0], (ast.Tuple, ast.List)):
                raise Untranslatable('chained / tuple assignment')
            return self.assign(s.targets[0], s.value, rest, kont)
        if isinstance(s, ast.AugAssign):
            tg = s.target
            load = ast.Name(id=tg.id, ctx=ast.Load()) if isinstance(tg, ast.Name) else ast.Attribute(value=tg.value, attr=tg.attr, ctx=ast.Load()) \
                if isinstance(tg, ast.Attribute) else None
            if load is None:
                raise Untranslatable('augmented assignment target')
            return self.assign(tg, ast.BinOp(left=load, op=s.op, right=s.value), rest, kont)
        if isinstance(s, ast.Expr) and isinstance(s.value, ast.Call):
            self.expr(s.value)
            pre = self.take_pre()
            return self.wrap(pre, self.block(rest, kont))
        if isinstance(s, ast.Delete):
            if len(s.targets) != 1:
                raise Untranslatable('del of several targets')
            return self.delete(s.targets[0], rest, kont)
        if isinstance(s, ast.If):
            return self.if_(s, rest, kont)
        if isinstance(s, ast.For):
            return self.for_(s, rest, kont)
        if isinstance(s, ast.While):
            return self.while_(s)         # `while True:` never falls through: the rest of the block is unreachable
        raise Untranslatable(f'statement {type(s).__name__}')

    def assign(self, tg, value, rest, kont):
        if isinstance(tg, ast.Name):
            if tg.id in self.py_params and (self.env.get(tg.id) in (BITS, REFS, SLICE) or self.env.get(tg.id, '').startswith('obj:')):
                raise Untranslatable(f'parameter {tg.id} is rebound')
            if tg.id in ('self', 'R', 'v', 'mk', 'view', 'fuel', 'acc') or tg.id in self.prog.classes:
                raise Untranslatable(f'local name {tg.id}')
            if is_self(value) and not self.value_ty and self.decl.get('kind') == 'state':
                # `x = self`: x is an ALIAS of self until it is rebound to an object of its own (Option σ: none = the alias)
                if self.env.get(tg.id, f'cur:{self.cls}') != f'cur:{self.cls}' or tg.id in self.py_params:
                    raise Untranslatable(f'{tg.id} = self')
                self.env[tg.id] = f'cur:{self.cls}'
                return f'let {lname(tg.id)} : {self.prog.lean_ty(self.env[tg.id])} := none\n{self.block(rest, kont)}'
            if self.env.get(tg.id, '').startswith('cur:'):
                v, t = self.expr(value)
                if t != OBJ(self.env[tg.id][4:]) or v.startswith('(Py.curOf '):
                    raise Untranslatable(f'{tg.id} (an alias of self) is rebound to a {t}')
                pre = self.take_pre()
                return self.wrap(pre, f'let {lname(tg.id)} : {self.prog.lean_ty(self.env[tg.id])} := some {par(v)}\n{self.block(rest, kont)}')
            v, t = self.stored(self.expr(value))
            if t.startswith('cur:'):
                raise Untranslatable('an alias of self is bound to another name')
            if t == SELF or t == NONE and False:
                raise Untranslatable('a builder is bound to a local name')
            pre = self.take_pre()
            self.env[tg.id] = t
            if isinstance(value, ast.Constant) and isinstance(value.value, bool):
                self.flags[tg.id] = value.value
            else:
                self.flags.pop(tg.id, None)
            if pre and pre[-1][0] in ('bind', 'bindS') and pre[-1][1] == v:
                pre = pre[:-1] + [(pre[-1][0], lname(tg.id), pre[-1][2])]
                return self.wrap(pre, self.block(rest, kont))
            return self.wrap(pre, f'let {lname(tg.id)} : {self.prog.lean_ty(t)} := {v}\n{self.block(rest, kont)}')
        if is_self_attr(tg):
            if self.value_ty or tg.attr not in self.decl['attrs']:
                raise Untranslatable(f'assignment to self.{tg.attr}')
            want = self.decl['attrs'][tg.attr]
            v, t = self.stored(self.expr(value))
            if t != want:
                raise Untranslatable(f'self.{tg.attr} is assigned a {t}, declared {want}')
            fld = self.decl['fields'][tg.attr]
            self.pre.append(('set', None, f'{{ self with {fld} := {v} }}'))
            self.mutates = True
            pre = self.take_pre()
            return self.wrap(pre, self.block(rest, kont))
        raise Untranslatable(f'assignment target {ast.unparse(tg)[:40]}')

    def delete(self, tg, rest, kont):
        if not (isinstance(tg, ast.Subscript) and is_self_attr(tg.value)):
            raise Untranslatable(f'del {ast.unparse(tg)[:40]}')
        attr, t = self.attr_decl(tg.value.attr)
        if attr is None or not t.startswith('state:'):
            raise Untranslatable(f'del on self.{tg.value.attr}')
        s = tg.slice
        if isinstance(s, ast.Slice):
            if s.step is not None:
                raise Untranslatable('del with a step')
            lo = f'(some {par(self.index_nat(s.lower, "slice bound"))})' if s.lower is not None else 'none'
            hi = f'(some {par(self.index_nat(s.upper, "slice bound"))})' if s.upper is not None else 'none'
            args = [(f'{lo} {hi}', SLICE)]
        else:
            args = [(self.index_nat(s, 'index'), NAT)]
        call = ast.Call(func=ast.Attribute(value=tg.value, attr='__delitem__', ctx=ast.Load()), args=[], keywords=[])
        r0 = 0
        info_args = args
        # the slice argument travels as two Lean arguments
        info = self.prog.method(t[6:], '__delitem__', [ty for _, ty in args])
        fld = self.decl['fields'][attr]
        term = f'Py.zoom ({info["lean"]} {" ".join(v if ty == SLICE else par(v) for v, ty in args)} self.{fld}) (fun v => {{ self with {fld} := v }})'
        self.mutate('bindS', '_u', term)
        pre = self.take_pre()
        return self.wrap(pre, self.block(rest, kont))

    def if_(self, s, rest, kont):
        st = self.static(s.test)
        if st is not None:
            live = s.body if st else s.orelse
            return self.block(list(live) + (list(rest) if falls_through(live) else []), kont)
        env0 = dict(self.env)
        flags0 = dict(self.flags)

        def branch(stmts, k, upd=None):
            self.env = dict(env0)
            self.flags = dict(flags0)
            if upd:
                self.env.update(upd)
            r = par(self.block(stmts, k))
            return r
        body_a = list(s.body) + (list(rest) if falls_through(s.body) else [])
        body_b = list(s.orelse) + (list(rest) if falls_through(s.orelse) else [])
        # `if x is None` / `if x is not None` on an optional parameter: a match that unwraps it
        t = s.test
        if (isinstance(t, ast.Compare) and len(t.ops) == 1 and isinstance(t.ops[0], (ast.Is, ast.IsNot)) and isinstance(t.left, ast.Name)
                and isinstance(t.comparators[0], ast.Constant) and t.comparators[0].value is None and is_opt(self.env.get(t.left.id, ''))):
            x = t.left.id
            inner = opt_of(self.env[x])
            none_b, some_b = (body_a, body_b) if isinstance(t.ops[0], ast.Is) else (body_b, body_a)
            a = branch(none_b, kont, {x: NONE})
            b = branch(some_b, kont, {x: inner})
            self.env = dict(env0)
            return f'match {lname(x)} with\n| none =>\n{indent(a)}\n| some {lname(x)} =>\n{indent(b)}'
        if (isinstance(t, ast.Compare) and len(t.ops) == 1 and isinstance(t.ops[0], (ast.Is, ast.IsNot)) and isinstance(t.left, ast.Attribute)
                and isinstance(t.comparators[0], ast.Constant) and t.comparators[0].value is None):
            x, xt = self.expr(t.left)
            if is_opt(xt) and not self.pre:
                key = ast.unparse(t.left)
                var = self.tmp('v')
                none_b, some_b = (body_a, body_b) if isinstance(t.ops[0], ast.Is) else (body_b, body_a)
                a = branch(none_b, kont)
                self.unwrapped[key] = (var, opt_of(xt))
                try:
                    b = branch(some_b, kont)
                finally:
                    del self.unwrapped[key]
                self.env = dict(env0)
                return f'match {x} with\n| none =>\n{indent(a)}\n| some {var} =>\n{indent(b)}'
        self.cond += 1
        try:
            c = self.truth(self.expr(s.test))
        finally:
            self.cond -= 1
        pre = self.take_pre()
        a = branch(body_a, kont)
        b = branch(body_b, kont)
        self.env = dict(env0)
        return self.wrap(pre, f'if {c} then\n{a}\nelse\n{b}')

    def for_(self, s, rest, kont):
        if s.orelse or not isinstance(s.target, ast.Name):
            raise Untranslatable('loop shape')
        x = s.target.id
        if x in self.env or x in LEAN_RESERVED or x in ('self', 'R', 'acc'):
            raise Untranslatable(f'loop variable {x} shadows a name')
        it = s.iter
        rev = ''
        if (isinstance(it, ast.Call) and isinstance(it.func, ast.Name) and it.func.id == 'reversed' and 'reversed' not in self.env
                and len(it.args) == 1 and not it.keywords):
            it, rev = it.args[0], '.reverse'
        if (isinstance(it, ast.Call) and isinstance(it.func, ast.Name) and it.func.id == 'range' and 'range' not in self.env
                and not it.keywords and 1 <= len(it.args) <= 3):
            if len(it.args) == 3:
                st = it.args[2]
                if not (isinstance(st, ast.Constant) and isinstance(st.value, int) and not isinstance(st.value, bool) and st.value > 0):
                    raise Untranslatable('range step is not a positive int literal')
                a, b = [self.index_nat(z, 'range argument') for z in it.args[:2]]
                xs = f'(Py.rangeStep {a} {b} {st.value})'
            else:
                args = [self.index_nat(a, 'range argument') for a in it.args]
                xs = f'(List.range {args[0]})' if len(args) == 1 else f"(List.range' {args[0]} ({args[1]} - {args[0]}))"
            xt = NAT
        else:
            if rev:
                raise Untranslatable('reversed(..) of something else than a range')
            xs, lt = self.expr(it)
            if lt != REFS:
                raise Untranslatable(f'loop over a {lt}')
            xt = REF
        xs += rev
        pre = self.take_pre()
        carried = []
        for n in ast.walk(ast.Module(body=list(s.body), type_ignores=[])):
            if isinstance(n, ast.Name) and isinstance(n.ctx, ast.Store) and n.id in self.env and n.id not in carried:
                carried.append(n.id)
        if len(carried) > 1:
            raise Untranslatable(f'the loop body assigns several outer locals {carried}')
        env0 = dict(self.env)
        flags0 = dict(self.flags)
        if not carried:
            self.env[x] = xt
            self.loops.append(x)
            try:
                body = self.block(list(s.body), lambda: '(self, some ())')
            finally:
                self.loops.pop()
            self.env = dict(env0)
            r = self.block(rest, kont)
            return self.wrap(pre, f'Py.bindS (Py.forS {xs} self (fun ({lname(x)} : {self.prog.lean_ty(xt)}) self =>\n{indent(body)})) fun self _u =>\n{r}')
        # ONE loop-carried local: its type is the type before the loop, or (a `None` before the loop, a value in the body) Option of it
        c = carried[0]
        if c in self.py_params or self.env[c] in (POISON, BOOL, SLICE) or self.env[c].startswith('cur:'):
            raise Untranslatable(f'the loop body assigns {c}')

        def fit(v, t, ct):
            if t == ct:
                return v
            if is_opt(ct) and t == opt_of(ct):
                return f'(some {v})'
            if is_opt(ct) and t == NONE:
                return 'none'
            return None

        def attempt(ct):
            seen = []

            def end():
                t = self.env[c]
                v = fit(lname(c), t, ct)
                if v is None:
                    seen.append(t)
                    return '(self, none)'
                return f'(self, some {v})'
            self.env = dict(env0)
            self.flags = dict(flags0)
            self.flags.pop(c, None)
            self.env[x] = xt
            self.env[c] = ct
            self.loops.append(x)
            try:
                body = self.block(list(s.body), end)
            finally:
                self.loops.pop()
            return body, seen
        fresh0 = self.fresh
        ct = env0[c]
        body, seen = attempt(ct)
        if seen:
            ts = set(seen)
            if ct == NONE and len(ts) == 1 and not is_opt(seen[0]) and seen[0] not in (NONE, POISON, BOOL, SLICE, SELF):
                ct = OPT(seen[0])
                self.fresh = fresh0
                body, seen = attempt(ct)
            if seen:
                raise Untranslatable(f'the loop-carried local {c} changes its type ({env0[c]} -> {sorted(set(seen))})')
        init = fit(lname(c), env0[c], ct)
        self.env = dict(env0)
        self.flags = dict(flags0)
        self.flags.pop(c, None)
        self.env[c] = ct
        r = self.block(rest, kont)
        lt = self.prog.lean_ty
        return self.wrap(pre, f'Py.bindS (Py.forL {xs} self ({init} : {lt(ct)}) (fun ({lname(x)} : {lt(xt)}) self ({lname(c)} : {lt(ct)}) =>\n{indent(body)})) '
                              f'fun self {lname(c)} =>\n{r}')

    def while_(self, s):
        """`while True:` without break / continue / else: the body ends the method (`return`, a raise) or an iteration; the locals it
        rebinds are loop-carried.  `fuel` bounds the number of iterations (declared; exhausted = raise)."""
        if s.orelse or not (isinstance(s.test, ast.Constant) and s.test.value is True):
            raise Untranslatable('while loop other than `while True:`')
        if self.loops:
            raise Untranslatable('nested while loop')
        carried = []
        for n in ast.walk(ast.Module(body=list(s.body), type_ignores=[])):
            if isinstance(n, ast.Name) and isinstance(n.ctx, ast.Store):
                if n.id not in self.env:
                    raise Untranslatable(f'the loop body binds the new local {n.id}')
                if n.id not in carried:
                    carried.append(n.id)
        for c in carried:
            if c in self.py_params or self.env[c] in (POISON, BOOL, SLICE, NONE) or is_opt(self.env[c]):
                raise Untranslatable(f'the loop body assigns {c}')
        if not carried:
            raise Untranslatable('`while True:` without loop-carried locals')
        env0 = dict(self.env)
        lt = self.prog.lean_ty
        tys = [lt(self.env[c]) for c in carried]
        tup = '(' + ', '.join(lname(c) for c in carried) + ')' if len(carried) > 1 else lname(carried[0])
        ty = ' × '.join(tpar(t) for t in tys)
        if len(carried) == 1:
            lets = f'let {lname(carried[0])} := acc\n'
        else:
            proj = lambda i: 'acc' + ''.join(['.2'] * i) + ('.1' if i < len(carried) - 1 else '')
            lets = ''.join(f'let {lname(c)} := {proj(i)}\n' for i, c in enumerate(carried))

        def end():
            for c in carried:
                if self.env[c] != env0[c]:
                    raise Untranslatable(f'the loop-carried local {c} changes its type ({env0[c]} -> {self.env[c]})')
            return f'(self, some (Sum.inl {tup}))'
        self.uses_fuel = True
        self.loops.append(None)
        self.whiles += 1
        try:
            body = self.block(list(s.body), end)
        finally:
            self.whiles -= 1
            self.loops.pop()
        self.env = dict(env0)
        return f'Py.whileS fuel self ({tup} : {ty}) (fun self (acc : {ty}) =>\n{indent(lets + body)})'

    def fin(self, v):
        """the method returns `v` (inside a `while True`: that leaves the loop)"""
        return f'(self, some (Sum.inr {v}))' if self.whiles else f'(self, some {v})'

    def ret(self, s):
        if s.value is None or (isinstance(s.value, ast.Constant) and s.value.value is None):
            self.ret_types.append(NONE)
            if self.force_ret and self.force_ret.startswith('union:'):
                return self.fin(self.prog.externs["unions"][self.force_ret[6:]]["of"][NONE])
            if self.force_ret and is_opt(self.force_ret):
                return self.fin('none')
            return self.fin('()')
        if is_self(s.value) and not self.value_ty:
            self.ret_types.append(SELF)
            return self.fin('()')
        v, t = self.stored(self.expr(s.value))
        pre = self.take_pre()
        self.ret_types.append(t)
        if t == SELF or (t == NONE and not self.force_ret):
            return self.wrap(pre, self.fin('()'))
        if self.force_ret and self.force_ret.startswith('union:') and t != self.force_ret:
            inj = self.prog.externs['unions'][self.force_ret[6:]]['of'].get(t)
            if inj is None:
                raise Untranslatable(f'return of a {t} in a method returning {self.force_ret}')
            return self.wrap(pre, self.fin(par(inj if t == NONE else inj + " " + par(v))))
        if self.force_ret and t != self.force_ret:
            if (t, self.force_ret) == (NAT, INT):
                v = f'(({v} : Nat) : Int)'
            elif is_opt(self.force_ret) and t == NONE:
                v = 'none'
            elif is_opt(self.force_ret) and t == opt_of(self.force_ret):
                v = f'(some {par(v)})'
            else:
                raise Untranslatable(f'returns of different types ({t}, {self.force_ret})')
        return self.wrap(pre, self.fin(par(v)))

    def union_of(self, kinds):
        for name, u in (self.prog.externs.get('unions') or {}).items():
            if len(kinds) > 1 and set(kinds) <= set(u['of']) | {f'union:{name}'}:
                return f'union:{name}'
        return None

    def end(self):
        self.ret_types.append(NONE)
        return '(self, some ())'

    def translate(self):
        body = self.block(list(self.fn.body), self.end)
        kinds = set(self.ret_types)
        retry = None
        if kinds <= {SELF}:
            rt = SELF
        elif kinds <= {NONE}:
            rt = NONE
        elif len(kinds) == 1:
            rt = kinds.pop()
        elif kinds == {NAT, INT}:
            rt = INT
            if self.force_ret != INT:
                retry = INT
        elif self.union_of(kinds) is not None:
            rt = self.union_of(kinds)
            if self.force_ret != rt:
                retry = rt
        elif len(kinds) == 2 and NONE in kinds and SELF not in kinds and not any(is_opt(k) for k in kinds):
            rt = OPT((kinds - {NONE}).pop())
            if self.force_ret != rt:
                retry = rt
        else:
            raise Untranslatable(f'{self.fn.name}: returns of different kinds {sorted(kinds)}')
        ps = ' '.join(f'({n} : {self.prog.lean_ty(t)})' for n, t in self.params)
        st = self.state_ty()
        doc = pybytes.doc_of(self.fn, f'{self.decl.get("src", self.prog.src)}: {self.cls}.{self.fn.name}')
        mk = f'(mk : {self.prog.externs["mk"]}) ' if self.uses_mk else ''
        if self.uses_view:
            mk += f'(view : {self.prog.externs["view"]}) '
        if self.uses_fuel:
            mk += '(fuel : Nat) '
        if self.uses_conv:
            mk += f'({self.uses_conv[0]} : {self.uses_conv[1]}) '
        text = f'{doc}def {self.lean} {mk}{ps + " " if ps else ""}(self : {st}) : {st} × Option {tpar(self.prog.lean_ty(rt))} :=\n{indent(body)}\n'
        return dict(lean=self.lean, params=self.params, ret=rt, text=text, retry=retry, mk=self.uses_mk, view=self.uses_view, fuel=self.uses_fuel,
                    conv=self.uses_conv, mutates=self.mutates)
