"""Regenerates lean/TonVerif/Generated/AdnlSrc.lean from the current source of pytoniq_core/crypto/ciphers.py (Client, Server,
AdnlChannel: key derivation, the three-way id comparison, key / iv slicing, encrypt / decrypt framing, get_signature),
crypto/signature.py (verify_sign, sign_message) and crypto/keys.py (is_basic_seed, mnemonic_to_entropy, mnemonic_is_valid,
mnemonic_to_seed, mnemonic_to_private_key, mnemonic_to_wallet_key) with the glue-code translator pyprims.py; the cryptographic
primitives are the fields of `Model.Adnl.Prims` (parameters).  Validates the translation against CPython running the real source
with COMPUTABLE TOY PRIMITIVES substituted on both sides, and evaluates regenerated vs hand model in Lean (search hook).

Theorems about the regenerated definitions: Proofs/SrcAdnl.lean (`*_eq`: for ALL inputs and ALL primitives the regenerated
function equals the function of Model/Adnl.lean), referenced by Properties/C20.lean `c20_src_*`.
"""
import ast
import hashlib
import importlib.util
import os
import random
import re
import signal
import subprocess

from . import pyprims, pyobj, pybytes, pyrand
from .pyprims import Prim, PProgram, OPQ, PAIR, WORDS, MODULE
from .pyrand import RProgram, FLOAT
from .pyobj import NAT, INT, BOOL, BYTES, NONE, OBJ
from .pyexpr import Untranslatable
from .arith import write_if_changed, _lake_build
from ..paths import REPO, LEAN

OUT = 'TonVerif/Generated/AdnlSrc.lean'
NS = 'TonVerif.Generated.AdnlSrc'
FILES = {'ciphers': 'pytoniq_core/crypto/ciphers.py', 'signature': 'pytoniq_core/crypto/signature.py', 'keys': 'pytoniq_core/crypto/keys.py'}

# ---- the declared interface (trusted; what can be checked against the source is checked in `program_*`) -------------------------
EDPRIV, EDPUB, XPRIV, XPUB, VKEY, CIPHER, ANY, ENCODER = (OPQ(n) for n in ('EdPriv', 'EdPub', 'XPriv', 'XPub', 'VKey', 'Cipher', 'Any', 'Encoder'))
# an opaque object is represented by: a key object = the bytes `.encode()` returns; a cipher object = (key, initial counter)
OPAQUE = {'EdPriv': 'Bytes', 'EdPub': 'Bytes', 'XPriv': 'Bytes', 'XPub': 'Bytes', 'VKey': 'Bytes', 'Cipher': 'Bytes × Bytes', 'Any': 'Unit', 'Encoder': 'Unit'}
B = BYTES

CIPHERS_PRIMS = [
    Prim('hashlib.sha256(__x__).digest()', {'x': B}, '(P.H {x})', B),
    Prim('x25519.scalar_mult(__a__, __b__)', {'a': B, 'b': B}, '(P.dh {a} {b})', B),
    Prim('ed25519Private(__s__)', {'s': B}, '{s}', EDPRIV),
    Prim('ed25519Private(seed=__s__)', {'s': B}, '{s}', EDPRIV),
    Prim('ed25519Public(__s__)', {'s': B}, '{s}', EDPUB),
    Prim('__k__.verify_key', {'k': EDPRIV}, '(P.edPub {k})', EDPUB),
    Prim('__k__.to_curve25519_private_key()', {'k': EDPRIV}, '(P.edToXPriv {k})', XPRIV),
    Prim('__k__.public_key', {'k': XPRIV}, '(P.xPub {k})', XPUB),
    Prim('__k__.to_curve25519_public_key()', {'k': EDPUB}, '(P.edToXPub {k})', XPUB),
    Prim('__k__.encode()', {'k': (EDPRIV, EDPUB, XPRIV, XPUB)}, '{k}', B),
    Prim('__k__.sign(__m__)', {'k': EDPRIV, 'm': B}, '(P.cryptoSign {m} (P.keypair {k}).2)', B),
    Prim("AES.new(__k__, AES.MODE_CTR, initial_value=__iv__, nonce=b'')", {'k': B, 'iv': B}, 'Py.aesCtrNew? {k} {iv}', CIPHER, raises=True),
    Prim('__c__.encrypt(__d__)', {'c': CIPHER, 'd': B}, '(P.ctr ({c}).1 ({c}).2 {d})', B),
    Prim('__c__.decrypt(__d__)', {'c': CIPHER, 'd': B}, '(P.ctr ({c}).1 ({c}).2 {d})', B),
]
# where the names used by the patterns must come from (module, imported name) / plain `import x`
CIPHERS_IMPORTS = {'ed25519Private': ('nacl.signing', 'SigningKey'), 'ed25519Public': ('nacl.signing', 'VerifyKey'), 'AES': ('Cryptodome.Cipher', 'AES')}
CIPHERS_MODULES = ['hashlib', 'x25519']
KEY_ATTRS = {'ed25519_private': EDPRIV, 'ed25519_public': EDPUB, 'x25519_private': XPRIV, 'x25519_public': XPUB}
CLIENT = dict(lean='Client', attrs=dict(KEY_ATTRS), fields={'ed25519_private': 'edPriv', 'ed25519_public': 'edPub', 'x25519_private': 'xPriv', 'x25519_public': 'xPub'})
SERVER = dict(lean='Server', attrs={'host': ANY, 'port': INT, 'ed25519_public': EDPUB, 'x25519_public': XPUB},
              fields={'ed25519_public': 'edPub', 'x25519_public': 'xPub'})
CHANNEL = dict(lean='Channel', attrs={'client_channel': OBJ('Client'), 'server_channel': OBJ('Server'), 'channel_shared': B, 'enc_key': B, 'dec_key': B,
                                      'client_aes_key_id': B, 'server_aes_key_id': B},
               fields={'channel_shared': 'shared', 'enc_key': 'encKey', 'dec_key': 'decKey', 'client_aes_key_id': 'clientAesKeyId',
                       'server_aes_key_id': 'serverAesKeyId'})
CRYPTO = dict(lean='Client', attrs=dict(KEY_ATTRS), fields=dict(CLIENT['fields']))
# constructors: (class, argument types, result record = expressions over the final self)
CTORS = [
    ('Client', [B], [('edPriv', 'self.ed25519_private', EDPRIV), ('edPub', 'self.ed25519_public', EDPUB), ('xPriv', 'self.x25519_private', XPRIV),
                     ('xPub', 'self.x25519_public', XPUB)]),
    ('Server', [ANY, INT, B], [('edPub', 'self.ed25519_public', EDPUB), ('xPub', 'self.x25519_public', XPUB)]),
    ('AdnlChannel', [OBJ('Client'), OBJ('Server'), B, B],
     [('shared', 'self.channel_shared', B), ('encKey', 'self.enc_key', B), ('decKey', 'self.dec_key', B),
      ('clientAesKeyId', 'self.client_aes_key_id', B), ('serverAesKeyId', 'self.server_aes_key_id', B)]),
]
# methods: (class, method, argument types); each also gets a wrapper `<Class>_<m>_obj` taking the Lean structure of the object
METHODS = [('AdnlChannel', 'encrypt', [B]), ('AdnlChannel', 'decrypt', [B, B]), ('Client', 'sign', [B]), ('Client', 'get_key_id', []),
           ('Client', 'get_aes_key_id', [])]

SIGNATURE_PRIMS = [
    Prim('VerifyKey(__k__)', {'k': B}, '{k}', VKEY),
    Prim('crypto_sign(__m__, __k__)', {'m': B, 'k': B}, '(P.cryptoSign {m} {k})', B),
    Prim('nacl.encoding.RawEncoder', {}, '()', ENCODER),
    Prim('__e__.encode(__x__)', {'e': ENCODER, 'x': B}, '{x}', B),
    Prim('SignedMessage._from_parts(__a__, __b__, __c__).signature', {'a': B, 'b': B, 'c': B}, '{a}', B),
]
SIGNATURE_TESTS = [(Prim('__k__.verify(__m__, __s__)', {'k': VKEY, 'm': B, 's': B}, '(P.verify {k} {m} {s} = true)', BOOL), 'exc.BadSignatureError')]
SIGNATURE_IMPORTS = {'VerifyKey': ('nacl.signing', 'VerifyKey'), 'exc': ('nacl.signing', 'exc'), 'SignedMessage': ('nacl.signing', 'SignedMessage'),
                     'crypto_sign': ('nacl.bindings', 'crypto_sign'), 'crypto_sign_BYTES': ('nacl.bindings', 'crypto_sign_BYTES')}
SIGNATURE_MODULES = ['nacl.encoding']
SIGNATURE_CONSTS = {'crypto_sign_BYTES': 64}           # checked against nacl.bindings at validation time
SIGNATURE_FUNCS = [('verify_sign', [B, B, B]), ('sign_message', [B, B, ENCODER])]

KEYS_PRIMS = [
    Prim('hmac.new(__k__, __m__, hashlib.sha512).digest()', {'k': B, 'm': B}, '(P.hmac512 {k} {m})', B),
    Prim("hashlib.pbkdf2_hmac('sha512', __p__, __s__, __n__)", {'p': B, 's': B, 'n': NAT}, '(P.pbkdf2 {p} {s} {n})', B),
    Prim("' '.join(__w__).encode('utf-8')", {'w': WORDS}, '(P.joinWords {w})', B),
    Prim('crypto_sign_seed_keypair(__s__)', {'s': B}, '(P.keypair {s})', PAIR),
]
KEYS_IMPORTS = {'crypto_sign_seed_keypair': ('nacl.bindings', 'crypto_sign_seed_keypair')}
KEYS_MODULES = ['hashlib', 'hmac', 'math']
KEYS_FUNCS = [('is_basic_seed', [B]), ('mnemonic_to_entropy', [WORDS, NONE]), ('mnemonic_is_valid', [WORDS]), ('mnemonic_to_seed', [WORDS, B, NONE]),
              ('mnemonic_to_private_key', [WORDS, NONE]), ('mnemonic_to_wallet_key', [WORDS, NONE])]

# the two `while True` functions of keys.py (pyrand.py): the random source and the float arithmetic are parameters
LOOP_PRIMS = KEYS_PRIMS + [
    # functions of the same file that the 'keys' group regenerates in the same run (checked: translated there, same defaults)
    Prim('is_basic_seed(__e__)', {'e': B}, 'is_basic_seed P {e}', BOOL, raises=True),
    Prim('mnemonic_to_entropy(__w__)', {'w': WORDS}, 'mnemonic_to_entropy P {w} ()', B, raises=True),
    # Python float arithmetic = the declared interface Py.FloatIf (PyRand.lean)
    Prim('math.ceil(math.log2(__x__))', {'x': (NAT, INT)}, 'Fl.ceilLog2? {x}', INT, raises=True),
    Prim('math.pow(__a__, __b__)', {'a': (NAT, INT), 'b': (NAT, INT)}, '(Fl.pow (Fl.ofInt {a}) (Fl.ofInt {b}))', FLOAT),
    Prim('int(__x__)', {'x': FLOAT}, '(Fl.trunc {x})', INT),
]
LOOP_STREAM = 'os.urandom(__n__)'
LOOP_GLOBALS = {'words': WORDS}
LOOP_LOCALS = {'mnemonic_new': {'mnemo_arr': WORDS}}
LOOP_PARAMS = {'get_secure_random_number': [INT, INT]}
LOOP_FUNCS = [('get_secure_random_number', [INT, INT]), ('mnemonic_new', [NAT, NONE])]

HEAD = ['/- GENERATED by harness/translate/adnlsrc.py (pyprims.py) from the current source of',
        '   ' + ', '.join(FILES.values()) + '; do not edit.',
        '   `P` = the cryptographic primitives (Model.Adnl.Prims: parameters), `none` = the Python code raises.  A key object is the',
        '   byte string its `.encode()` returns, a cipher object the pair (key, initial counter); `Py.bytesLt` = `<` on bytes,',
        '   `Py.aesCtrNew?` = the argument check of `AES.new(key, AES.MODE_CTR, initial_value=iv, nonce=b\'\')` (PyCrypto.lean). -/',
        'import TonVerif.PyInt', 'import TonVerif.PyBytes', 'import TonVerif.PyObj', 'import TonVerif.PyCrypto', 'import TonVerif.PyRand',
        'import TonVerif.Model.Adnl',
        'set_option linter.unusedVariables false', f'namespace {NS}', 'open TonVerif TonVerif.Model.Adnl', '']


def _tree(file):
    return ast.parse(open(os.path.join(REPO, file)).read())


def _rebound(tree, name):
    """name is assigned / deleted / defined somewhere in the module (besides its import)"""
    for n in ast.walk(tree):
        if isinstance(n, ast.Name) and n.id == name and isinstance(n.ctx, (ast.Store, ast.Del)):
            return True
        if isinstance(n, (ast.FunctionDef, ast.ClassDef)) and n.name == name:
            return True
        if isinstance(n, ast.arg) and n.arg == name:
            return True
    return False


def _check_imports(tree, file, imports, modules):
    for name, (mod, orig) in imports.items():
        hits = [(n, a) for n in tree.body if isinstance(n, ast.ImportFrom) for a in n.names if (a.asname or a.name) == name]
        if len(hits) != 1 or hits[0][0].module != mod or hits[0][0].level != 0 or hits[0][1].name != orig or _rebound(tree, name):
            raise Untranslatable(f'{name} is not (only) `from {mod} import {orig}` in {file}')
    for m in modules:
        top = m.split('.')[0]
        hits = [a for n in tree.body if isinstance(n, ast.Import) for a in n.names if a.name == m and a.asname is None]
        if len(hits) != 1 or _rebound(tree, top):
            raise Untranslatable(f'{m} is not plainly imported in {file}')
        others = [a for n in tree.body if isinstance(n, (ast.Import, ast.ImportFrom)) for a in n.names
                  if (a.asname or a.name.split('.')[0]) == top and a not in hits and not (isinstance(n, ast.Import) and a.name.split('.')[0] == top and a.asname is None)]
        if others:
            raise Untranslatable(f'{top} is imported in another way in {file}')


def _functions(tree):
    out = {}
    for n in tree.body:
        if isinstance(n, ast.FunctionDef):
            if n.name in out or n.decorator_list:
                raise Untranslatable(f'function {n.name} is defined twice / decorated')
            out[n.name] = n
    for n in ast.walk(tree):          # a function rebound by assignment
        if isinstance(n, ast.Name) and isinstance(n.ctx, (ast.Store, ast.Del)) and n.id in out:
            raise Untranslatable(f'function {n.id} is rebound')
    return out


def _int_consts(tree):
    out, seen = {}, {}
    for n in ast.walk(tree):
        if isinstance(n, ast.Name) and isinstance(n.ctx, (ast.Store, ast.Del)):
            seen[n.id] = seen.get(n.id, 0) + 1
    for n in tree.body:
        if (isinstance(n, ast.Assign) and len(n.targets) == 1 and isinstance(n.targets[0], ast.Name) and isinstance(n.value, ast.Constant)
                and isinstance(n.value.value, (int, bytes)) and not isinstance(n.value.value, bool) and seen.get(n.targets[0].id) == 1):
            out[n.targets[0].id] = n.value.value
    return out


def _class(tree, name, file):
    cs = [n for n in tree.body if isinstance(n, ast.ClassDef) and n.name == name]
    if len(cs) != 1:
        raise Untranslatable(f'class {name} not found in {file}')
    c = cs[0]
    if c.keywords or c.decorator_list:
        raise Untranslatable(f'class {name} shape')
    for n in c.body:
        if isinstance(n, ast.FunctionDef) and n.name in ('__getattr__', '__getattribute__', '__setattr__', '__new__', '__init_subclass__', '__slots__'):
            raise Untranslatable(f'{name} defines {n.name}')
    return c


def translate_ciphers():
    file = FILES['ciphers']
    tree = _tree(file)
    _check_imports(tree, file, CIPHERS_IMPORTS, CIPHERS_MODULES)
    nodes = {n: _class(tree, n, file) for n in ('Crypto', 'Client', 'Server', 'AdnlChannel')}
    bases = {n: [ast.unparse(b) for b in nodes[n].bases] for n in nodes}
    if bases != {'Crypto': [], 'Client': ['Crypto'], 'Server': ['Crypto'], 'AdnlChannel': []}:
        raise Untranslatable(f'class hierarchy of {file}: {bases}')
    classes = {
        'Crypto': dict(kind='object', node=nodes['Crypto'], derived={}, base=None, **CRYPTO),
        'Client': dict(kind='object', node=nodes['Client'], derived={}, base='Crypto', **CLIENT),
        'Server': dict(kind='object', node=nodes['Server'], derived={}, base='Crypto', **SERVER),
        'AdnlChannel': dict(kind='object', node=nodes['AdnlChannel'], derived={}, base=None, **CHANNEL),
    }
    # the attributes of a constructed object are what its constructor left: no other method assigns them
    for cname, c in nodes.items():
        for fn in c.body:
            if isinstance(fn, ast.FunctionDef) and fn.name != '__init__':
                for n in ast.walk(fn):
                    if isinstance(n, ast.Attribute) and isinstance(n.ctx, (ast.Store, ast.Del)):
                        raise Untranslatable(f'{cname}.{fn.name} assigns an attribute')
    for n in ast.walk(tree):          # nobody outside assigns attributes of these objects either
        if isinstance(n, ast.Attribute) and isinstance(n.ctx, (ast.Store, ast.Del)) and not pyobj.is_self(n.value):
            raise Untranslatable(f'attribute assignment {ast.unparse(n)[:40]}')
    prog = PProgram(classes, _functions(tree), OPAQUE, CIPHERS_PRIMS, consts=_int_consts(tree), src=file)
    wrappers = []
    for cname, argt, result in CTORS:
        prog.method(cname, '__init__', argt, ctor=result, ctor_struct=classes[cname]['lean'])
    for cname, m, argt in METHODS:
        info = prog.method(cname, m, argt)
        wrappers.append(_wrapper(classes[cname], cname, m, info, prog))
    return list(prog.defs) + wrappers


def _wrapper(decl, cname, m, info, prog):
    """`<Class>_<m>_obj P self args` = the method applied to the attribute values of the constructed object `self`"""
    ps, actual = [], []
    for kind, py, ln, t in info['sig']:
        if kind == 'H':
            actual.append('P')
        elif kind == 'arg':
            ps.append(f'({ln} : {prog.lean_ty(t)})')
            actual.append(ln)
        else:
            fld = decl['fields'].get(py)
            if fld is None:
                raise Untranslatable(f'{cname}.{m} reads self.{py}, which the structure {decl["lean"]} does not carry')
            actual.append(f'self.{fld}')
    rt = prog.lean_ty(info['ret']) if info['ret'] else 'Unit'
    name = f'{info["lean"]}_obj'
    text = (f'/-- `{cname}.{m}` on a constructed object: its attributes read from the structure `{decl["lean"]}` -/\n'
            f'def {name} {prog.env_decl} (self : {decl["lean"]}) {" ".join(ps)} : Option ({rt}) :=\n  {info["lean"]} {" ".join(actual)}\n')
    return name, text


def translate_signature():
    file = FILES['signature']
    tree = _tree(file)
    _check_imports(tree, file, SIGNATURE_IMPORTS, SIGNATURE_MODULES)
    consts = dict(_int_consts(tree))
    consts.update(SIGNATURE_CONSTS)
    prog = PProgram({}, _functions(tree), OPAQUE, SIGNATURE_PRIMS, tests=SIGNATURE_TESTS, consts=consts, src=file)
    for f, argt in SIGNATURE_FUNCS:
        prog.function(f, argt)
    return list(prog.defs)


def translate_keys():
    file = FILES['keys']
    tree = _tree(file)
    _check_imports(tree, file, KEYS_IMPORTS, KEYS_MODULES)
    prog = PProgram({}, _functions(tree), OPAQUE, KEYS_PRIMS, consts=_int_consts(tree), src=file)
    for f, argt in KEYS_FUNCS:
        prog.function(f, argt)
    return list(prog.defs)


def _check_word_list(tree, name):
    """`name` is bound exactly once, at module level, to a list literal of str constants; it is never rebound, mutated, deleted or
    declared global: reading it as an (arbitrary) immutable list parameter is then sound"""
    hits = [n for n in tree.body if isinstance(n, ast.Assign) and len(n.targets) == 1 and isinstance(n.targets[0], ast.Name) and n.targets[0].id == name]
    if len(hits) != 1 or not isinstance(hits[0].value, ast.List) or not all(isinstance(x, ast.Constant) and isinstance(x.value, str) for x in hits[0].value.elts):
        raise Untranslatable(f'{name} is not bound once to a list of string literals')
    for n in ast.walk(tree):
        if isinstance(n, ast.Name) and n.id == name and isinstance(n.ctx, (ast.Store, ast.Del)) and n is not hits[0].targets[0]:
            raise Untranslatable(f'{name} is rebound')
        if isinstance(n, (ast.Global, ast.Nonlocal)) and name in n.names:
            raise Untranslatable(f'{name} is declared global')
        if isinstance(n, (ast.arg,)) and n.arg == name or isinstance(n, (ast.FunctionDef, ast.ClassDef)) and n.name == name:
            raise Untranslatable(f'{name} is shadowed')
        if isinstance(n, ast.Attribute) and isinstance(n.value, ast.Name) and n.value.id == name and n.attr in pyobj.MUTATORS:
            raise Untranslatable(f'{name}.{n.attr}')
        if isinstance(n, ast.Subscript) and isinstance(n.value, ast.Name) and n.value.id == name and isinstance(n.ctx, (ast.Store, ast.Del)):
            raise Untranslatable(f'{name}[..] is assigned')
        if isinstance(n, ast.AugAssign) and isinstance(n.target, ast.Name) and n.target.id == name:
            raise Untranslatable(f'{name} is mutated')


def translate_keysloop():
    file = FILES['keys']
    tree = _tree(file)
    _check_imports(tree, file, KEYS_IMPORTS, KEYS_MODULES + ['os'])
    fns = _functions(tree)
    for g in LOOP_GLOBALS:
        _check_word_list(tree, g)
    # the two callees read as their regenerated definitions of the 'keys' group: same parameter lists as declared there
    e = fns.get('mnemonic_to_entropy')
    if e is None or len(e.args.args) != 2 or len(e.args.defaults) != 1 or not (isinstance(e.args.defaults[0], ast.Constant) and e.args.defaults[0].value is None):
        raise Untranslatable('mnemonic_to_entropy(words, password=None) has another parameter list')
    if 'is_basic_seed' not in fns or len(fns['is_basic_seed'].args.args) != 1 or fns['is_basic_seed'].args.defaults:
        raise Untranslatable('is_basic_seed(entropy) has another parameter list')
    translate_keys()                                       # raises when the callees are outside the subset
    prog = RProgram(fns, OPAQUE, LOOP_PRIMS, LOOP_STREAM, globals_=LOOP_GLOBALS, local_types=LOOP_LOCALS, params=LOOP_PARAMS,
                    consts=_int_consts(tree), src=file)
    for f, argt in LOOP_FUNCS:
        prog.function(f, argt)
    return list(prog.defs)


GROUPS = {'ciphers': translate_ciphers, 'signature': translate_signature, 'keys': translate_keys, 'keysloop': translate_keysloop}


def _groups(text):
    return {m.group(1): m.group(2) for m in re.finditer(r'-- GROUP (\w+)\n(.*?)-- ENDGROUP \1\n', text or '', re.S)}


def committed_text():
    try:
        r = subprocess.run(['git', '-C', os.path.dirname(LEAN), 'show', f'HEAD:lean/{OUT}'], capture_output=True, text=True, timeout=20)
        if r.returncode == 0 and r.stdout.startswith('/- GENERATED') and f'namespace {NS}' in r.stdout:
            return r.stdout
    except Exception:
        pass
    return None


def generate(old=None, force_old=None):
    """-> (text, info, lost).  One block per source file; a file outside the subset keeps its previous (committed) block."""
    path = os.path.join(LEAN, OUT)
    if old is None:
        try:
            old = open(path).read()
        except FileNotFoundError:
            old = ''
    keep = None
    out = list(HEAD)
    info, lost = {}, {}
    for g, fn in GROUPS.items():
        try:
            if force_old and g in force_old:
                raise Untranslatable(force_old[g])
            defs = fn()
            block = ''.join(f'-- BEGIN {name}\n{text.rstrip(chr(10))}\n-- END {name}\n\n' for name, text in defs)
            info[g] = [n for n, _ in defs]
        except (Untranslatable, SyntaxError, OSError, RecursionError, ValueError) as e:
            if keep is None:
                keep = _groups(committed_text() or '') or _groups(old)
                for k, v in _groups(old).items():
                    keep.setdefault(k, v)
            if g not in keep:
                raise Untranslatable(f'{g}: {e} (and no previous translation to keep)')
            block = keep[g]
            lost[g] = f'{type(e).__name__}: {e}'
        out += [f'-- GROUP {g}', block.rstrip('\n'), f'-- ENDGROUP {g}', '']
    out.append(f'end {NS}')
    return '\n'.join(out) + '\n', info, lost



# ---------------------------------------------------------------------------- toy primitives (computable on both sides)

M64 = 1 << 64


def mix(tag, parts, n):
    s = tag + 1
    for p in parts:
        s = (s * 1000003 + len(p) + 17) % M64
        for b in p:
            s = (s * 257 + b + 1) % M64
    out = []
    for _ in range(n):
        s = (s * 6364136223846793005 + 1442695040888963407) % M64
        out.append((s >> 33) % 256)
    return bytes(out)


class Toy:
    """the toy instance of Model.Adnl.Prims used for validation / search (mirrors `toyP` of LEAN_EVAL); it has NO algebraic law:
    a translation that swaps two arguments or applies another primitive computes something else"""
    H = staticmethod(lambda x: mix(1, [x], 32))
    dh = staticmethod(lambda a, b: mix(2, [a, b], 32))
    ctr = staticmethod(lambda k, iv, d: bytes(x ^ y for x, y in zip(d, mix(3, [k, iv], len(d)))))
    edToXPriv = staticmethod(lambda s: mix(4, [s], 32))
    xPub = staticmethod(lambda x: mix(5, [x], 32))
    edPub = staticmethod(lambda s: mix(6, [s], 32))
    edToXPub = staticmethod(lambda p: mix(7, [p], 32))
    keypair = staticmethod(lambda s: (mix(6, [s], 32), s + mix(6, [s], 32)))
    cryptoSign = staticmethod(lambda m, sk: mix(8, [m, sk], 64) + m)
    verify = staticmethod(lambda pk, m, sig: mix(9, [pk, m, sig], 1)[0] % 2 == 0)
    hmac512 = staticmethod(lambda k, m: mix(10, [k, m], 64))

    @staticmethod
    def pbkdf2(p, s, n):
        if p[:1] and p[0] % 7 == 0:
            return b''                                   # exercises the IndexError path of `seed[0]`
        o = mix(11, [p, s, n.to_bytes(4, 'big')], 64)
        return bytes([o[0] % 3]) + o[1:]


TOY_LEAN = """def M64 : Nat := 18446744073709551616
def mix (tag : Nat) (parts : List Bytes) (n : Nat) : Bytes :=
  let s0 := parts.foldl (fun s p => p.foldl (fun s b => (s * 257 + b + 1) % M64) ((s * 1000003 + p.length + 17) % M64)) (tag + 1)
  ((List.range n).foldl (fun (acc : Nat × Bytes) _ =>
    let s := (acc.1 * 6364136223846793005 + 1442695040888963407) % M64
    (s, acc.2 ++ [(s >>> 33) % 256])) (s0, [])).2
def toyP : Prims Nat where
  H := fun x => mix 1 [x] 32
  dh := fun a b => mix 2 [a, b] 32
  ctr := fun k iv d => List.zipWith (· ^^^ ·) d (mix 3 [k, iv] d.length)
  edToXPriv := fun s => mix 4 [s] 32
  xPub := fun x => mix 5 [x] 32
  edPub := fun s => mix 6 [s] 32
  edToXPub := fun p => mix 7 [p] 32
  keypair := fun s => (mix 6 [s] 32, s ++ mix 6 [s] 32)
  cryptoSign := fun m sk => mix 8 [m, sk] 64 ++ m
  verify := fun pk m sig => (mix 9 [pk, m, sig] 1).head? |>.map (· % 2 == 0) |>.getD false
  hmac512 := fun k m => mix 10 [k, m] 64
  pbkdf2 := fun p s n => match p with
    | b :: _ => if b % 7 = 0 then [] else match mix 11 [p, s, natToBE 4 n] 64 with
      | o :: os => (o % 3) :: os
      | [] => []
    | [] => match mix 11 [p, s, natToBE 4 n] 64 with
      | o :: os => (o % 3) :: os
      | [] => []
  joinWords := fun ws => (" ".intercalate (ws.map toString)).toUTF8.toList.map UInt8.toNat
"""


class _Obj:
    def __init__(self, **kw):
        self.__dict__.update(kw)


def _load(name, file):
    spec = importlib.util.spec_from_file_location(f'_adnlsrc_{name}_{os.getpid()}', os.path.join(REPO, file))
    mod = importlib.util.module_from_spec(spec)
    spec.loader.exec_module(mod)
    return mod


def toy_modules():
    """private copies of the three source files with every declared primitive replaced by its toy (module globals are patched
    after import; the code under test is untouched)"""
    T = Toy

    class XPub:
        def __init__(self, b): self.b = bytes(b)
        def encode(self): return self.b

    class XPriv(XPub):
        @property
        def public_key(self): return XPub(T.xPub(self.b))

    class EdPub(XPub):
        def to_curve25519_public_key(self): return XPub(T.edToXPub(self.b))

    class EdPriv(XPub):
        def __init__(self, seed): self.b = bytes(seed)
        @property
        def verify_key(self): return EdPub(T.edPub(self.b))
        def to_curve25519_private_key(self): return XPriv(T.edToXPriv(self.b))
        def sign(self, m): return T.cryptoSign(bytes(m), T.keypair(self.b)[1])

    class Cipher:
        def __init__(self, k, iv): self.k, self.iv = k, iv
        def encrypt(self, d): return T.ctr(self.k, self.iv, bytes(d))
        decrypt = encrypt

    real_ctr = __import__('Cryptodome.Cipher.AES', fromlist=['MODE_CTR']).MODE_CTR

    def aes_new(key, mode, *, initial_value, nonce):
        if mode != real_ctr or nonce != b'':
            raise AssertionError('AES.new call shape outside the declared primitive')
        if len(key) not in (16, 24, 32) or len(initial_value) != 16:
            raise ValueError('declared argument check of AES.new')
        return Cipher(bytes(key), bytes(initial_value))

    C = _load('ciphers', FILES['ciphers'])
    C.hashlib = _Obj(sha256=lambda x=b'': _Obj(digest=lambda: T.H(bytes(x))))
    C.x25519 = _Obj(scalar_mult=lambda a, b: T.dh(bytes(a), bytes(b)))
    C.ed25519Private, C.ed25519Public = EdPriv, EdPub
    C.AES = _Obj(new=aes_new, MODE_CTR=real_ctr)
    S = _load('signature', FILES['signature'])

    class VK:
        def __init__(self, pk): self.pk = bytes(pk)
        def verify(self, m, s):
            if not T.verify(self.pk, bytes(m), bytes(s)):
                raise S.exc.BadSignatureError('toy')
            return bytes(m)
    S.VerifyKey = VK
    S.crypto_sign = lambda m, sk: T.cryptoSign(bytes(m), bytes(sk))
    K = _load('keys', FILES['keys'])
    sha512 = object()

    def hmac_new(k, m, d):
        if d is not sha512:
            raise AssertionError('hmac.new digest outside the declared primitive')
        return _Obj(digest=lambda: T.hmac512(bytes(k), bytes(m)))

    def pbkdf2_hmac(name, p, s, n):
        if name != 'sha512':
            raise AssertionError('pbkdf2_hmac hash outside the declared primitive')
        return T.pbkdf2(bytes(p), bytes(s), n)
    K.hashlib = _Obj(sha512=sha512, pbkdf2_hmac=pbkdf2_hmac)
    K.hmac = _Obj(new=hmac_new)
    K.crypto_sign_seed_keypair = lambda s: T.keypair(bytes(s))
    return C, S, K


def hx(b):
    return bytes(b).hex() or '-'


def _try(f):
    try:
        return f()
    except Exception:
        return None


def _oh(v):
    return 'err' if v is None else hx(v)


def py_case(mods, case):
    """what CPython computes when it runs the source (with the toy primitives) on one case; same format as LEAN_EVAL `run`"""
    C, S, K = mods
    kind, a = case[0], case[1:]
    if kind == 'chan':
        sa, sb, ida, idb, m, sm = a

        def build():
            ca, cb = C.Client(sa), C.Client(sb)
            return ca, C.AdnlChannel(ca, C.Server('', 0, cb.ed25519_public.encode()), ida, idb)
        r = _try(build)
        if r is None:
            return 'err'
        ca, ch = r
        return ' '.join([hx(ca.ed25519_private.encode()), hx(ca.ed25519_public.encode()), hx(ca.x25519_private.encode()), hx(ca.x25519_public.encode()),
                         hx(ch.server_channel.ed25519_public.encode()), hx(ch.server_channel.x25519_public.encode()),
                         hx(ch.channel_shared), hx(ch.enc_key), hx(ch.dec_key), hx(ch.client_aes_key_id), hx(ch.server_aes_key_id),
                         _oh(_try(lambda: ch.encrypt(m))), _oh(_try(lambda: ch.decrypt(m, sm))), _oh(_try(lambda: ca.sign(m))),
                         _oh(_try(lambda: ca.get_key_id())), _oh(_try(lambda: ca.get_aes_key_id()))])
    if kind == 'cipher':
        c = _try(lambda: C.create_aes_ctr_sipher_from_key_n_data(a[0], a[1]))
        return 'err' if c is None else f'{hx(c.k)}:{hx(c.iv)}'
    if kind == 'sign':
        return _oh(_try(lambda: S.sign_message(a[0], a[1])))
    if kind == 'verify':
        v = _try(lambda: S.verify_sign(a[0], a[1], a[2]))
        return 'err' if v is None else ('1' if v is True else '0' if v is False else 'other')
    if kind == 'mn':
        ws = [str(w) for w in a[0]]
        salt = a[1]
        v = _try(lambda: K.mnemonic_is_valid(list(ws)))
        b = _try(lambda: K.is_basic_seed(K.mnemonic_to_entropy(list(ws))))

        def pair(p):
            return 'err' if p is None else f'{hx(p[0])}:{hx(p[1])}'
        return ' '.join(['err' if v is None else ('1' if v is True else '0' if v is False else 'other'),
                         'err' if b is None else ('1' if b is True else '0' if b is False else 'other'),
                         _oh(_try(lambda: K.mnemonic_to_entropy(list(ws)))), _oh(_try(lambda: K.mnemonic_to_seed(list(ws), salt))),
                         pair(_try(lambda: K.mnemonic_to_private_key(list(ws)))), pair(_try(lambda: K.mnemonic_to_wallet_key(list(ws))))])
    if kind in ('rn', 'mnew'):
        stream = list(a[2])
        fake = _StreamOs(stream)
        saved = K.os, K.words
        K.os = fake

        def _stop(*_):
            raise TimeoutError('the code under test did not return')
        # a loop of the (possibly changed) source that neither draws nor ends would hang the check: 3 s per case, read as "raises / still
        # running" (= `none` of the Lean definition, whose budget is used up)
        try:
            old_handler = signal.signal(signal.SIGALRM, _stop)
            signal.setitimer(signal.ITIMER_REAL, 3.0)
        except ValueError:                                # not the main thread: no guard
            old_handler = None
        try:
            if kind == 'rn':
                v = _try(lambda: K.get_secure_random_number(a[0], a[1]))
                return 'err' if v is None else f'{v} {fake.draws}'
            K.words = [str(i) for i in range(a[0])]
            ws = _try(lambda: K.mnemonic_new(a[1]))
            return 'err' if ws is None else f'{".".join(ws) or "-"} {fake.draws}'
        finally:
            if old_handler is not None:
                signal.setitimer(signal.ITIMER_REAL, 0)
                signal.signal(signal.SIGALRM, old_handler)
            K.os, K.words = saved
    if kind == 'iand':
        return str(a[0] & a[1])
    raise ValueError(kind)


class _StreamOs:
    """stands in for the `os` module inside the private copy of keys.py: urandom answers from a FINITE recorded stream, `b''` after its
    end (every loop of the code under test then raises IndexError or returns: the run terminates)"""

    def __init__(self, stream):
        self.stream, self.draws = stream, 0

    def urandom(self, n):
        if n < 0:
            raise ValueError('negative argument not allowed')
        r = self.stream[self.draws] if self.draws < len(self.stream) else b''
        self.draws += 1
        return r


def case_word(case):
    kind, a = case[0], case[1:]
    if kind == 'mn':
        return f'mn {".".join(map(str, a[0])) or "-"} {hx(a[1])}'
    if kind in ('rn', 'mnew'):
        return f'{kind} {a[0]} {a[1]} {",".join(hx(x) for x in a[2]) or "_"}'
    if kind == 'iand':
        return f'iand {a[0]} {a[1]}'
    return ' '.join([kind] + [hx(x) for x in a])


LEAN_EVAL = """import TonVerif.Drv.Common
import TonVerif.Generated.AdnlSrc
open TonVerif TonVerif.Drv TonVerif.Model.Adnl TonVerif.Generated.AdnlSrc
""" + TOY_LEAN + """
def oh : Option Bytes → String
  | none => "err"
  | some b => dashHex b
def ob : Option Bool → String
  | none => "err"
  | some true => "1"
  | some false => "0"
def opr : Option (Bytes × Bytes) → String
  | none => "err"
  | some (a, b) => dashHex a ++ ":" ++ dashHex b
def parseStream (s : String) : Option (List Bytes) := if s == "_" then some [] else (s.splitOn ",").mapM hexArg
def rndOf (st : List Bytes) : Nat → Bytes := fun k => st.getD k []
def showNum : Option (Int × Nat) → String
  | none => "err"
  | some (v, k) => toString v ++ " " ++ toString k
def showNew : Option (List Nat × Nat) → String
  | none => "err"
  | some (ws, k) => (if ws.isEmpty then "-" else ".".intercalate (ws.map toString)) ++ " " ++ toString k
/-- the hand model of `mnemonic_new` in the reading "an empty PBKDF2 answer makes `seed[0]` raise" -/
def modelNew (words : List Nat) (rnd : Nat → Bytes) (wc inner : Nat) : Nat → Nat → Option (List Nat × Nat)
  | 0, _ => none
  | n + 1, k => match drawWords words rnd inner wc k with
    | none => none
    | some (arr, k') =>
      if toyP.pbkdf2 (mnemonicToEntropy toyP arr) saltVersion (max 1 (pbkdfIterations / 256)) == [] then none
      else if !isBasicSeed toyP (mnemonicToEntropy toyP arr) then modelNew words rnd wc inner n k' else some (arr, k')
def genChan (a b ida idb : Bytes) : Option (Client × Server × Channel) :=
  (Client_init toyP a).bind fun ca => (Client_init toyP b).bind fun cb => (Server_init toyP () 0 cb.edPub).bind fun s =>
    (AdnlChannel_init toyP ca s ida idb).map fun ch => (ca, s, ch)
def showChan (ca : Client) (s : Server) (ch : Channel) (enc dec sig kid akid : Option Bytes) : String :=
  " ".intercalate [dashHex ca.edPriv, dashHex ca.edPub, dashHex ca.xPriv, dashHex ca.xPub, dashHex s.edPub, dashHex s.xPub,
    dashHex ch.shared, dashHex ch.encKey, dashHex ch.decKey, dashHex ch.clientAesKeyId, dashHex ch.serverAesKeyId, oh enc, oh dec, oh sig, oh kid, oh akid]
/-- what the REGENERATED definitions compute on one case -/
def runGen (ws : List String) : Option String :=
  match ws with
  | ["chan", a, b, ida, idb, m, sm] => do
    let a ← hexArg a; let b ← hexArg b; let ida ← hexArg ida; let idb ← hexArg idb; let m ← hexArg m; let sm ← hexArg sm
    match genChan a b ida idb with
    | none => pure "err"
    | some (ca, s, ch) => pure (showChan ca s ch (AdnlChannel_encrypt_obj toyP ch m) (AdnlChannel_decrypt_obj toyP ch m sm)
        (Client_sign_obj toyP ca m) (Crypto_get_key_id_obj toyP ca) (Crypto_get_aes_key_id_obj toyP ca))
  | ["cipher", k, d] => do
    let k ← hexArg k; let d ← hexArg d
    pure (opr (create_aes_ctr_sipher_from_key_n_data toyP k d))
  | ["sign", m, sk] => do
    let m ← hexArg m; let sk ← hexArg sk
    pure (oh (sign_message toyP m sk ()))
  | ["verify", pk, m, s] => do
    let pk ← hexArg pk; let m ← hexArg m; let s ← hexArg s
    pure (ob (verify_sign toyP pk m s))
  | ["mn", w, salt] => do
    let w ← parseNatList w; let salt ← hexArg salt
    pure (" ".intercalate [ob (mnemonic_is_valid toyP w), ob ((mnemonic_to_entropy toyP w ()).bind (is_basic_seed toyP)),
      oh (mnemonic_to_entropy toyP w ()), oh (mnemonic_to_seed toyP w salt ()), opr (mnemonic_to_private_key toyP w ()),
      opr (mnemonic_to_wallet_key toyP w ())])
  | ["rn", lo, hi, st] => do
    let lo ← lo.toInt?; let hi ← hi.toInt?; let st ← parseStream st
    pure (showNum (get_secure_random_number toyP Py.intFloat (rndOf st) (st.length + 2) lo hi 0))
  | ["mnew", n, wc, st] => do
    let n ← n.toNat?; let wc ← wc.toNat?; let st ← parseStream st
    pure (showNew (mnemonic_new toyP Py.intFloat (rndOf st) (st.length + 2) wc () (List.range n) 0))
  | ["iand", a, b] => do
    let a ← a.toInt?; let b ← b.toInt?
    pure (toString (Py.intAnd a b))
  | _ => none
/-- what the HAND MODEL (Model/Adnl.lean) computes, in the reading of the `*_eq` theorems of Proofs/SrcAdnl.lean -/
def runModel (ws : List String) : Option String :=
  match ws with
  | ["chan", a, b, ida, idb, m, sm] => do
    let a ← hexArg a; let b ← hexArg b; let ida ← hexArg ida; let idb ← hexArg idb; let m ← hexArg m; let sm ← hexArg sm
    let ca := Client.new toyP a
    let s := Server.new toyP (Client.new toyP b).edPub
    let ch := Channel.new toyP ca s ida idb
    pure (showChan ca s ch (ch.encrypt toyP m) (ch.decrypt toyP m sm) (some (getSignature toyP ca.edPriv m)) (some (keyId toyP ca.edPub)) (some (keyAesId toyP ca.edPriv)))
  | ["cipher", k, d] => do
    let k ← hexArg k; let d ← hexArg d
    pure (opr (cipherParams k d))
  | ["sign", m, sk] => do
    let m ← hexArg m; let sk ← hexArg sk
    pure (oh (some (signMessage toyP m sk)))
  | ["verify", pk, m, s] => do
    let pk ← hexArg pk; let m ← hexArg m; let s ← hexArg s
    pure (ob (some (verifySign toyP pk m s)))
  | ["mn", w, salt] => do
    let w ← parseNatList w; let salt ← hexArg salt
    let empty := toyP.pbkdf2 (mnemonicToEntropy toyP w) saltVersion (max 1 (pbkdfIterations / 256)) == []
    pure (" ".intercalate [ob (if w.length == 24 && empty then none else some (mnemonicIsValid toyP w)),
      ob (if empty then none else some (isBasicSeed toyP (mnemonicToEntropy toyP w))),
      oh (some (mnemonicToEntropy toyP w)), oh (some (mnemonicToSeed toyP w salt)), opr (some (mnemonicToPrivateKey toyP w)),
      opr (some (mnemonicToWalletKey toyP w))])
  | ["rn", lo, hi, st] => do
    let lo ← lo.toInt?; let hi ← hi.toInt?; let st ← parseStream st
    if lo < 0 ∨ hi < 0 then runGen ws          -- the hand model is stated for non-negative bounds
    else pure (showNum ((secureRandomNumber (rndOf st) lo.toNat hi.toNat (st.length + 2) 0).map fun (v, k) => ((v : Int), k)))
  | ["mnew", n, wc, st] => do
    let n ← n.toNat?; let wc ← wc.toNat?; let st ← parseStream st
    pure (showNew (modelNew (List.range n) (rndOf st) wc (st.length + 2) (st.length + 2) 0))
  | ["iand", _, _] => runGen ws
  | _ => none
def run (mode : String) (line : String) : String :=
  let ws := line.splitOn " "
  if mode == "val" then (runGen ws).getD "bad"
  else match runGen ws, runModel ws with
    | some g, some m =>
      if g == m then "same" else
        let gs := g.splitOn " "; let ms := m.splitOn " "
        "DIFF " ++ ",".intercalate (((List.range (max gs.length ms.length)).filter fun i => gs[i]? != ms[i]?).map toString)
    | _, _ => "bad"
"""


def lean_eval(cases, mode):
    """mode 'val': per case what the regenerated definitions compute (format of py_case);
       mode 'diff': per case 'same' | 'DIFF i,j,..' (indices of the output components where regenerated and hand model differ)"""
    words = [case_word(c) for c in cases]
    lines = [LEAN_EVAL, 'def inputs : List String := [' + ', '.join('"' + w + '"' for w in words) + ']',
             f'#eval (do for w in inputs do IO.println ("VAL " ++ run "{mode}" w) : IO Unit)']
    tmp = os.path.join(LEAN, f'.srcadnl_{os.getpid()}.lean')
    with open(tmp, 'w') as f:
        f.write('\n'.join(lines) + '\n')
    try:
        _lake_build(['TonVerif.Generated.AdnlSrc', 'TonVerif.Drv.Common'])
        p = subprocess.run(['lake', 'env', 'lean', tmp], cwd=LEAN, capture_output=True, text=True, timeout=900)
    finally:
        os.unlink(tmp)
    got = re.findall(r'^VAL (.*)$', p.stdout, re.M)
    if len(got) != len(cases) or 'bad' in got:
        raise RuntimeError('lean evaluation failed: ' + (p.stdout + p.stderr)[-400:])
    return got


# ---------------------------------------------------------------------------- structured inputs

CHAN_OUT = ['Client.ed25519_private', 'Client.ed25519_public', 'Client.x25519_private', 'Client.x25519_public', 'Server.ed25519_public',
            'Server.x25519_public', 'channel_shared', 'enc_key', 'dec_key', 'client_aes_key_id', 'server_aes_key_id', 'encrypt', 'decrypt',
            'Client.sign', 'get_key_id', 'get_aes_key_id']
MN_OUT = ['mnemonic_is_valid', 'is_basic_seed', 'mnemonic_to_entropy', 'mnemonic_to_seed', 'mnemonic_to_private_key', 'mnemonic_to_wallet_key']


def grid():
    """deterministic boundary inputs: every ordering of the ids (greater / smaller / equal / prefix / empty / first byte 7f-80), plaintext and
    checksum lengths around 0 / 4 / 16 / 20 / 32, key x data lengths around the slice bounds, word counts around 24"""
    rng = random.Random(20240920)
    out = []
    ka, kb = rng.randbytes(32), rng.randbytes(32)
    lo, hi = min(ka, kb), max(ka, kb)
    ids = [(hi, lo), (lo, hi), (ka, ka), (ka, ka[:31]), (ka[:5], ka), (b'', b''), (b'', b'\x00'), (b'\x00', b''), (b'\x7f' + ka[1:], b'\x80' + ka[1:]),
           (b'\x80' + ka[1:], b'\x7f' + ka[1:]), (b'\x01', b'\x02'), (b'\x02', b'\x01'), (b'\x01\xff', b'\x02'), (b'\xff', b'\x01\x00')]
    for ida, idb in ids:
        for n in (0, 5, 33):
            out.append(('chan', rng.randbytes(32), rng.randbytes(32), ida, idb, rng.randbytes(n), rng.randbytes(32)))
    for sl in (0, 3, 4, 16, 20, 31, 33, 64):
        out.append(('chan', rng.randbytes(32), rng.randbytes(32), hi, lo, rng.randbytes(7), rng.randbytes(sl)))
    out.append(('chan', b'', rng.randbytes(1), lo, hi, b'abc', rng.randbytes(32)))
    s = rng.randbytes(32)
    out.append(('chan', s, s, ka, ka, b'self', rng.randbytes(32)))
    for kl in (0, 15, 16, 19, 20, 21, 31, 32, 33, 40):
        for dl in (0, 3, 4, 5, 16, 17, 31, 32, 33, 64):
            out.append(('cipher', rng.randbytes(kl), rng.randbytes(dl)))
    for ml in (0, 1, 2, 63, 64, 65, 100):
        for kl in (0, 32, 64):
            out.append(('sign', rng.randbytes(ml), rng.randbytes(kl)))
    for _ in range(16):
        out.append(('verify', rng.randbytes(32), rng.randbytes(rng.randrange(0, 40)), rng.randbytes(64)))
    out.append(('verify', b'', b'', b''))
    for n in [0, 1, 12, 23, 25, 48] * 4 + [24] * 40:
        out.append(('mn', tuple(rng.randrange(0, 2048) for _ in range(n)), rng.choice([b'TON default seed', b'', rng.randbytes(5)])))
    out += loop_grid(rng)
    return out


def loop_grid(rng):
    """the two `while True` functions on FINITE recorded streams: ranges 1, 2, 3, around 2^8 / 2^16 / 2^24, up to 2^47 (below that CPython's
    float arithmetic is exact), empty / negative / too large ranges, negative lower bounds; first draws at the rejection boundary (= range,
    range - 1, the mask, 0), short answers (IndexError), an exhausted stream; generator runs over small word lists (range 5: draws 5, 6, 7
    are rejected) with 1 / 2 / 3 / 24 words per candidate (0 words: the Python loop never draws and never ends); `&` on ints of both signs"""
    out = []
    for lo, hi in [(0, 1), (0, 2), (0, 3), (5, 9), (-7, -2), (-3, 4), (0, 255), (0, 256), (0, 257), (0, 2048), (7, 7 + 2048), (0, 65535), (0, 65536),
                   (0, 65537), (0, 2 ** 24 - 1), (0, 2 ** 24 + 1), (0, 2 ** 40), (3, 3 + 2 ** 33 + 1), (0, 2 ** 47), (10, 10), (10, 3), (0, 2 ** 54), (0, 2 ** 60)]:
        rg = hi - lo
        bits = max(rg - 1, 0).bit_length() if rg >= 1 else 0
        nb = (bits + 7) // 8
        firsts = [None]
        if 1 <= rg < 2 ** 48 and nb:
            firsts += [v.to_bytes(nb, 'big') for v in (rg, rg - 1, (1 << bits) - 1, 0) if 0 <= v < 256 ** nb]
        for first in firsts:
            stream = [rng.randbytes(max(bits, nb)) for _ in range(6)]
            if first is not None:
                stream[0] = first + stream[0][len(first):]
            out.append(('rn', lo, hi, tuple(stream)))
        out.append(('rn', lo, hi, ()))
        out.append(('rn', lo, hi, (rng.randbytes(max(nb - 1, 0)),) * 2))
    for nwords, wc in [(5, 3), (5, 3), (5, 3), (5, 2), (6, 3), (3, 1), (2, 3), (0, 3), (7, 24), (7, 24), (300, 2), (2048, 2), (5, 3)]:
        bits = max(nwords - 1, 0).bit_length()
        out.append(('mnew', nwords, wc, tuple(rng.randbytes(max(bits, 1)) for _ in range(rng.choice([40, 90, 200])))))
    out.append(('mnew', 5, 3, ()))
    for a2 in (0, 1, 5, 255, 2 ** 53 - 1, -1, -2, -256, -(2 ** 40) - 3):
        for b2 in (0, 7, 255, 2 ** 53 - 1, -1, -8, -255):
            out.append(('iand', a2, b2))
    return out


def real_library_checks():
    """the declared reading of the key / cipher OBJECTS, compared with the real libraries -> None | reason"""
    from nacl.signing import SigningKey, VerifyKey, SignedMessage
    from nacl.bindings import crypto_sign, crypto_sign_seed_keypair, crypto_sign_BYTES
    import nacl.encoding
    from Cryptodome.Cipher import AES
    rng = random.Random(7)
    if crypto_sign_BYTES != SIGNATURE_CONSTS['crypto_sign_BYTES']:
        return 'nacl.bindings.crypto_sign_BYTES is not 64'
    for _ in range(4):
        seed, m = rng.randbytes(32), rng.randbytes(rng.randrange(0, 50))
        sk = SigningKey(seed)
        pk, sec = crypto_sign_seed_keypair(seed)
        if sk.encode() != seed or SigningKey(seed=sk.encode()).encode() != seed or sk.verify_key.encode() != pk or VerifyKey(pk).encode() != pk:
            return 'a key object is not represented by the bytes it was built from'
        if bytes(sk.sign(m)) != crypto_sign(m, sec):
            return 'SigningKey(seed).sign(m) is not crypto_sign(m, crypto_sign_seed_keypair(seed)[1])'
        if sk.to_curve25519_private_key().public_key.encode() != sk.verify_key.to_curve25519_public_key().encode():
            pass                                           # (a LAW of the primitives, not part of the reading; tested by harness/props/C20.py)
        if nacl.encoding.RawEncoder.encode(m) != m or SignedMessage._from_parts(seed, m, seed + m).signature != seed:
            return 'RawEncoder.encode / SignedMessage._from_parts(..).signature are not the identity / first part'
    for kl in list(range(0, 41)):
        for il in (0, 8, 15, 16, 17, 32):
            try:
                AES.new(bytes(kl), AES.MODE_CTR, initial_value=bytes(il), nonce=b'')
                ok = True
            except Exception:
                ok = False
            if ok != (kl in (16, 24, 32) and il == 16):
                return f'AES.new accepts/refuses key length {kl}, counter length {il} against Py.aesCtrNew?'
    k, iv, d = rng.randbytes(32), rng.randbytes(16), rng.randbytes(40)
    if AES.new(k, AES.MODE_CTR, initial_value=iv, nonce=b'').encrypt(d) != AES.new(k, AES.MODE_CTR, initial_value=iv, nonce=b'').decrypt(d):
        return 'a fresh CTR cipher object encrypts and decrypts differently'
    return None


def validate():
    """Differential validation of the TRANSLATOR: every regenerated definition, evaluated by Lean on the toy primitives, must give what
    CPython gives when it runs the source with the same toy primitives substituted (value or "raises").  -> None | reason"""
    bad = real_library_checks()
    if bad:
        return 'validation: ' + bad
    cases = grid()
    try:
        mods = toy_modules()
    except Exception as e:
        return f'validation: the source files could not be loaded with the toy primitives: {type(e).__name__}: {e}'
    try:
        got = lean_eval(cases, 'val')
    except Exception as e:
        return f'validation: the regenerated definitions could not be evaluated: {e}'
    for case, g in zip(cases, got):
        try:
            pv = py_case(mods, case)
        except Exception as e:
            return f'validation: CPython run of {case_word(case)[:120]} failed: {type(e).__name__}: {e}'
        if pv != g:
            gs, ps = g.split(' '), pv.split(' ')
            k = [i for i in range(max(len(ps), len(gs))) if i >= len(gs) or i >= len(ps) or gs[i] != ps[i]][0]
            names = CHAN_OUT if case[0] == 'chan' else MN_OUT if case[0] == 'mn' else [case[0]] * 3
            return (f'validation: on `{case_word(case)[:160]}` component {names[k] if k < len(names) else k}: Lean computes '
                    f'"{(gs + ["?"] * 20)[k][:80]}", CPython computes "{(ps + ["?"] * 20)[k][:80]}"')
    return None


def regenerate():
    path = os.path.join(LEAN, OUT)
    try:
        old = open(path).read()
    except FileNotFoundError:
        old = None
    text, info, lost = generate(old=old)
    changed = write_if_changed(path, text)
    h = hashlib.sha256(text.encode())
    for f in FILES.values():
        h.update(open(os.path.join(REPO, f), 'rb').read())
    for f in (__file__, pyprims.__file__, pyobj.__file__, pybytes.__file__, pybytes.pyarith.__file__, os.path.join(LEAN, 'TonVerif/PyCrypto.lean'),
              os.path.join(LEAN, 'TonVerif/PyBytes.lean'), os.path.join(LEAN, 'TonVerif/Model/Adnl.lean'), pyrand.__file__,
              os.path.join(LEAN, 'TonVerif/PyRand.lean')):
        h.update(open(f, 'rb').read())
    stamp = os.path.join(LEAN, '.lake', 'srcval_AdnlSrc.stamp')
    try:
        cached = open(stamp).read() == h.hexdigest()
    except OSError:
        cached = False
    if not cached and not lost:
        bad = validate()
        if bad:                      # the translation does not compute what Python computes: do not keep it
            keep = committed_text() or old
            if keep is None:
                raise Untranslatable(bad)
            changed = write_if_changed(path, keep) or changed
            lost = {'AdnlSrc': bad}
        else:
            try:
                with open(stamp, 'w') as f:
                    f.write(h.hexdigest())
            except OSError:
                pass
    if lost:
        raise Untranslatable(f'kept the previous translation of {sorted(lost)}: {lost} (file changed: {changed})')
    return changed, {'definitions': {g: v for g, v in info.items()},
                     'validated': 'cached' if cached else f'Lean evaluation = CPython on the source with toy primitives, {len(grid())} cases; '
                                                          'key / cipher object reading = nacl / pycryptodomex'}


def diff_points(ctx):
    """For harness search mode: [(case, [names of the differing outputs])] where the regenerated definitions and the hand model differ
    on the boundary grid (evaluated by Lean on the toy primitives; needs only Generated/AdnlSrc.lean, not the proofs).  Never raises."""
    cases = grid()
    try:
        got = lean_eval(cases, 'diff')
    except Exception as e:
        ctx.notes.append(f'source-diff search (AdnlSrc) failed: {type(e).__name__}: {e}')
        return []
    found = []
    for case, g in zip(cases, got):
        if g.startswith('DIFF'):
            names = CHAN_OUT if case[0] == 'chan' else MN_OUT if case[0] == 'mn' else [case[0]] * 3
            idx = [int(i) for i in g[5:].split(',') if i]
            found.append((case, [names[i] if i < len(names) else str(i) for i in idx]))
    ctx.notes.append(f'source-diff search: regenerated ADNL glue vs hand model on {len(cases)} boundary cases: '
                     + (f'{len(found)} differ, e.g. ' + '; '.join(f'{case_word(c)[:60]} -> {n}' for c, n in found[:3]) if found else 'no differing case'))
    return found


def _main():
    text, info, lost = generate(old='')
    print(info, lost)
    if not lost:
        print(write_if_changed(os.path.join(LEAN, OUT), text))


if __name__ == '__main__':
    _main()
